//! Interpreter: applies one op to the real ports and to the model and compares the return value
//! of that op with what the model allows; runs the invariants (canaries, address disjointness)
//! after every step. Generic over `local::Service` / `ipc::Service`.

use super::model::*;
use super::types::*;
use crate::domain::Domain;
use crate::pubsub::logcap;
use iceoryx2::active_request::ActiveRequest;
use iceoryx2::node::{Node, NodeBuilder};
use iceoryx2::pending_response::PendingResponse;
use iceoryx2::port::client::{Client, RequestSendError};
use iceoryx2::port::server::Server;
use iceoryx2::port::{LoanError, ReceiveError, SendError};
use iceoryx2::prelude::{BackpressureStrategy, PortFactory as _};
use iceoryx2::request_mut::RequestMut;
use iceoryx2::response::Response;
use iceoryx2::response_mut::ResponseMut;
use iceoryx2::service::Service;
use iceoryx2::service::port_factory::client::ClientCreateError;
use iceoryx2::service::port_factory::request_response::PortFactory;
use iceoryx2::service::port_factory::server::ServerCreateError;
use std::collections::{BTreeMap, BTreeSet};
use vcore::util::idx;
use vcore::{Failure, Obs};

#[derive(Clone, Copy, Debug)]
pub struct Opts {
    /// C02 (2): addresses of new loans must not be among the addresses of referenced chunks
    pub address_probe: bool,
    /// C02 (1): re-read every held payload after every op
    pub canary: bool,
    /// C08 (1): no "should never happen" / error line in the log
    pub check_log: bool,
    /// C08 (3): right after a limit error re-read what the public API shows of every live object
    /// (is_connected on both ends, has_response) and compare it with the unchanged model
    pub recheck_after_limit: bool,
}

impl Default for Opts {
    fn default() -> Self {
        Opts { address_probe: true, canary: true, check_log: false, recheck_after_limit: false }
    }
}

/// Known findings that are open (whatever property they are filed under): inputs that run into
/// them are left out and counted.
#[derive(Clone, Debug, Default)]
pub struct Open {
    pub set: BTreeSet<String>,
}

impl Open {
    pub fn load() -> Open {
        let mut set = BTreeSet::new();
        for f in vcore::ctx::load_findings() {
            if f.status == "open" && ALL_FINDINGS.contains(&f.signature.as_str()) {
                set.insert(f.signature.clone());
            }
        }
        Open { set }
    }
    pub fn none() -> Open {
        Open::default()
    }
    pub fn has(&self, sig: &str) -> bool {
        self.set.contains(sig)
    }
}

type Cl<S> = Client<S, Req, (), Resp, ()>;
type Sv<S> = Server<S, Req, (), Resp, ()>;
type Rm<S> = RequestMut<S, Req, (), Resp, ()>;
type Pr<S> = PendingResponse<S, Req, (), Resp, ()>;
type Ar<S> = ActiveRequest<S, Req, (), Resp, ()>;
type Rpm<S> = ResponseMut<S, Resp, ()>;
type Rp<S> = Response<S, Resp, ()>;

fn hdr_u64<T: std::fmt::Debug>(h: &T, key: &str) -> Option<u64> {
    let s = format!("{h:?}");
    let i = s.find(key)? + key.len();
    s[i..].split(')').next()?.trim().parse().ok()
}

fn channel_of<T: std::fmt::Debug>(h: &T) -> Option<u64> {
    hdr_u64(h, "channel_id: ChannelId(")
}

fn request_id_of<T: std::fmt::Debug>(h: &T) -> Option<u64> {
    hdr_u64(h, "request_id: ChannelState(")
}

pub struct Interp<S: Service> {
    pub m: Model,
    pub opts: Opts,
    pub open: Open,
    pub excluded: BTreeMap<&'static str, u64>,
    /// first predicted deviation on a tree where its finding is not open: later failures carry its signature
    pub taint: Option<Hazard>,
    /// the history cannot be followed any further without guessing (R5 unresolved)
    pub stopped: bool,
    pub reuse_while_held: u64,
    pub applied: usize,
    dom: Domain,
    node: Option<Node<S>>,
    svc: Option<PortFactory<S, Req, (), Resp, ()>>,
    clients: Vec<Option<Cl<S>>>,
    servers: Vec<Option<Sv<S>>>,
    server_ids: Vec<u128>,
    client_ids: Vec<u128>,
    req_loans: Vec<Option<Rm<S>>>,
    pendings: Vec<Option<Pr<S>>>,
    ars: Vec<Option<Ar<S>>>,
    resp_loans: Vec<Option<Rpm<S>>>,
    resps: Vec<Option<Rp<S>>>,
    ls: usize,
}

macro_rules! bail {
    ($self:expr, $sig:expr, $($arg:tt)*) => {
        return Err($self.failure($sig, format!($($arg)*)))
    };
}

macro_rules! check {
    ($self:expr, $cond:expr, $sig:expr, $($arg:tt)*) => {
        if !($cond) {
            return Err($self.failure($sig, format!($($arg)*)));
        }
    };
}

impl<S: Service> Interp<S> {
    pub fn new(cfg: &Cfg, opts: Opts, open: &Open) -> Result<Self, Failure> {
        let dom = Domain::new();
        let node = match NodeBuilder::new().config(&dom.config).create::<S>() {
            Ok(n) => n,
            Err(e) => {
                dom.cleanup();
                return Err(Failure::new("setup.node", format!("node could not be created: {e:?}")));
            }
        };
        let svc = node
            .service_builder(&"rr".try_into().unwrap())
            .request_response::<Req, Resp>()
            .max_clients(cfg.max_clients)
            .max_servers(cfg.max_servers)
            .max_active_requests_per_client(cfg.max_active)
            .max_response_buffer_size(cfg.buf)
            .max_borrowed_responses_per_pending_response(cfg.borrow)
            .max_loaned_requests(cfg.loan_req)
            .enable_safe_overflow_for_requests(cfg.req_overflow)
            .enable_safe_overflow_for_responses(cfg.resp_overflow)
            .enable_fire_and_forget_requests(cfg.faf)
            .create();
        let svc = match svc {
            Ok(s) => s,
            Err(e) => {
                drop(node);
                dom.cleanup();
                return Err(Failure::new("setup.service", format!("service {cfg:?} could not be created: {e:?}")));
            }
        };
        let sc = svc.static_config();
        let eff = Eff {
            max_clients: sc.max_clients(),
            max_servers: sc.max_servers(),
            a: sc.max_active_requests_per_client(),
            b: sc.max_response_buffer_size(),
            w: sc.max_borrowed_responses_per_pending_response(),
            req_overflow: sc.has_safe_overflow_for_requests(),
            resp_overflow: sc.has_safe_overflow_for_responses(),
            faf: sc.does_support_fire_and_forget_requests(),
            lr: sc.max_loaned_requests(),
            ls: cfg.loan_resp.max(1),
        };
        let clamp = |v: usize| v.max(1);
        let ok = eff.max_clients == clamp(cfg.max_clients)
            && eff.max_servers == clamp(cfg.max_servers)
            && eff.a == clamp(cfg.max_active)
            && eff.b == clamp(cfg.buf)
            && eff.w == clamp(cfg.borrow)
            && eff.lr == clamp(cfg.loan_req)
            && eff.req_overflow == cfg.req_overflow
            && eff.resp_overflow == cfg.resp_overflow
            && eff.faf == cfg.faf;
        if !ok {
            drop(svc);
            drop(node);
            dom.cleanup();
            return Err(Failure::new("setup.static_config", format!("static config {eff:?} is not the (clamped) requested configuration {cfg:?}")));
        }
        Ok(Interp {
            m: Model::new(eff),
            opts,
            open: open.clone(),
            excluded: BTreeMap::new(),
            taint: None,
            stopped: false,
            reuse_while_held: 0,
            applied: 0,
            dom,
            node: Some(node),
            svc: Some(svc),
            clients: vec![],
            servers: vec![],
            server_ids: vec![],
            client_ids: vec![],
            req_loans: vec![],
            pendings: vec![],
            ars: vec![],
            resp_loans: vec![],
            resps: vec![],
            ls: cfg.loan_resp,
        })
    }

    fn failure(&self, sig: &str, msg: String) -> Failure {
        match &self.taint {
            Some(h) => Failure::new(h.sig, format!("{sig}: {msg} [predicted deviation: {}]", h.why)),
            None => Failure::new(sig, msg),
        }
    }

    /// true = leave the op out (its finding is open)
    fn hazard(&mut self, hz: Option<Hazard>) -> bool {
        if let Some(h) = hz {
            if self.open.has(h.sig) {
                *self.excluded.entry(h.sig).or_default() += 1;
                return true;
            }
            if self.taint.is_none() {
                self.taint = Some(h);
            }
        }
        false
    }

    // ------------------------------------------------------------------------------------------
    pub fn step(&mut self, op: &Op) -> Result<bool, Failure> {
        if self.stopped {
            return Ok(false);
        }
        let limit_errors_before: u64 = self.m.ev.limit_errors.values().sum();
        let r = self.step_inner(op);
        if self.opts.recheck_after_limit && r.is_ok() && self.m.ev.limit_errors.values().sum::<u64>() > limit_errors_before {
            self.recheck(op)?;
        }
        if std::env::var("RR_TRACE").is_ok() {
            eprintln!("  {op:?} -> {:?} | pend {:?} ars {:?} resps {:?} loans {:?}/{:?} inbox {:?} conns {:?}", r.as_ref().map_err(|f| f.message.clone()), self.m.live_pendings(), self.m.live_ars(), self.m.live_resps(), self.m.live_req_loans(), self.m.live_resp_loans(),
                self.m.servers.iter().map(|s| s.inbox.iter().map(|(c, q)| (*c, q.iter().map(|e| (e.req, e.uncertain)).collect::<Vec<_>>())).collect::<Vec<_>>()).collect::<Vec<_>>(),
                self.m.conns.iter().map(|(k, v)| (*k, v.server_dead, v.chans.iter().map(|(ch, q)| (*ch, q.iter().map(|e| (e.req, e.k, e.uncertain)).collect::<Vec<_>>())).collect::<Vec<_>>())).collect::<Vec<_>>());
        }
        let applied = r?;
        if applied {
            self.applied += 1;
            self.invariants(op)?;
        }
        Ok(applied)
    }

    fn step_inner(&mut self, op: &Op) -> Result<bool, Failure> {
        match op {
            Op::CreateClient => self.create_client(),
            Op::CreateServer => self.create_server(),
            Op::DropClient(i) => {
                let l = self.m.live_clients();
                if l.is_empty() {
                    return Ok(false);
                }
                let c = l[idx(*i, l.len())];
                self.clients[c] = None;
                self.m.drop_client_apply(c);
                Ok(true)
            }
            Op::DropServer(i) => {
                let l = self.m.live_servers();
                if l.is_empty() {
                    return Ok(false);
                }
                let s = l[idx(*i, l.len())];
                self.servers[s] = None;
                self.m.drop_server_apply(s);
                Ok(true)
            }
            Op::LoanRequest(i) => {
                let l = self.m.live_clients();
                if l.is_empty() {
                    return Ok(false);
                }
                let c = l[idx(*i, l.len())];
                self.loan_request(c).map(|r| r.is_some())
            }
            Op::SendLoan(i) => {
                let l = self.m.live_req_loans();
                if l.is_empty() {
                    return Ok(false);
                }
                self.send_loan(l[idx(*i, l.len())])
            }
            Op::DropLoan(i) => {
                let l = self.m.live_req_loans();
                if l.is_empty() {
                    return Ok(false);
                }
                let x = l[idx(*i, l.len())];
                self.req_loans[x] = None;
                self.m.drop_req_loan_apply(x);
                Ok(true)
            }
            Op::SendRequest(i) => {
                let l = self.m.live_clients();
                if l.is_empty() {
                    return Ok(false);
                }
                self.send_request(l[idx(*i, l.len())])
            }
            Op::ServerReceive(i) => {
                let l = self.m.live_servers();
                if l.is_empty() {
                    return Ok(false);
                }
                self.server_receive(l[idx(*i, l.len())])
            }
            Op::SendResponse(i) => {
                let l = self.m.live_ars();
                if l.is_empty() {
                    return Ok(false);
                }
                self.send_response(l[idx(*i, l.len())])
            }
            Op::LoanResponse(i) => {
                let l = self.m.live_ars();
                if l.is_empty() {
                    return Ok(false);
                }
                self.loan_response(l[idx(*i, l.len())]).map(|r| r.is_some())
            }
            Op::SendRespLoan(i) => {
                let l = self.m.live_resp_loans();
                if l.is_empty() {
                    return Ok(false);
                }
                self.send_resp_loan(l[idx(*i, l.len())])
            }
            Op::DropRespLoan(i) => {
                let l = self.m.live_resp_loans();
                if l.is_empty() {
                    return Ok(false);
                }
                let x = l[idx(*i, l.len())];
                self.resp_loans[x] = None;
                self.m.drop_resp_loan_apply(x);
                Ok(true)
            }
            Op::PrReceive(i) => {
                let l = self.m.live_pendings();
                if l.is_empty() {
                    return Ok(false);
                }
                self.pr_receive(l[idx(*i, l.len())])
            }
            Op::DropResponse(i) => {
                let l = self.m.live_resps();
                if l.is_empty() {
                    return Ok(false);
                }
                let x = l[idx(*i, l.len())];
                self.resps[x] = None;
                self.m.drop_response_apply(x);
                Ok(true)
            }
            Op::DropPending(i) => {
                let l = self.m.live_pendings();
                if l.is_empty() {
                    return Ok(false);
                }
                let r = l[idx(*i, l.len())];
                self.pendings[r] = None;
                self.m.drop_pending_apply(r);
                Ok(true)
            }
            Op::DropActive(i) => {
                let l = self.m.live_ars();
                if l.is_empty() {
                    return Ok(false);
                }
                let a = l[idx(*i, l.len())];
                self.ars[a] = None;
                self.m.drop_active_apply(a);
                Ok(true)
            }
            Op::IsConnectedPr(i) => {
                let l = self.m.live_pendings();
                if l.is_empty() {
                    return Ok(false);
                }
                let r = l[idx(*i, l.len())];
                let (exp, hz) = self.m.pr_is_connected_expect(r);
                if self.hazard(hz) {
                    return Ok(false);
                }
                let got = self.pendings[r].as_ref().unwrap().is_connected();
                if exp == Tri::Either {
                    self.m.ev.either_taken += 1;
                }
                check!(self, exp.admits(got), "pr.is_connected", "PendingResponse::is_connected() of request {:?} = {got}, expected {exp:?}; streams {:?}", self.tag(r), self.m.reqs[r].streams);
                Ok(true)
            }
            Op::IsConnectedAr(i) => {
                let l = self.m.live_ars();
                if l.is_empty() {
                    return Ok(false);
                }
                let a = l[idx(*i, l.len())];
                let got = self.ars[a].as_ref().unwrap().is_connected();
                let exp = self.m.ar_is_connected_expect(a);
                check!(self, got == exp, "ar.is_connected", "ActiveRequest::is_connected() of request {:?} at server {} = {got}, expected {exp}", self.tag(self.m.ars[a].req), self.m.ars[a].server);
                Ok(true)
            }
            Op::HasResponse(i) => {
                let l = self.m.live_pendings();
                if l.is_empty() {
                    return Ok(false);
                }
                let r = l[idx(*i, l.len())];
                let (exp, hz) = self.m.has_response_expect(r);
                if self.hazard(hz) {
                    return Ok(false);
                }
                let got = self.pendings[r].as_ref().unwrap().has_response();
                check!(self, got == exp, "pr.has_response", "PendingResponse::has_response() of request {:?} = {got}, expected {exp}", self.tag(r));
                Ok(true)
            }
            Op::HasRequests(i) => {
                let l = self.m.live_servers();
                if l.is_empty() {
                    return Ok(false);
                }
                let s = l[idx(*i, l.len())];
                let exp = self.m.has_requests_expect(s);
                let got = match self.servers[s].as_ref().unwrap().has_requests() {
                    Ok(v) => v,
                    Err(e) => bail!(self, "server.has_requests", "has_requests failed: {e:?}"),
                };
                self.m.server_refresh(s);
                check!(self, exp.admits(got), "server.has_requests", "Server::has_requests() of server {s} = {got}, expected {exp:?}");
                Ok(true)
            }
            Op::ProbeClient(i) => {
                let l = self.m.live_clients();
                if l.is_empty() {
                    return Ok(false);
                }
                self.probe_client(l[idx(*i, l.len())])
            }
            Op::ProbeActive(i) => {
                let l = self.m.live_ars();
                if l.is_empty() {
                    return Ok(false);
                }
                self.probe_active(l[idx(*i, l.len())])
            }
        }
    }

    fn tag(&self, r: Rid) -> (usize, u32) {
        (self.m.reqs[r].client, self.m.reqs[r].seq)
    }

    // ------------------------------------------------------------------------------------------ ports
    fn create_client(&mut self) -> Result<bool, Failure> {
        let (exp, hz) = self.m.create_client_expect();
        if exp != Tri::No && self.hazard(hz) {
            return Ok(false);
        }
        let r = self.svc.as_ref().unwrap().client_builder().backpressure_strategy(BackpressureStrategy::DiscardData).create();
        match r {
            Ok(c) => {
                check!(self, exp != Tri::No, "client.create.limit", "a client beyond max_clients = {} was created", self.m.cfg.max_clients);
                if exp == Tri::Either {
                    self.m.ev.either_taken += 1;
                }
                if self.m.alive_client_ports() + 1 >= self.m.cfg.max_clients && self.m.alive_server_ports() >= self.m.cfg.max_servers {
                    self.m.ev.saturated_success += 1;
                }
                self.client_ids.push(c.id().value());
                self.clients.push(Some(c));
                self.m.create_client_apply();
                self.m.note_success("create_client");
                Ok(true)
            }
            Err(ClientCreateError::ExceedsMaxSupportedClients) => {
                check!(self, exp != Tri::Yes, "client.create", "client creation failed with ExceedsMaxSupportedClients although only {} of {} client ports exist", self.m.alive_client_ports(), self.m.cfg.max_clients);
                if exp == Tri::Either {
                    self.m.ev.either_taken += 1;
                }
                self.m.note_limit_error("create_client");
                Ok(true)
            }
            Err(e) => bail!(self, "client.create", "client creation failed with {e:?} (expected {})", if exp == Tri::No { "ExceedsMaxSupportedClients" } else { "success" }),
        }
    }

    fn create_server(&mut self) -> Result<bool, Failure> {
        let exp = self.m.create_server_expect();
        let r = self.svc.as_ref().unwrap().server_builder().backpressure_strategy(BackpressureStrategy::DiscardData).max_loaned_responses_per_request(self.ls).create();
        match r {
            Ok(s) => {
                check!(self, exp != Tri::No, "server.create.limit", "a server beyond max_servers = {} was created", self.m.cfg.max_servers);
                if exp == Tri::Either {
                    self.m.ev.either_taken += 1;
                }
                if self.m.alive_server_ports() + 1 >= self.m.cfg.max_servers && self.m.alive_client_ports() >= self.m.cfg.max_clients {
                    self.m.ev.saturated_success += 1;
                }
                self.server_ids.push(s.id().value());
                self.servers.push(Some(s));
                self.m.create_server_apply();
                self.m.note_success("create_server");
                Ok(true)
            }
            Err(ServerCreateError::ExceedsMaxSupportedServers) => {
                check!(self, exp != Tri::Yes, "server.create", "server creation failed with ExceedsMaxSupportedServers although only {} of {} server ports exist", self.m.alive_server_ports(), self.m.cfg.max_servers);
                if exp == Tri::Either {
                    self.m.ev.either_taken += 1;
                }
                self.m.note_limit_error("create_server");
                Ok(true)
            }
            Err(e) => bail!(self, "server.create", "server creation failed with {e:?} (expected {})", if exp == Tri::No { "ExceedsMaxSupportedServers" } else { "success" }),
        }
    }

    // ------------------------------------------------------------------------------------------ requests
    /// `Ok(Some(loan))`, `Ok(None)` = left out because of an open finding
    fn loan_request(&mut self, c: Cid) -> Result<Option<usize>, Failure> {
        let (exp_err, hz) = self.m.loan_request_expect(c);
        if self.hazard(hz) {
            return Ok(None);
        }
        let (lo_use, _) = self.m.client_usage(c);
        let r = self.clients[c].as_ref().unwrap().loan_uninit();
        match r {
            Ok(loan) => {
                check!(self, exp_err.is_none(), "client.loan.limit", "client {c} loaned a request beyond max_loaned_requests = {}", self.m.cfg.lr);
                let seq = self.m.next_seq(c);
                let loan = loan.write_payload(Req::new(c as u32, seq));
                let addr = loan.payload() as *const Req as usize;
                let (Some(ch), Some(id)) = (channel_of(loan.header()), request_id_of(loan.header())) else {
                    bail!(self, "harness.header", "cannot read channel / request id from {:?}", loan.header());
                };
                check!(self, loan.header().client_id().value() == self.client_ids[c], "client.loan.header", "request header names client {:?}", loan.header().client_id());
                let in_use = self.m.channels_in_use(c);
                check!(self, !in_use.contains(&ch), "channel.exclusive", "client {c}: new request loan got response channel {ch} which a live loan / pending response of the same client uses ({in_use:?})");
                check!(self, (ch as usize) < self.m.cfg.client_pool(), "channel.range", "channel id {ch} out of range");
                self.address_check_request(c, addr)?;
                if self.m.loans_of_client(c) + 1 >= self.m.cfg.lr && self.m.active_of_client(c) >= self.m.cfg.a {
                    self.m.ev.saturated_success += 1;
                }
                let _ = lo_use;
                let l = self.m.loan_request_apply(c, seq, ch, id, addr);
                debug_assert_eq!(l, self.req_loans.len());
                self.req_loans.push(Some(loan));
                Ok(Some(l))
            }
            Err(LoanError::ExceedsMaxLoans) => {
                check!(self, exp_err == Some("ExceedsMaxLoans"), "client.loan", "client {c}: loan failed with ExceedsMaxLoans with {} of {} loans out", self.m.loans_of_client(c), self.m.cfg.lr);
                self.m.note_limit_error("loan_request");
                Ok(Some(usize::MAX))
            }
            Err(LoanError::OutOfMemory) => {
                let (lo, hi) = self.m.client_usage(c);
                let f = self.failure("client.loan.out_of_memory", format!("client {c}: loan failed with OutOfMemory inside the limits ({} of {} loans out, {} of {} active requests; {lo}..{hi} of {} chunks referenced)", self.m.loans_of_client(c), self.m.cfg.lr, self.m.active_of_client(c), self.m.cfg.a, self.m.cfg.client_pool()));
                Err(f)
            }
            Err(e) => bail!(self, "client.loan", "client {c}: loan failed with {e:?}"),
        }
    }

    fn address_check_request(&mut self, c: Cid, addr: usize) -> Result<(), Failure> {
        if !self.opts.address_probe {
            return Ok(());
        }
        let refd = self.m.referenced_request_addrs(c);
        if let Some((_, what)) = refd.iter().find(|(a, _)| *a == addr) {
            bail!(self, "loan.double_handout.request", "client {c}: new request loan at {addr:#x} is the chunk of {what}");
        }
        if !self.m.clients[c].addrs_seen.insert(addr) && !refd.is_empty() {
            self.reuse_while_held += 1;
        }
        Ok(())
    }

    fn address_check_response(&mut self, s: Sid, addr: usize) -> Result<(), Failure> {
        if !self.opts.address_probe {
            return Ok(());
        }
        let refd = self.m.referenced_response_addrs(s);
        if let Some((_, what)) = refd.iter().find(|(a, _)| *a == addr) {
            bail!(self, "loan.double_handout.response", "server {s}: new response loan at {addr:#x} is the chunk of {what}");
        }
        if !self.m.servers[s].addrs_seen.insert(addr) && !refd.is_empty() {
            self.reuse_while_held += 1;
        }
        Ok(())
    }

    fn send_loan(&mut self, l: usize) -> Result<bool, Failure> {
        let (c, seq, ch, id, addr) = {
            let x = &self.m.req_loans[l];
            (x.client, x.seq, x.channel, x.request_id, x.addr)
        };
        let exp_err = self.m.send_expect(c);
        let loan = self.req_loans[l].take().unwrap();
        // the loan is consumed by `send` in any case
        self.m.req_loans[l].alive = false;
        match loan.send() {
            Ok(pr) => {
                check!(self, exp_err.is_none(), "client.send.limit", "client {c} sent a request beyond max_active_requests_per_client = {}", self.m.cfg.a);
                self.after_send(c, seq, ch, id, Some(addr), pr)?;
                Ok(true)
            }
            Err(RequestSendError::ExceedsMaxActiveRequests) => {
                check!(self, exp_err.is_some(), "client.send", "client {c}: send failed with ExceedsMaxActiveRequests with {} of {} active requests", self.m.active_of_client(c), self.m.cfg.a);
                self.m.note_limit_error("send_request");
                self.m.drop_req_loan_apply(l);
                Ok(true)
            }
            Err(e) => bail!(self, "client.send", "client {c}: RequestMut::send failed with {e:?}"),
        }
    }

    fn after_send(&mut self, c: Cid, seq: u32, ch: u64, id: u64, addr: Option<usize>, pr: Pr<S>) -> Result<(), Failure> {
        if self.m.active_of_client(c) + 1 >= self.m.cfg.a && self.m.loans_of_client(c) >= self.m.cfg.lr {
            self.m.ev.saturated_success += 1;
        }
        let got = pr.number_of_server_connections();
        check!(self, *pr.payload() == Req::new(c as u32, seq), "pr.payload", "payload of the pending response is {:?}, sent {:?}", *pr.payload(), Req::new(c as u32, seq));
        let (rid, base, ambiguous) = self.m.send_apply(c, seq, ch, id, addr);
        debug_assert_eq!(rid, self.pendings.len());
        self.pendings.push(Some(pr));
        let max = base + ambiguous.len();
        check!(self, got >= base && got <= max, "client.send.recipients", "request {:?}: number_of_server_connections() = {got}, expected {base}..={max} (servers that have a free slot / overflow)", (c, seq));
        if !ambiguous.is_empty() {
            self.m.ev.either_taken += 1;
            if got == base {
                for s in ambiguous {
                    self.m.resolve_delivery(rid, s, false);
                }
            } else if got == max {
                for s in ambiguous {
                    self.m.resolve_delivery(rid, s, true);
                }
            } else {
                // cannot tell which of the servers took it: stop following this history
                self.stopped = true;
            }
        }
        Ok(())
    }

    fn send_request(&mut self, c: Cid) -> Result<bool, Failure> {
        let (loan_err, hz) = self.m.loan_request_expect(c);
        if loan_err.is_none() && self.hazard(hz) {
            return Ok(false);
        }
        let send_err = self.m.send_expect(c);
        let seq = self.m.next_seq(c);
        let in_use = self.m.channels_in_use(c);
        let r = self.clients[c].as_ref().unwrap().send_copy(Req::new(c as u32, seq));
        match r {
            Ok(pr) => {
                check!(self, loan_err.is_none(), "client.loan.limit", "client {c}: send_copy succeeded with all {} request loans out", self.m.cfg.lr);
                check!(self, send_err.is_none(), "client.send.limit", "client {c} sent a request beyond max_active_requests_per_client = {}", self.m.cfg.a);
                let (Some(ch), Some(id)) = (channel_of(pr.header()), request_id_of(pr.header())) else {
                    bail!(self, "harness.header", "cannot read channel / request id from {:?}", pr.header());
                };
                check!(self, !in_use.contains(&ch), "channel.exclusive", "client {c}: new request got response channel {ch} which a live loan / pending response of the same client uses ({in_use:?})");
                let addr = pr.payload() as *const Req as usize;
                self.address_check_request(c, addr)?;
                self.m.note_success("loan_request");
                self.after_send(c, seq, ch, id, Some(addr), pr)?;
                Ok(true)
            }
            Err(RequestSendError::SendError(SendError::LoanError(LoanError::ExceedsMaxLoans))) => {
                check!(self, loan_err.is_some(), "client.loan", "client {c}: send_copy failed with ExceedsMaxLoans with {} of {} loans out", self.m.loans_of_client(c), self.m.cfg.lr);
                self.m.note_limit_error("loan_request");
                Ok(true)
            }
            Err(RequestSendError::ExceedsMaxActiveRequests) => {
                check!(self, loan_err.is_none() && send_err.is_some(), "client.send", "client {c}: send_copy failed with ExceedsMaxActiveRequests with {} of {} active requests ({} loans out)", self.m.active_of_client(c), self.m.cfg.a, self.m.loans_of_client(c));
                self.m.note_limit_error("send_request");
                Ok(true)
            }
            Err(RequestSendError::SendError(SendError::LoanError(LoanError::OutOfMemory))) => {
                let (lo, hi) = self.m.client_usage(c);
                bail!(self, "client.loan.out_of_memory", "client {c}: send_copy failed with OutOfMemory inside the limits ({} of {} loans out, {} of {} active requests; {lo}..{hi} of {} chunks referenced)", self.m.loans_of_client(c), self.m.cfg.lr, self.m.active_of_client(c), self.m.cfg.a, self.m.cfg.client_pool())
            }
            Err(e) => bail!(self, "client.send", "client {c}: send_copy failed with {e:?}"),
        }
    }

    // ------------------------------------------------------------------------------------------ server
    fn server_receive(&mut self, s: Sid) -> Result<bool, Failure> {
        let exp = self.m.server_receive_expect(s);
        if self.hazard(exp.hazard.clone()) {
            return Ok(false);
        }
        let r = self.servers[s].as_ref().unwrap().receive();
        match r {
            Ok(Some(ar)) => {
                let p: Req = *ar.payload();
                check!(self, p.intact(), "ar.payload", "server {s} received a request with a damaged payload {p:?}");
                let Some(rid) = self.m.find_req(p.client, p.seq) else {
                    bail!(self, "server.receive.unknown", "server {s} received request {:?} that was never sent", (p.client, p.seq));
                };
                let cand = exp.candidates.iter().find(|(_, _, r)| *r == rid).copied();
                let Some((c, i, _)) = cand else {
                    let why = if self.m.servers[s].received.contains(&rid) {
                        "it was received by this server before"
                    } else if self.m.servers[s].inbox.get(&(p.client as usize)).map(|q| q.iter().any(|e| e.req == rid)).unwrap_or(false) {
                        "an older request of that client must come first / it must be discarded / the server holds the maximum of active requests of that client"
                    } else {
                        "it is not queued at this server"
                    };
                    bail!(self, "server.receive.unexpected", "server {s} received request {:?}: {why}; acceptable {:?}", (p.client, p.seq), exp.candidates.iter().map(|(_, _, r)| self.tag(*r)).collect::<Vec<_>>());
                };
                check!(self, ar.origin().value() == self.client_ids[c], "ar.origin", "ActiveRequest::origin() is not the id of client {c}");
                let hid = request_id_of(ar.header());
                check!(self, hid == Some(self.m.reqs[rid].request_id), "ar.header", "request id in the header of the active request is {hid:?}, sent with {}", self.m.reqs[rid].request_id);
                if self.m.held(s, c) + 1 >= self.m.cfg.a && self.m.alive_client_ports() >= 1 {
                    self.m.ev.saturated_success += 1;
                }
                let a = self.m.server_receive_some_apply(s, c, i);
                debug_assert_eq!(a, self.ars.len());
                let conn = ar.is_connected();
                let econn = self.m.ar_is_connected_expect(a);
                self.ars.push(Some(ar));
                check!(self, conn == econn, "ar.is_connected", "fresh active request {:?} at server {s}: is_connected() = {conn}, expected {econn}", (p.client, p.seq));
                Ok(true)
            }
            Ok(None) => {
                check!(self, exp.none != Tri::No, "server.receive.missing", "server {s}: receive() = None, expected {}", self.describe_server_exp(&exp));
                if exp.none == Tri::Either {
                    self.m.ev.either_taken += 1;
                }
                self.m.server_receive_nothing_apply(s);
                Ok(true)
            }
            Err(ReceiveError::ExceedsMaxBorrows) => {
                check!(self, exp.err != Tri::No, "server.receive", "server {s}: receive() failed with ExceedsMaxBorrows, expected {}", self.describe_server_exp(&exp));
                if exp.err == Tri::Either {
                    self.m.ev.either_taken += 1;
                }
                self.m.note_limit_error("server_receive");
                self.m.server_receive_nothing_apply(s);
                Ok(true)
            }
            Err(e) => bail!(self, "server.receive", "server {s}: receive() failed with {e:?}"),
        }
    }

    fn describe_server_exp(&self, exp: &ServerRecvExpect) -> String {
        if !exp.candidates.is_empty() {
            format!("one of the requests {:?}", exp.candidates.iter().map(|(_, _, r)| self.tag(*r)).collect::<Vec<_>>())
        } else if exp.err == Tri::Yes {
            "ExceedsMaxBorrows".into()
        } else {
            "None".into()
        }
    }

    // ------------------------------------------------------------------------------------------ responses
    fn send_response(&mut self, a: usize) -> Result<bool, Failure> {
        let (loan_err, hz) = self.m.loan_response_expect(a);
        if self.hazard(hz) {
            return Ok(false);
        }
        if loan_err == Tri::Either {
            // R7: cannot know whether a response is produced; this op is only meaningful as a loan attempt
            return self.loan_response(a).map(|r| r.is_some());
        }
        let loan_err = (loan_err == Tri::Yes).then_some("ExceedsMaxLoans");
        let (d, hz) = if loan_err.is_none() { self.m.response_delivery(a) } else { (Delivery::Nowhere, None) };
        if self.hazard(hz) {
            return Ok(false);
        }
        let (rid, s) = (self.m.ars[a].req, self.m.ars[a].server);
        let (c, seq) = self.tag(rid);
        let k = if loan_err.is_none() { self.m.next_k(a) } else { 0 };
        let r = self.ars[a].as_ref().unwrap().send_copy(Resp::new(s as u32, c as u32, seq, k));
        match r {
            Ok(()) => {
                check!(self, loan_err.is_none(), "server.loan.limit", "active request {:?} at server {s}: send_copy succeeded with all {} response loans out", (c, seq), self.m.cfg.ls);
                self.m.note_success("loan_response");
                self.m.response_send_apply(a, k, None, &d);
                Ok(true)
            }
            Err(SendError::LoanError(LoanError::ExceedsMaxLoans)) => {
                check!(self, loan_err.is_some(), "server.loan", "active request {:?} at server {s}: send_copy failed with ExceedsMaxLoans with {} of {} loans out", (c, seq), self.m.loans_of_ar(a), self.m.cfg.ls);
                self.m.note_limit_error("loan_response");
                Ok(true)
            }
            Err(SendError::LoanError(LoanError::OutOfMemory)) => {
                let (lo, hi) = self.m.server_usage(s);
                bail!(self, "server.loan.out_of_memory", "server {s}: send_copy failed with OutOfMemory inside the limits ({lo}..{hi} of {} chunks referenced)", self.m.cfg.server_pool())
            }
            Err(e) => bail!(self, "server.send", "active request {:?} at server {s}: send_copy failed with {e:?}", (c, seq)),
        }
    }

    fn loan_response(&mut self, a: usize) -> Result<Option<usize>, Failure> {
        let (exp_err, hz) = self.m.loan_response_expect(a);
        if self.hazard(hz) {
            return Ok(None);
        }
        let (rid, s) = (self.m.ars[a].req, self.m.ars[a].server);
        let (c, seq) = self.tag(rid);
        let r = self.ars[a].as_ref().unwrap().loan_uninit();
        match r {
            Ok(loan) => {
                check!(self, exp_err != Tri::Yes, "server.loan.limit", "active request {:?} at server {s}: loaned a response beyond max_loaned_responses_per_request = {}", (c, seq), self.m.cfg.ls);
                let k = self.m.next_k(a);
                let loan = loan.write_payload(Resp::new(s as u32, c as u32, seq, k));
                let addr = loan.payload() as *const Resp as usize;
                check!(self, loan.header().server_id().value() == self.server_ids[s], "server.loan.header", "response header names server {:?}", loan.header().server_id());
                self.address_check_response(s, addr)?;
                if self.m.loans_of_ar(a) + 1 >= self.m.cfg.ls && self.m.held(s, c) >= self.m.cfg.a {
                    self.m.ev.saturated_success += 1;
                }
                let l = self.m.loan_response_apply(a, k, addr);
                debug_assert_eq!(l, self.resp_loans.len());
                self.resp_loans.push(Some(loan));
                Ok(Some(l))
            }
            Err(LoanError::ExceedsMaxLoans) => {
                check!(self, exp_err != Tri::No, "server.loan", "active request {:?} at server {s}: loan failed with ExceedsMaxLoans with {} of {} loans out", (c, seq), self.m.loans_of_ar(a), self.m.cfg.ls);
                if exp_err == Tri::Either {
                    // refused by the server-wide cap inside `allocate`, after the per-request counter was incremented
                    self.m.ars[a].lost_loan_slots += 1;
                    self.m.ev.either_taken += 1;
                }
                self.m.note_limit_error("loan_response");
                Ok(Some(usize::MAX))
            }
            Err(LoanError::OutOfMemory) => {
                let (lo, hi) = self.m.server_usage(s);
                bail!(self, "server.loan.out_of_memory", "server {s}: response loan failed with OutOfMemory inside the limits ({lo}..{hi} of {} chunks referenced)", self.m.cfg.server_pool())
            }
            Err(e) => bail!(self, "server.loan", "active request {:?} at server {s}: loan failed with {e:?}", (c, seq)),
        }
    }

    fn send_resp_loan(&mut self, l: usize) -> Result<bool, Failure> {
        let (a, k, addr) = {
            let x = &self.m.resp_loans[l];
            (x.ar, x.k, x.addr)
        };
        // the active request of the loan may be gone already; delivery then follows the same rules
        let (d, hz) = self.m.response_delivery(a);
        if self.hazard(hz) {
            return Ok(false);
        }
        let loan = self.resp_loans[l].take().unwrap();
        let s = self.m.ars[a].server;
        let r = loan.send();
        self.m.resp_loans[l].alive = false;
        match r {
            Ok(()) => {
                self.m.response_send_apply(a, k, Some(addr), &d);
                self.m.drop_resp_loan_apply(l);
                Ok(true)
            }
            Err(e) => bail!(self, "server.send", "server {s}: ResponseMut::send failed with {e:?}"),
        }
    }

    // ------------------------------------------------------------------------------------------ client receive
    fn pr_receive(&mut self, rid: Rid) -> Result<bool, Failure> {
        let exp = self.m.pr_receive_expect(rid);
        if self.hazard(exp.hazard.clone()) {
            return Ok(false);
        }
        let (c, seq) = self.tag(rid);
        let r = self.pendings[rid].as_ref().unwrap().receive();
        match r {
            Ok(Some(resp)) => {
                let p: Resp = *resp.payload();
                check!(self, p.intact(), "response.payload", "pending response of {:?} received a damaged payload {p:?}", (c, seq));
                if p.client as usize != c || p.seq != seq {
                    let orphan = self.m.ars.iter().any(|a| a.server == p.server as usize && self.m.reqs[a.req].client == p.client as usize && self.m.reqs[a.req].seq == p.seq && self.m.clients[self.m.reqs[a.req].client].dead);
                    let sig = if orphan && p.client as usize != c { F_CROSS } else { "pr.receive.foreign_response" };
                    bail!(self, sig, "pending response of request {:?} received response k={} of server {} that answers request {:?}", (c, seq), p.k, p.server, (p.client, p.seq));
                }
                let s = p.server as usize;
                check!(self, s < self.server_ids.len() && resp.origin().value() == self.server_ids[s], "response.origin", "Response::origin() does not name server {s} that wrote the payload");
                let hid = request_id_of(resp.header());
                check!(self, hid == Some(self.m.reqs[rid].request_id), "response.header", "request id in the response header is {hid:?}, the request was sent with {}", self.m.reqs[rid].request_id);
                if !exp.some.contains(&(s, p.k)) {
                    let queued: Vec<u32> = self.m.conns.get(&(c, s)).and_then(|x| x.chans.get(&self.m.reqs[rid].channel)).map(|q| q.iter().filter(|e| e.req == rid).map(|e| e.k).collect()).unwrap_or_default();
                    let sig = if self.m.resps.iter().any(|x| x.req == rid && x.server == s && x.k == p.k) {
                        "pr.receive.duplicate"
                    } else if queued.contains(&p.k) {
                        "pr.receive.order"
                    } else if exp.some.is_empty() && exp.err != Tri::No {
                        "pr.receive.borrow_limit"
                    } else {
                        "pr.receive.unexpected"
                    };
                    bail!(self, sig, "pending response of request {:?} received response k={} of server {s}; acceptable (server, k): {:?}, err {:?}; queued of that stream: {queued:?}", (c, seq), p.k, exp.some, exp.err);
                }
                if self.m.resps.iter().filter(|x| x.alive && x.req == rid).count() + 1 >= self.m.cfg.w && self.m.active_of_client(c) >= self.m.cfg.a {
                    self.m.ev.saturated_success += 1;
                }
                let x = self.m.pr_receive_some_apply(rid, s, p.k);
                debug_assert_eq!(x, self.resps.len());
                self.resps.push(Some(resp));
                Ok(true)
            }
            Ok(None) => {
                check!(self, exp.none != Tri::No, "pr.receive.missing", "pending response of request {:?}: receive() = None, expected one of (server, k) {:?} / err {:?}; streams {:?}", (c, seq), exp.some, exp.err, self.m.reqs[rid].streams);
                if exp.none == Tri::Either {
                    self.m.ev.either_taken += 1;
                }
                self.m.pr_receive_nothing_apply(rid);
                Ok(true)
            }
            Err(ReceiveError::ExceedsMaxBorrows) => {
                check!(self, exp.err != Tri::No, "pr.receive", "pending response of request {:?}: receive() failed with ExceedsMaxBorrows while it borrows {} of {} responses; acceptable (server, k): {:?}", (c, seq), self.m.resps.iter().filter(|x| x.alive && x.req == rid).count(), self.m.cfg.w, exp.some);
                if exp.err == Tri::Either {
                    self.m.ev.either_taken += 1;
                }
                self.m.note_limit_error("pr_receive");
                if exp.some.is_empty() {
                    self.m.pr_receive_nothing_apply(rid);
                } else {
                    self.m.client_refresh(c);
                }
                Ok(true)
            }
            Err(e) => bail!(self, "pr.receive", "pending response of request {:?}: receive() failed with {e:?}", (c, seq)),
        }
    }

    // ------------------------------------------------------------------------------------------ probes
    /// loan-to-exhaustion of one client: exactly `max_loaned_requests - loans out` succeed
    fn probe_client(&mut self, c: Cid) -> Result<bool, Failure> {
        let mut mine = vec![];
        let want = self.m.cfg.lr.saturating_sub(self.m.loans_of_client(c));
        for _ in 0..=want {
            match self.loan_request(c)? {
                None => break, // left out (open finding)
                Some(usize::MAX) => break,
                Some(l) => mine.push(l),
            }
        }
        let out_of_limit = self.m.loans_of_client(c) >= self.m.cfg.lr;
        for l in mine.iter().rev() {
            self.req_loans[*l] = None;
            self.m.drop_req_loan_apply(*l);
        }
        let _ = out_of_limit;
        Ok(true)
    }

    fn probe_active(&mut self, a: usize) -> Result<bool, Failure> {
        let mut mine = vec![];
        let want = self.m.cfg.ls.saturating_sub(self.m.loans_of_ar(a));
        for _ in 0..=want {
            match self.loan_response(a)? {
                None => break,
                Some(usize::MAX) => break,
                Some(l) => mine.push(l),
            }
        }
        for l in mine.iter().rev() {
            self.resp_loans[*l] = None;
            self.m.drop_resp_loan_apply(*l);
        }
        Ok(true)
    }

    /// C08 (3): a refused call must not have changed anything the API shows
    fn recheck(&mut self, op: &Op) -> Result<(), Failure> {
        for r in self.m.live_pendings() {
            let (exp, hz) = self.m.pr_is_connected_expect(r);
            let blocked = hz.as_ref().map(|h| self.open.has(h.sig)).unwrap_or(false);
            if !blocked && hz.is_none() {
                let got = self.pendings[r].as_ref().unwrap().is_connected();
                check!(self, exp.admits(got), "limit.side_effect", "after the refused {op:?}: PendingResponse::is_connected() of request {:?} = {got}, expected {exp:?}", self.tag(r));
            }
            let (exp, hz) = self.m.has_response_expect(r);
            if hz.is_none() {
                let got = self.pendings[r].as_ref().unwrap().has_response();
                check!(self, got == exp, "limit.side_effect", "after the refused {op:?}: PendingResponse::has_response() of request {:?} = {got}, expected {exp}", self.tag(r));
            }
        }
        for a in self.m.live_ars() {
            let exp = self.m.ar_is_connected_expect(a);
            let got = self.ars[a].as_ref().unwrap().is_connected();
            check!(self, got == exp, "limit.side_effect", "after the refused {op:?}: ActiveRequest::is_connected() of request {:?} = {got}, expected {exp}", self.tag(self.m.ars[a].req));
        }
        Ok(())
    }

    // ------------------------------------------------------------------------------------------ invariants
    fn invariants(&mut self, op: &Op) -> Result<(), Failure> {
        if self.opts.canary {
            for r in self.m.live_pendings() {
                let (c, seq) = self.tag(r);
                let got = *self.pendings[r].as_ref().unwrap().payload();
                check!(self, got == Req::new(c as u32, seq), "canary.pending", "after {op:?}: request payload seen through the pending response of {:?} changed to {got:?}", (c, seq));
            }
            for a in self.m.live_ars() {
                let (c, seq) = self.tag(self.m.ars[a].req);
                let got = *self.ars[a].as_ref().unwrap().payload();
                check!(self, got == Req::new(c as u32, seq), "canary.active_request", "after {op:?}: payload of the active request {:?} held by server {} changed to {got:?}", (c, seq), self.m.ars[a].server);
            }
            for x in self.m.live_resps() {
                let (rid, s, k) = (self.m.resps[x].req, self.m.resps[x].server, self.m.resps[x].k);
                let (c, seq) = self.tag(rid);
                let got = *self.resps[x].as_ref().unwrap().payload();
                check!(self, got == Resp::new(s as u32, c as u32, seq, k), "canary.response", "after {op:?}: payload of the held response k={k} of server {s} for request {:?} changed to {got:?}", (c, seq));
            }
            for l in self.m.live_req_loans() {
                let (c, seq) = (self.m.req_loans[l].client, self.m.req_loans[l].seq);
                let got = *self.req_loans[l].as_ref().unwrap().payload();
                check!(self, got == Req::new(c as u32, seq), "canary.request_loan", "after {op:?}: payload of the unsent request loan {:?} changed to {got:?}", (c, seq));
            }
            for l in self.m.live_resp_loans() {
                let a = self.m.resp_loans[l].ar;
                let (c, seq) = self.tag(self.m.ars[a].req);
                let (s, k) = (self.m.ars[a].server, self.m.resp_loans[l].k);
                let got = *self.resp_loans[l].as_ref().unwrap().payload();
                check!(self, got == Resp::new(s as u32, c as u32, seq, k), "canary.response_loan", "after {op:?}: payload of the unsent response loan k={k} of server {s} changed to {got:?}");
            }
        }
        if self.opts.check_log && logcap::installed() {
            let lines = logcap::drain();
            if let Some(l) = lines.iter().find(|l| logcap::is_alarm(l)) {
                bail!(self, "log.should_never_happen", "after {op:?}: iceoryx2 logged: {l}");
            }
        }
        Ok(())
    }

    // ------------------------------------------------------------------------------------------ end of case
    /// Fills the observation record; returns the C11 non-triviality verdict.
    pub fn observe(&self, obs: &mut Obs) -> bool {
        let e = &self.m.ev;
        let mut c = |cond: bool, name: &'static str| {
            if cond {
                obs.class(name);
            }
        };
        c(e.recycled > 0, "channel_recycled");
        c(e.recycled_with_queued > 0, "channel_recycled_with_response_queued");
        c(e.overlapped > 0, "requests_overlapped");
        c(e.late_response > 0, "response_after_pending_dropped");
        c(e.stale_filtered > 0, "stale_response_filtered");
        c(e.resp_overflow_evictions > 0, "response_overflow_eviction");
        c(e.resp_discarded_full > 0, "response_discarded_buffer_full");
        c(e.req_evicted > 0, "request_overflow_eviction");
        c(e.req_discarded_full > 0, "request_discarded_buffer_full");
        c(e.ghosts_discarded > 0, "request_without_pending_discarded");
        c(e.faf_delivered > 0, "fire_and_forget_request_delivered");
        c(e.responses_received > 0, "response_received");
        c(e.responses_from_dead_server > 0, "response_from_vanished_server");
        c(e.two_servers_answered > 0, "two_servers_answered_one_request");
        c(e.zombie_ports > 0, "port_dropped_with_live_objects");
        c(e.uncertain_marked > 0, "relaxation_R5_uncertain");
        c(e.either_taken > 0, "relaxation_either_outcome");
        c(!e.limit_errors.is_empty(), "limit_error_provoked");
        c(!e.limit_lifted.is_empty(), "limit_error_lifted");
        c(e.saturated_success > 0, "success_while_saturated");
        c(self.m.clients.len() >= 2, "two_clients");
        c(self.m.servers.len() >= 2, "two_servers");
        c(self.reuse_while_held > 0, "chunk_reused_while_older_held");
        c(self.stopped, "stopped_ambiguous");
        c(!self.excluded.is_empty(), "op_left_out_known_finding");
        for k in e.limit_errors.keys() {
            obs.class(match *k {
                "loan_request" => "limit.ExceedsMaxLoans.request",
                "send_request" => "limit.ExceedsMaxActiveRequests",
                "server_receive" => "limit.ExceedsMaxBorrows.server",
                "loan_response" => "limit.ExceedsMaxLoans.response",
                "pr_receive" => "limit.ExceedsMaxBorrows.response",
                "create_client" => "limit.ExceedsMaxSupportedClients",
                "create_server" => "limit.ExceedsMaxSupportedServers",
                _ => "limit.other",
            });
        }
        e.recycled_with_queued > 0 || e.overlapped > 0
    }

    /// Drops everything that is still alive in the given order, then service and node, and checks
    /// that nothing is left behind.
    pub fn finish(mut self, t: Teardown) -> Result<(), Failure> {
        let r = self.teardown(t);
        let taint = self.taint.clone();
        self.svc = None;
        self.node = None;
        let left = self.dom.leftovers();
        self.dom.cleanup();
        r?;
        if !left.is_empty() {
            let f = Failure::new("leftovers", format!("after dropping every object: {left:?}"));
            return Err(match taint {
                Some(h) => Failure::new(h.sig, format!("{} [predicted deviation: {}]", f.message, h.why)),
                None => f,
            });
        }
        Ok(())
    }

    fn teardown(&mut self, t: Teardown) -> Result<(), Failure> {
        let last = Op::DropActive(0);
        let objects = |it: &mut Self| -> Result<(), Failure> {
            for x in it.m.live_resps() {
                it.resps[x] = None;
                it.m.drop_response_apply(x);
            }
            for l in it.m.live_resp_loans() {
                it.resp_loans[l] = None;
                it.m.drop_resp_loan_apply(l);
            }
            for l in it.m.live_req_loans() {
                it.req_loans[l] = None;
                it.m.drop_req_loan_apply(l);
            }
            for r in it.m.live_pendings() {
                it.pendings[r] = None;
                it.m.drop_pending_apply(r);
            }
            it.invariants(&Op::DropPending(0))?;
            for a in it.m.live_ars() {
                it.ars[a] = None;
                it.m.drop_active_apply(a);
            }
            Ok(())
        };
        let ports = |it: &mut Self| {
            for s in it.m.live_servers() {
                it.servers[s] = None;
                it.m.drop_server_apply(s);
            }
            for c in it.m.live_clients() {
                it.clients[c] = None;
                it.m.drop_client_apply(c);
            }
        };
        match t {
            Teardown::ObjectsFirst => {
                objects(self)?;
                ports(self);
            }
            Teardown::PortsFirst => {
                ports(self);
                self.invariants(&last)?;
                objects(self)?;
            }
            Teardown::ServerSideFirst => {
                for l in self.m.live_resp_loans() {
                    self.resp_loans[l] = None;
                    self.m.drop_resp_loan_apply(l);
                }
                for a in self.m.live_ars() {
                    self.ars[a] = None;
                    self.m.drop_active_apply(a);
                }
                for s in self.m.live_servers() {
                    self.servers[s] = None;
                    self.m.drop_server_apply(s);
                }
                self.invariants(&last)?;
                objects(self)?;
                ports(self);
            }
        }
        if self.opts.check_log && logcap::installed() {
            let lines = logcap::drain();
            if let Some(l) = lines.iter().find(|l| logcap::is_alarm(l)) {
                bail!(self, "log.should_never_happen", "during teardown iceoryx2 logged: {l}");
            }
        }
        Ok(())
    }

    /// after a failure: drop everything without further checks
    pub fn abort(mut self) {
        self.resps.clear();
        self.resp_loans.clear();
        self.req_loans.clear();
        self.pendings.clear();
        self.ars.clear();
        self.clients.clear();
        self.servers.clear();
        self.svc = None;
        self.node = None;
        self.dom.cleanup();
        if self.opts.check_log && logcap::installed() {
            let _ = logcap::drain();
        }
    }
}
