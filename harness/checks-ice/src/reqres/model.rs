//! Reference model of the request-response pattern.
//!
//! The state is *physical*: per server the request queue of every client connection (including
//! requests whose pending response is already gone), per (client, server) response connection the
//! content of every channel (including responses of earlier requests that used the channel).
//! Expectations are *documented semantics* derived from that state by ignoring what the
//! documentation says cannot matter (stale channel content, responses sent after the pending
//! response was dropped, connections of servers that are gone). Where the two differ the model
//! reports a `Hazard` carrying the signature of the corresponding known finding; the interpreter
//! then either leaves the op out (finding open) or executes it and insists on the documented
//! outcome.
//!
//! Documented semantics used (rustdoc / conformance tests in brackets):
//!  * a request is delivered to every server whose port exists when it is sent
//!    [`requests_are_not_delivered_to_late_joiners`, `receiving_requests_works_with_*_created_first`];
//!    the request buffer per client has `max_active_requests_per_client` slots, overflow evicts the
//!    oldest, without overflow + `DiscardData` the new request is not delivered to that server
//!    [`safe_overflow_for_requests_works`, `backpressure_strategy_discard_discards_request`]; the
//!    number of recipients is `PendingResponse::number_of_server_connections`;
//!  * `Server::receive` yields the requests of one client in send order; without fire-and-forget a
//!    request whose pending response is gone (or whose client is gone) is discarded, with
//!    fire-and-forget it is delivered with `is_connected() == false`
//!    [`sent_requests_from_out_of_scope_pending_responses_*`, `sent_requests_from_disconnected_clients_*`];
//!    a server holds at most `max_active_requests_per_client` active requests per client
//!    (`ReceiveError::ExceedsMaxBorrows`);
//!  * every (request, server) pair is its own response stream with `max_response_buffer_size`
//!    slots [`client_can_receive_max_amount_of_responses_from_max_servers`, config rustdoc], overflow
//!    keeps the newest, otherwise the new response is discarded and `send` still returns `Ok`
//!    [`response_buffer_size_with_*_works`, `backpressure_strategy_discard_discards_responses_*`];
//!  * responses sent before the server vanished stay receivable
//!    [`sent_responses_from_disconnected_servers_can_be_received`]; responses sent after the pending
//!    response was dropped are not received by anybody [config rustdoc of fire-and-forget];
//!    responses of earlier requests are filtered out [`responses_from_previous_requests_are_filtered_out`];
//!  * `ActiveRequest::is_connected` == the pending response still exists (also after the `Client`
//!    object is gone) [`is_connected_until_pending_response_is_dropped*`,
//!    `keeps_being_connected_when_client_goes_out_of_scope`]; `PendingResponse::is_connected` is true
//!    while a server still has the request queued or holds its active request, false once all are
//!    dropped / when there was no server [`is_connected_until_every_active_request_is_dropped`,
//!    `is_not_connected_when_there_are_no_servers`].
//!
//! Relaxations (accepted, see `Tri::Either` and the `*_expect` functions):
//!  R1 the order in which `Server::receive` / `PendingResponse::receive` serve several connections is
//!     unspecified: any connection that has something deliverable may be served;
//!  R2 the borrow limit of responses is enforced per (pending response, server) stream, the rustdoc
//!     says "per pending response": between the two limits both outcomes are accepted;
//!  R3 `PendingResponse::is_connected` is unspecified (either value) when a server never got the
//!     request into its hands (evicted by overflow, discarded because the buffer was full, server
//!     gone before receiving);
//!  R4 a port whose object was dropped while pending responses / active requests / loans of it are
//!     alive still occupies its slot: creating one more port then may or may not fail;
//!  R5 entries that `receive` discards silently (requests without pending response, stale
//!     responses) are discarded only in the connections it visits before it finds something to
//!     return; the model marks such entries of other connections "uncertain" and accepts both
//!     capacity outcomes that depend on them;
//!  R6 `ExceedsMaxBorrows` vs `None` is accepted both ways when the only blocked data lives in the
//!     connection of a server that is gone / belongs to a client that is gone and whose active
//!     requests the server still holds;
//!  R7 a `ResponseMut` that outlives its `ActiveRequest` keeps counting against the server-wide loan
//!     cap (loans per request x active requests per client x clients): a loan refused with
//!     `ExceedsMaxLoans` because of that cap is accepted;
//!  R8 (lazy connections) a server that never refreshed its connections (receive / has_requests /
//!     response send) since a client was created has no connection to it: requests of that client
//!     are lost to this server when the client vanishes. The conformance tests about vanished clients
//!     call `receive()` once before the client sends for exactly this reason.
//!
//! Known findings (hazards): see the `F_*` constants; every one has a fixed scenario in
//! `policy::probe_*` and a line in /verif/known_findings.jsonl.

use std::collections::{BTreeMap, BTreeSet, VecDeque};

pub type Cid = usize;
pub type Sid = usize;
pub type Rid = usize;

pub const F_RECYCLED: &str = "rr.recycled_channel_not_clean";
pub const F_CROSS: &str = "rr.cross_client_delivery_after_slot_reuse";
pub const F_EXPIRED: &str = "rr.expired_connection_dropped_with_undelivered_responses";
pub const F_CLIENT_OOM: &str = "rr.client_loan_out_of_memory_within_limits";
pub const F_SERVER_OOM: &str = "rr.server_loan_out_of_memory_within_limits";
pub const F_LEAKED_BORROW: &str = "rr.server_leaks_borrow_of_vanished_client_request";
pub const F_CONNECTED_EXPIRED: &str = "rr.pending_is_connected_through_expired_connection";
pub const F_LOAN_SLOT: &str = "rr.failed_response_loan_consumes_loan_slot";
pub const ALL_FINDINGS: [&str; 8] = [F_RECYCLED, F_CROSS, F_EXPIRED, F_CLIENT_OOM, F_SERVER_OOM, F_LEAKED_BORROW, F_CONNECTED_EXPIRED, F_LOAN_SLOT];

#[derive(Clone, Debug)]
pub struct Hazard {
    pub sig: &'static str,
    pub why: String,
}

/// effective (clamped) configuration
#[derive(Clone, Debug, PartialEq, Eq)]
pub struct Eff {
    pub max_clients: usize,
    pub max_servers: usize,
    pub a: usize,
    pub b: usize,
    pub w: usize,
    pub req_overflow: bool,
    pub resp_overflow: bool,
    pub faf: bool,
    pub lr: usize,
    pub ls: usize,
}

impl Eff {
    /// chunks of a client's data segment == number of response channels
    /// (`required_amount_of_chunks_per_client_data_segment`)
    pub fn client_pool(&self) -> usize {
        self.max_servers * 2 * self.a + self.lr
    }
    /// `required_amount_of_chunks_per_server_data_segment`
    pub fn server_pool(&self) -> usize {
        self.max_clients * 2 * self.a * (self.b + self.w + self.ls)
    }
}

#[derive(Clone, Copy, Debug, PartialEq, Eq)]
pub enum Tri {
    Yes,
    No,
    Either,
}

impl Tri {
    pub fn admits(self, v: bool) -> bool {
        match self {
            Tri::Yes => v,
            Tri::No => !v,
            Tri::Either => true,
        }
    }
}

#[derive(Clone, Debug)]
pub struct MClient {
    pub handle: bool,
    pub dead: bool,
    pub next_seq: u32,
    /// request chunks that sat in the queue of a server that vanished; given back at the next
    /// connection refresh of the client
    pub unreclaimed: BTreeSet<Rid>,
    pub addrs_seen: BTreeSet<usize>,
}

#[derive(Clone, Debug)]
pub struct InEntry {
    pub req: Rid,
    /// may already have been discarded silently (R5)
    pub uncertain: bool,
}

#[derive(Clone, Debug)]
pub struct MServer {
    pub handle: bool,
    pub dead: bool,
    pub inbox: BTreeMap<Cid, VecDeque<InEntry>>,
    pub received: BTreeSet<Rid>,
    /// clients this server has established its connections to (at creation and whenever it
    /// refreshes: receive, has_requests, response send)
    pub knows: BTreeSet<Cid>,
    /// without fire-and-forget: requests of a vanished client that `receive` took out of the
    /// expired connection and threw away without releasing them (they keep counting as borrowed)
    pub leaked: BTreeMap<Cid, usize>,
    /// response chunks still accounted to connections of clients that vanished
    pub unreclaimed: usize,
    pub addrs_seen: BTreeSet<usize>,
}

#[derive(Clone, Copy, Debug, PartialEq, Eq)]
pub enum St {
    InInbox,
    Active,
    Done,
    /// never reached / never will reach the hands of that server
    Lost,
}

#[derive(Clone, Debug)]
pub struct MReq {
    pub client: Cid,
    pub seq: u32,
    pub channel: u64,
    pub request_id: u64,
    pub pending: bool,
    pub limbo: bool,
    /// when it was sent the client still kept the (expired) connection of a vanished server
    pub opened_on_expired: bool,
    pub streams: BTreeMap<Sid, St>,
    /// address of the payload in the client's mapping
    pub addr: Option<usize>,
}

#[derive(Clone, Debug)]
pub struct MReqLoan {
    pub client: Cid,
    pub seq: u32,
    pub channel: u64,
    pub request_id: u64,
    pub alive: bool,
    pub addr: usize,
}

#[derive(Clone, Debug)]
pub struct MAr {
    pub req: Rid,
    pub server: Sid,
    pub alive: bool,
    /// the server knew a connection to the client when it received the request
    pub conn_valid: bool,
    pub next_k: u32,
    /// response loans that failed inside `allocate` after the per-request counter was incremented
    pub lost_loan_slots: usize,
}

#[derive(Clone, Debug)]
pub struct MRespLoan {
    pub ar: usize,
    pub k: u32,
    pub alive: bool,
    pub addr: usize,
}

#[derive(Clone, Debug)]
pub struct MResp {
    pub req: Rid,
    pub server: Sid,
    pub k: u32,
    pub alive: bool,
    /// address in the server's mapping (known when the response was sent through a loan)
    pub addr: Option<usize>,
}

#[derive(Clone, Debug)]
pub struct PhysEntry {
    pub req: Rid,
    pub k: u32,
    pub uncertain: bool,
    pub addr: Option<usize>,
}

#[derive(Clone, Debug, Default)]
pub struct MConn {
    pub server_dead: bool,
    /// the client noticed that the server is gone and kept the connection (it held data or
    /// borrows at that moment); from then on only a receive that visits it removes it
    pub expired: bool,
    pub chans: BTreeMap<u64, VecDeque<PhysEntry>>,
}

#[derive(Clone, Debug, Default)]
pub struct Events {
    /// a channel id was taken by a new request while a response of an earlier request was queued in it
    pub recycled_with_queued: u64,
    pub recycled: u64,
    pub overlapped: u64,
    pub late_response: u64,
    pub stale_filtered: u64,
    pub resp_overflow_evictions: u64,
    pub resp_discarded_full: u64,
    pub req_evicted: u64,
    pub req_discarded_full: u64,
    pub ghosts_discarded: u64,
    pub faf_delivered: u64,
    pub responses_received: u64,
    pub responses_from_dead_server: u64,
    pub two_servers_answered: u64,
    pub limit_errors: BTreeMap<&'static str, u64>,
    pub limit_lifted: BTreeMap<&'static str, u64>,
    pub saturated_success: u64,
    pub uncertain_marked: u64,
    pub either_taken: u64,
    pub zombie_ports: u64,
}

#[derive(Clone, Debug)]
pub struct Model {
    pub cfg: Eff,
    pub clients: Vec<MClient>,
    pub servers: Vec<MServer>,
    pub reqs: Vec<MReq>,
    pub req_loans: Vec<MReqLoan>,
    pub ars: Vec<MAr>,
    pub resp_loans: Vec<MRespLoan>,
    pub resps: Vec<MResp>,
    pub conns: BTreeMap<(Cid, Sid), MConn>,
    pub ev: Events,
    /// last limit error per kind that was not yet followed by a success of the same kind
    pub pending_limit: BTreeSet<&'static str>,
}

/// what `PendingResponse::receive` may return
#[derive(Clone, Debug)]
pub struct PrExpect {
    /// acceptable responses (server, k): the first legitimate entry of every eligible stream
    pub some: Vec<(Sid, u32)>,
    pub err: Tri,
    pub none: Tri,
    pub hazard: Option<Hazard>,
}

/// what a response send does to the channel
#[derive(Clone, Debug, PartialEq, Eq)]
pub enum Delivery {
    /// no connection / nobody listens: nothing is queued
    Nowhere,
    /// discarded because the stream buffer is full (no overflow)
    Full,
    /// queued, `evict` = index of the entry that is pushed out
    Push { evict: Option<usize> },
}

#[derive(Clone, Debug)]
pub struct ServerRecvExpect {
    /// (client, index in its inbox, request)
    pub candidates: Vec<(Cid, usize, Rid)>,
    pub err: Tri,
    pub none: Tri,
    pub hazard: Option<Hazard>,
}

impl Model {
    pub fn new(cfg: Eff) -> Model {
        Model {
            cfg,
            clients: vec![],
            servers: vec![],
            reqs: vec![],
            req_loans: vec![],
            ars: vec![],
            resp_loans: vec![],
            resps: vec![],
            conns: BTreeMap::new(),
            ev: Events::default(),
            pending_limit: BTreeSet::new(),
        }
    }

    // ---------------------------------------------------------------- live object lists
    pub fn live_clients(&self) -> Vec<Cid> {
        (0..self.clients.len()).filter(|&c| self.clients[c].handle).collect()
    }
    pub fn live_servers(&self) -> Vec<Sid> {
        (0..self.servers.len()).filter(|&s| self.servers[s].handle).collect()
    }
    pub fn live_req_loans(&self) -> Vec<usize> {
        (0..self.req_loans.len()).filter(|&i| self.req_loans[i].alive).collect()
    }
    pub fn live_pendings(&self) -> Vec<Rid> {
        (0..self.reqs.len()).filter(|&r| self.reqs[r].pending).collect()
    }
    pub fn live_ars(&self) -> Vec<usize> {
        (0..self.ars.len()).filter(|&i| self.ars[i].alive).collect()
    }
    pub fn live_resp_loans(&self) -> Vec<usize> {
        (0..self.resp_loans.len()).filter(|&i| self.resp_loans[i].alive).collect()
    }
    pub fn live_resps(&self) -> Vec<usize> {
        (0..self.resps.len()).filter(|&i| self.resps[i].alive).collect()
    }

    // ---------------------------------------------------------------- counters
    pub fn loans_of_client(&self, c: Cid) -> usize {
        self.req_loans.iter().filter(|l| l.alive && l.client == c).count()
    }
    pub fn active_of_client(&self, c: Cid) -> usize {
        self.reqs.iter().filter(|r| r.pending && r.client == c).count()
    }
    fn client_refs(&self, c: Cid) -> usize {
        self.loans_of_client(c) + self.active_of_client(c) + self.resps.iter().filter(|x| x.alive && self.reqs[x.req].client == c).count()
    }
    fn server_refs(&self, s: Sid) -> usize {
        self.ars.iter().filter(|a| a.alive && a.server == s).count() + self.resp_loans.iter().filter(|l| l.alive && self.ars[l.ar].server == s).count()
    }
    pub fn loans_of_ar(&self, ar: usize) -> usize {
        self.resp_loans.iter().filter(|l| l.alive && l.ar == ar).count()
    }
    /// active requests a server holds from one client (borrow count of the request connection)
    pub fn held(&self, s: Sid, c: Cid) -> usize {
        self.ars.iter().filter(|a| a.alive && a.server == s && self.reqs[a.req].client == c).count()
    }
    /// responses of one (request, server) stream the client holds (documented borrow count)
    pub fn ideal_borrow(&self, r: Rid, s: Sid) -> usize {
        self.resps.iter().filter(|x| x.alive && x.req == r && x.server == s).count()
    }
    /// responses held out of one channel of one connection, whatever request they belonged to
    pub fn phys_borrow(&self, c: Cid, s: Sid, ch: u64) -> usize {
        self.resps.iter().filter(|x| x.alive && x.server == s && self.reqs[x.req].client == c && self.reqs[x.req].channel == ch).count()
    }
    fn conn_borrows(&self, c: Cid, s: Sid) -> usize {
        self.resps.iter().filter(|x| x.alive && x.server == s && self.reqs[x.req].client == c).count()
    }
    pub fn alive_client_ports(&self) -> usize {
        self.clients.iter().filter(|c| !c.dead).count()
    }
    pub fn alive_server_ports(&self) -> usize {
        self.servers.iter().filter(|s| !s.dead).count()
    }

    /// chunks of client `c`'s data segment in use: (certainly, at most)
    pub fn client_usage(&self, c: Cid) -> (usize, usize) {
        let mut lo: BTreeSet<Rid> = BTreeSet::new();
        let mut hi: BTreeSet<Rid> = BTreeSet::new();
        for (r, q) in self.reqs.iter().enumerate() {
            if q.client == c && q.pending {
                lo.insert(r);
            }
        }
        for a in self.ars.iter().filter(|a| a.alive && self.reqs[a.req].client == c) {
            lo.insert(a.req);
        }
        for s in self.servers.iter().filter(|s| !s.dead) {
            if let Some(q) = s.inbox.get(&c) {
                for e in q {
                    if e.uncertain {
                        hi.insert(e.req);
                    } else {
                        lo.insert(e.req);
                    }
                }
            }
        }
        hi.extend(self.clients[c].unreclaimed.iter().copied());
        hi.extend(lo.iter().copied());
        let loans = self.loans_of_client(c);
        (lo.len() + loans, hi.len() + loans)
    }

    /// chunks of server `s`'s data segment in use: (certainly, at most)
    pub fn server_usage(&self, s: Sid) -> (usize, usize) {
        let mut lo = 0;
        let mut hi = 0;
        for ((_, cs), conn) in &self.conns {
            if *cs != s {
                continue;
            }
            for q in conn.chans.values() {
                for e in q {
                    hi += 1;
                    if !e.uncertain {
                        lo += 1;
                    }
                }
            }
        }
        let held = self.resps.iter().filter(|x| x.alive && x.server == s).count();
        let loans = self.resp_loans.iter().filter(|l| l.alive && self.ars[l.ar].server == s).count();
        (lo + held + loans, hi + held + loans + self.servers[s].unreclaimed)
    }

    // ---------------------------------------------------------------- limit bookkeeping (C08 NT)
    pub fn note_limit_error(&mut self, kind: &'static str) {
        *self.ev.limit_errors.entry(kind).or_default() += 1;
        self.pending_limit.insert(kind);
    }
    pub fn note_success(&mut self, kind: &'static str) {
        if self.pending_limit.remove(kind) {
            *self.ev.limit_lifted.entry(kind).or_default() += 1;
        }
    }

    // ---------------------------------------------------------------- ports
    /// (may succeed?, hazard)
    pub fn create_client_expect(&self) -> (Tri, Option<Hazard>) {
        let ports = self.alive_client_ports();
        let handles = self.live_clients().len();
        let t = if ports < self.cfg.max_clients {
            Tri::Yes
        } else if handles >= self.cfg.max_clients {
            Tri::No
        } else {
            Tri::Either // R4
        };
        let hz = self
            .ars
            .iter()
            .enumerate()
            .find(|(i, a)| (a.alive || self.resp_loans.iter().any(|l| l.alive && l.ar == *i)) && a.conn_valid && self.clients[self.reqs[a.req].client].dead)
            .map(|(_, a)| Hazard {
                sig: F_CROSS,
                why: format!(
                    "server {} still holds an active request (or a response loan of one) of the vanished client {}; a new client may take over its connection slot",
                    a.server, self.reqs[a.req].client
                ),
            });
        (t, hz)
    }

    pub fn create_client_apply(&mut self) -> Cid {
        let c = self.clients.len();
        self.clients.push(MClient { handle: true, dead: false, next_seq: 0, unreclaimed: BTreeSet::new(), addrs_seen: BTreeSet::new() });
        for s in 0..self.servers.len() {
            if !self.servers[s].dead {
                self.conns.insert((c, s), MConn::default());
            }
        }
        c
    }

    pub fn create_server_expect(&self) -> Tri {
        let ports = self.alive_server_ports();
        let handles = self.live_servers().len();
        if ports < self.cfg.max_servers {
            Tri::Yes
        } else if handles >= self.cfg.max_servers {
            Tri::No
        } else {
            Tri::Either // R4
        }
    }

    pub fn create_server_apply(&mut self) -> Sid {
        let s = self.servers.len();
        self.servers.push(MServer { handle: true, dead: false, inbox: BTreeMap::new(), received: BTreeSet::new(), knows: (0..self.clients.len()).filter(|c| !self.clients[*c].dead).collect(), leaked: BTreeMap::new(), unreclaimed: 0, addrs_seen: BTreeSet::new() });
        s
    }

    pub fn drop_client_apply(&mut self, c: Cid) {
        self.clients[c].handle = false;
        if self.client_refs(c) > 0 {
            self.ev.zombie_ports += 1;
        }
        self.maybe_client_death(c);
    }

    pub fn drop_server_apply(&mut self, s: Sid) {
        self.servers[s].handle = false;
        if self.server_refs(s) > 0 {
            self.ev.zombie_ports += 1;
        }
        self.maybe_server_death(s);
    }

    fn maybe_client_death(&mut self, c: Cid) {
        if self.clients[c].dead || self.clients[c].handle || self.client_refs(c) > 0 {
            return;
        }
        self.clients[c].dead = true;
        // its response connections are gone; the servers reclaim what they had sent at their next refresh
        let keys: Vec<(Cid, Sid)> = self.conns.keys().filter(|k| k.0 == c).copied().collect();
        for k in keys {
            let conn = self.conns.remove(&k).unwrap();
            let n: usize = conn.chans.values().map(|q| q.len()).sum();
            if !self.servers[k.1].dead {
                self.servers[k.1].unreclaimed += n;
            }
        }
        // R8 (lazy connections): a server that never refreshed its connections since the client was
        // created has no connection to it; what the client had sent there is gone with the client
        for s in 0..self.servers.len() {
            if !self.servers[s].knows.contains(&c) {
                if let Some(q) = self.servers[s].inbox.remove(&c) {
                    for e in q {
                        self.reqs[e.req].streams.insert(s, St::Lost);
                    }
                }
            }
        }
        // without fire-and-forget the queued requests of a vanished client are never delivered; they
        // stay in the (expired) connection until a `receive` of that server throws them away
        if !self.cfg.faf {
            for s in 0..self.servers.len() {
                if let Some(q) = self.servers[s].inbox.get(&c) {
                    let lost: Vec<Rid> = q.iter().map(|e| e.req).collect();
                    for r in lost {
                        self.reqs[r].streams.insert(s, St::Lost);
                    }
                }
            }
        }
    }

    fn maybe_server_death(&mut self, s: Sid) {
        if self.servers[s].dead || self.servers[s].handle || self.server_refs(s) > 0 {
            return;
        }
        self.servers[s].dead = true;
        let inbox = std::mem::take(&mut self.servers[s].inbox);
        for (c, q) in inbox {
            for e in q {
                let r = &mut self.reqs[e.req];
                r.streams.insert(s, St::Lost);
                if r.pending {
                    r.limbo = true; // R3
                }
                if !self.clients[c].dead {
                    self.clients[c].unreclaimed.insert(e.req);
                }
            }
        }
        for (k, conn) in self.conns.iter_mut() {
            if k.1 == s {
                conn.server_dead = true;
            }
        }
    }

    /// what a client does whenever it refreshes its connections (send, receive)
    pub fn client_refresh(&mut self, c: Cid) {
        for s in 0..self.servers.len() {
            if !self.servers[s].dead && !self.conns.contains_key(&(c, s)) {
                self.conns.insert((c, s), MConn::default());
            }
        }
        let dead: Vec<(Cid, Sid)> = self.conns.iter().filter(|(k, v)| k.0 == c && v.server_dead && !v.expired).map(|(k, _)| *k).collect();
        for k in dead {
            if self.dead_conn_matters(k.0, k.1) {
                self.conns.get_mut(&k).unwrap().expired = true;
            } else {
                self.conns.remove(&k);
            }
        }
        self.clients[c].unreclaimed.clear();
    }

    /// the client keeps the (expired) connection to a vanished server while any of its channels
    /// holds data - whatever request it was for - or something of it is still borrowed
    fn dead_conn_matters(&self, c: Cid, s: Sid) -> bool {
        if self.conn_borrows(c, s) > 0 {
            return true;
        }
        let conn = &self.conns[&(c, s)];
        conn.chans.values().any(|q| !q.is_empty())
    }

    /// What a receive on channel `ch` does to the expired connections it visits: one whose channel
    /// `ch` is empty and of which nothing is borrowed is removed (the finding F_EXPIRED is that this
    /// ignores the other channels). `all_visited` = the receive went through all of them.
    fn drop_visited_expired(&mut self, c: Cid, ch: u64, all_visited: bool) {
        let dead: Vec<(Cid, Sid)> = self.conns.iter().filter(|(k, v)| k.0 == c && v.server_dead).map(|(k, _)| *k).collect();
        for k in dead {
            if self.conn_borrows(k.0, k.1) > 0 {
                continue;
            }
            let conn = &self.conns[&k];
            if conn.chans.get(&ch).map(|q| !q.is_empty()).unwrap_or(false) {
                continue;
            }
            // documented semantics: undelivered responses of live pending responses stay receivable
            let holds_legit = conn.chans.values().any(|q| q.iter().any(|e| self.reqs[e.req].pending));
            if holds_legit {
                continue;
            }
            if all_visited {
                self.conns.remove(&k);
            } else {
                // may or may not be gone: what it holds is stale anyway, mark it so
                for q in self.conns.get_mut(&k).unwrap().chans.values_mut() {
                    for e in q.iter_mut() {
                        e.uncertain = true;
                    }
                }
            }
        }
    }

    pub fn server_refresh(&mut self, s: Sid) {
        self.servers[s].unreclaimed = 0;
        let alive: Vec<Cid> = (0..self.clients.len()).filter(|c| !self.clients[*c].dead).collect();
        self.servers[s].knows.extend(alive);
    }

    // ---------------------------------------------------------------- requests
    /// `Err(kind)` if the loan must be refused; hazard if the pool may be exhausted inside the limits
    pub fn loan_request_expect(&self, c: Cid) -> (Option<&'static str>, Option<Hazard>) {
        if self.loans_of_client(c) >= self.cfg.lr {
            return (Some("ExceedsMaxLoans"), None);
        }
        let (lo, hi) = self.client_usage(c);
        let hz = (hi >= self.cfg.client_pool()).then(|| Hazard {
            sig: F_CLIENT_OOM,
            why: format!("client {c}: {lo}..{hi} of {} request chunks are referenced while only {} of {} loans are out", self.cfg.client_pool(), self.loans_of_client(c), self.cfg.lr),
        });
        (None, hz)
    }

    pub fn next_seq(&mut self, c: Cid) -> u32 {
        let s = self.clients[c].next_seq;
        self.clients[c].next_seq += 1;
        s
    }

    pub fn loan_request_apply(&mut self, c: Cid, seq: u32, channel: u64, request_id: u64, addr: usize) -> usize {
        self.req_loans.push(MReqLoan { client: c, seq, channel, request_id, alive: true, addr });
        self.note_success("loan_request");
        self.req_loans.len() - 1
    }

    /// channel ids in use by live loans and pending responses of a client
    pub fn channels_in_use(&self, c: Cid) -> Vec<u64> {
        let mut v: Vec<u64> = self.req_loans.iter().filter(|l| l.alive && l.client == c).map(|l| l.channel).collect();
        v.extend(self.reqs.iter().filter(|r| r.pending && r.client == c).map(|r| r.channel));
        v
    }

    pub fn drop_req_loan_apply(&mut self, l: usize) {
        self.req_loans[l].alive = false;
        let c = self.req_loans[l].client;
        self.maybe_client_death(c);
    }

    pub fn send_expect(&self, c: Cid) -> Option<&'static str> {
        (self.active_of_client(c) >= self.cfg.a).then_some("ExceedsMaxActiveRequests")
    }

    /// Registers a sent request and delivers it. Returns the request and (min, max, ambiguous servers)
    /// of the number of recipients.
    pub fn send_apply(&mut self, c: Cid, seq: u32, channel: u64, request_id: u64, addr: Option<usize>) -> (Rid, usize, Vec<Sid>) {
        self.client_refresh(c);
        let rid = self.reqs.len();
        // non-triviality: channel recycling
        let prev_user = self.reqs.iter().any(|r| r.client == c && r.channel == channel);
        if prev_user {
            self.ev.recycled += 1;
            let queued = self.conns.iter().any(|(k, v)| k.0 == c && v.chans.get(&channel).map(|q| q.iter().any(|e| !e.uncertain)).unwrap_or(false));
            if queued {
                self.ev.recycled_with_queued += 1;
            }
        }
        let opened_on_expired = self.conns.iter().any(|(k, v)| k.0 == c && v.server_dead);
        self.reqs.push(MReq { client: c, seq, channel, request_id, pending: true, limbo: false, opened_on_expired, streams: BTreeMap::new(), addr });
        if self.active_of_client(c) >= 2 {
            self.ev.overlapped += 1;
        }
        self.note_success("send_request");
        let mut base = 0;
        let mut ambiguous = vec![];
        for s in 0..self.servers.len() {
            if self.servers[s].dead {
                continue;
            }
            let a = self.cfg.a;
            let q = self.servers[s].inbox.entry(c).or_default();
            let unc = q.iter().filter(|e| e.uncertain).count();
            let cert = q.len() - unc;
            if self.cfg.req_overflow {
                if cert + unc >= a {
                    if unc > 0 {
                        // an uncertain ghost sits at the head: it is what gets pushed out (if it still exists)
                        let pos = q.iter().position(|e| e.uncertain).unwrap();
                        let e = q.remove(pos).unwrap();
                        self.reqs[e.req].streams.insert(s, St::Lost);
                    } else {
                        let e = q.pop_front().unwrap();
                        let r = &mut self.reqs[e.req];
                        r.streams.insert(s, St::Lost);
                        if r.pending {
                            r.limbo = true;
                        }
                        self.ev.req_evicted += 1;
                    }
                }
                self.servers[s].inbox.get_mut(&c).unwrap().push_back(InEntry { req: rid, uncertain: false });
                self.reqs[rid].streams.insert(s, St::InInbox);
                base += 1;
            } else if cert + unc < a {
                q.push_back(InEntry { req: rid, uncertain: false });
                self.reqs[rid].streams.insert(s, St::InInbox);
                base += 1;
            } else if cert >= a {
                self.reqs[rid].streams.insert(s, St::Lost);
                self.reqs[rid].limbo = true;
                self.ev.req_discarded_full += 1;
            } else {
                ambiguous.push(s);
            }
        }
        (rid, base, ambiguous)
    }

    /// resolves R5 for a request whose delivery to `s` depended on uncertain entries
    pub fn resolve_delivery(&mut self, rid: Rid, s: Sid, delivered: bool) {
        let c = self.reqs[rid].client;
        let q = self.servers[s].inbox.entry(c).or_default();
        if delivered {
            // the uncertain entries were gone
            let gone: Vec<Rid> = q.iter().filter(|e| e.uncertain).map(|e| e.req).collect();
            q.retain(|e| !e.uncertain);
            q.push_back(InEntry { req: rid, uncertain: false });
            for g in gone {
                self.reqs[g].streams.insert(s, St::Lost);
            }
            self.reqs[rid].streams.insert(s, St::InInbox);
        } else {
            for e in q.iter_mut() {
                e.uncertain = false;
            }
            self.reqs[rid].streams.insert(s, St::Lost);
            self.reqs[rid].limbo = true;
            self.ev.req_discarded_full += 1;
        }
    }

    pub fn drop_pending_apply(&mut self, rid: Rid) {
        self.reqs[rid].pending = false;
        let c = self.reqs[rid].client;
        self.maybe_client_death(c);
    }

    // ---------------------------------------------------------------- server receive
    fn deliverable(&self, e: &InEntry) -> bool {
        let r = &self.reqs[e.req];
        self.cfg.faf || (r.pending && !self.clients[r.client].dead)
    }

    fn leaked(&self, s: Sid, c: Cid) -> usize {
        self.servers[s].leaked.get(&c).copied().unwrap_or(0)
    }

    /// requests of a vanished client can never be delivered without fire-and-forget
    fn dead_nf(&self, c: Cid) -> bool {
        self.clients[c].dead && !self.cfg.faf
    }

    pub fn server_receive_expect(&self, s: Sid) -> ServerRecvExpect {
        let srv = &self.servers[s];
        let a = self.cfg.a;
        let mut candidates = vec![];
        let mut blocked_certain = false;
        let mut blocked_uncertain = false;
        let mut dead_blocked_by_held = false;
        let mut dead_blocked_by_leak = None;
        for (c, q) in &srv.inbox {
            if q.is_empty() {
                continue;
            }
            let held = self.held(s, *c);
            if self.dead_nf(*c) {
                // the expired connection is visited first: its requests are taken out and thrown
                // away until its borrow maximum is reached; what then remains counts as blocked data
                let room = a.saturating_sub(held + self.leaked(s, *c));
                if q.len() > room {
                    if held >= a {
                        dead_blocked_by_held = true;
                    } else {
                        dead_blocked_by_leak = Some((*c, held, q.len() - room));
                    }
                }
                continue;
            }
            if held >= a {
                if q.iter().any(|e| !e.uncertain) {
                    blocked_certain = true;
                } else {
                    blocked_uncertain = true;
                }
                continue;
            }
            if let Some(i) = q.iter().position(|e| self.deliverable(e)) {
                candidates.push((*c, i, q[i].req));
            }
        }
        let mut hazard = None;
        let (err, none) = if !candidates.is_empty() {
            (Tri::No, Tri::No)
        } else if blocked_certain {
            (Tri::Yes, Tri::No)
        } else if dead_blocked_by_held || blocked_uncertain {
            (Tri::Either, Tri::Either)
        } else {
            if let Some((c, held, n)) = dead_blocked_by_leak {
                hazard = Some(Hazard {
                    sig: F_LEAKED_BORROW,
                    why: format!(
                        "server {s} holds {held} of {a} active requests of the vanished client {c}, the requests it threw away still count as borrowed and {n} more are queued: receive reports ExceedsMaxBorrows"
                    ),
                });
            }
            (Tri::No, Tri::Yes)
        };
        ServerRecvExpect { candidates, err, none, hazard }
    }

    /// what every `receive` does first: requests of vanished clients (no fire-and-forget) are taken
    /// out of their expired connection and thrown away - without being released
    fn purge_vanished(&mut self, s: Sid) {
        let keys: Vec<Cid> = self.servers[s].inbox.keys().copied().filter(|c| self.dead_nf(*c)).collect();
        for c in keys {
            let room = self.cfg.a.saturating_sub(self.held(s, c) + self.leaked(s, c));
            for _ in 0..room {
                let Some(e) = self.servers[s].inbox.get_mut(&c).unwrap().pop_front() else { break };
                self.reqs[e.req].streams.insert(s, St::Lost);
                *self.servers[s].leaked.entry(c).or_default() += 1;
                self.ev.ghosts_discarded += 1;
            }
        }
    }

    /// the server returned request `rid` (must be one of the candidates)
    pub fn server_receive_some_apply(&mut self, s: Sid, c: Cid, idx: usize) -> usize {
        self.server_refresh(s);
        self.purge_vanished(s);
        let faf = self.cfg.faf;
        // everything before the served entry was discarded on the way
        for _ in 0..idx {
            let e = self.servers[s].inbox.get_mut(&c).unwrap().pop_front().unwrap();
            self.reqs[e.req].streams.insert(s, St::Lost);
            self.ev.ghosts_discarded += 1;
        }
        let e = self.servers[s].inbox.get_mut(&c).unwrap().pop_front().unwrap();
        let rid = e.req;
        // R5: other unblocked connections that hold nothing deliverable may have been emptied
        if !faf {
            let others: Vec<Cid> = self.servers[s].inbox.keys().copied().filter(|x| *x != c).collect();
            for o in others {
                if self.held(s, o) >= self.cfg.a || self.dead_nf(o) {
                    continue;
                }
                let all_ghost = {
                    let q = &self.servers[s].inbox[&o];
                    !q.is_empty() && !q.iter().any(|e| self.deliverable(e))
                };
                if all_ghost {
                    for e in self.servers[s].inbox.get_mut(&o).unwrap().iter_mut() {
                        if !e.uncertain {
                            e.uncertain = true;
                            self.ev.uncertain_marked += 1;
                        }
                    }
                }
            }
        }
        self.servers[s].received.insert(rid);
        self.reqs[rid].streams.insert(s, St::Active);
        let conn_valid = !self.clients[self.reqs[rid].client].dead;
        if !self.reqs[rid].pending {
            self.ev.faf_delivered += 1;
        }
        self.ars.push(MAr { req: rid, server: s, alive: true, conn_valid, next_k: 0, lost_loan_slots: 0 });
        self.note_success("server_receive");
        self.ars.len() - 1
    }

    /// the server returned `None` or `ExceedsMaxBorrows`: every unblocked connection was emptied
    pub fn server_receive_nothing_apply(&mut self, s: Sid) {
        self.server_refresh(s);
        self.purge_vanished(s);
        let keys: Vec<Cid> = self.servers[s].inbox.keys().copied().collect();
        for c in keys {
            if self.held(s, c) >= self.cfg.a || self.dead_nf(c) {
                continue;
            }
            let q = std::mem::take(self.servers[s].inbox.get_mut(&c).unwrap());
            for e in q {
                self.reqs[e.req].streams.insert(s, St::Lost);
                self.ev.ghosts_discarded += 1;
            }
        }
    }

    pub fn drop_active_apply(&mut self, ar: usize) {
        self.ars[ar].alive = false;
        let (rid, s) = (self.ars[ar].req, self.ars[ar].server);
        self.reqs[rid].streams.insert(s, St::Done);
        self.maybe_server_death(s);
    }

    // ---------------------------------------------------------------- responses
    /// (must the loan fail with ExceedsMaxLoans?, hazard)
    ///
    /// R7: a `ResponseMut` that outlives its `ActiveRequest` keeps counting against the server-wide
    /// cap `max_loaned_responses_per_request * max_active_requests_per_client * max_clients`; when
    /// that cap is reached through such loans the refusal is accepted (the rustdoc only states the
    /// limit per active request).
    pub fn loan_response_expect(&self, ar: usize) -> (Tri, Option<Hazard>) {
        if self.loans_of_ar(ar) >= self.cfg.ls {
            return (Tri::Yes, None);
        }
        if self.loans_of_ar(ar) + self.ars[ar].lost_loan_slots >= self.cfg.ls {
            return (
                Tri::No,
                Some(Hazard {
                    sig: F_LOAN_SLOT,
                    why: format!("an earlier response loan of this active request failed after its loan counter had been incremented: {} of {} loans are out but the counter says {}", self.loans_of_ar(ar), self.cfg.ls, self.loans_of_ar(ar) + self.ars[ar].lost_loan_slots),
                }),
            );
        }
        let s = self.ars[ar].server;
        let total = self.resp_loans.iter().filter(|l| l.alive && self.ars[l.ar].server == s).count();
        if total >= self.cfg.ls * self.cfg.a * self.cfg.max_clients {
            return (Tri::Either, None);
        }
        let (lo, hi) = self.server_usage(s);
        let hz = (hi >= self.cfg.server_pool()).then(|| Hazard {
            sig: F_SERVER_OOM,
            why: format!("server {s}: {lo}..{hi} of {} response chunks are referenced (queued in channels incl. those of dropped pending responses, borrowed, loaned)", self.cfg.server_pool()),
        });
        (Tri::No, hz)
    }

    /// What sending a response through `ar` does, by the documentation (`ideal`) and by the
    /// channel content (`phys`). They differ only through stale channel content.
    pub fn response_delivery(&self, ar: usize) -> (Delivery, Option<Hazard>) {
        let a = &self.ars[ar];
        let r = &self.reqs[a.req];
        let (c, s, ch) = (r.client, a.server, r.channel);
        if !a.conn_valid || self.clients[c].dead {
            return (Delivery::Nowhere, None);
        }
        let Some(conn) = self.conns.get(&(c, s)) else {
            return (Delivery::Nowhere, None);
        };
        let b = self.cfg.b;
        let empty = VecDeque::new();
        let q = conn.chans.get(&ch).unwrap_or(&empty);
        let occ_hi = q.len();
        let occ_lo = q.iter().filter(|e| !e.uncertain).count();
        let legit_send = r.pending;
        let is_legit = |e: &PhysEntry| self.reqs[e.req].pending;
        let legit_n = q.iter().filter(|e| is_legit(e)).count();
        let hz = |why: String| Some(Hazard { sig: F_RECYCLED, why });
        if !self.cfg.resp_overflow {
            if occ_hi < b {
                (Delivery::Push { evict: None }, None)
            } else if occ_lo >= b {
                if legit_send && legit_n < b {
                    (
                        Delivery::Push { evict: None },
                        hz(format!("channel {ch} of connection ({c},{s}) holds {} responses of earlier requests: the response is discarded although the stream buffers only {legit_n} of {b}", occ_lo - legit_n)),
                    )
                } else {
                    (Delivery::Full, None)
                }
            } else if legit_send {
                (Delivery::Push { evict: None }, hz(format!("channel {ch} of connection ({c},{s}) may still hold responses of earlier requests (uncertain)")))
            } else {
                // a late response that may or may not fit: no effect on anything observable, but the
                // model could not follow the channel content any more
                (Delivery::Nowhere, hz(format!("late response into channel {ch} of connection ({c},{s}) whose occupancy is uncertain")))
            }
        } else if occ_hi < b {
            (Delivery::Push { evict: None }, None)
        } else {
            // full: the head is pushed out
            let head = &q[0];
            if head.uncertain || !is_legit(head) {
                (Delivery::Push { evict: Some(0) }, None)
            } else if legit_send && legit_n >= b {
                (Delivery::Push { evict: Some(0) }, None)
            } else if legit_send {
                (
                    Delivery::Push { evict: None },
                    hz(format!("channel {ch} of connection ({c},{s}) is full but holds only {legit_n} of {b} responses of the current request: the overflow pushes out a response of the current request")),
                )
            } else {
                (Delivery::Nowhere, hz(format!("a response for the dropped request {} pushes a response of the current request out of channel {ch} of connection ({c},{s})", a.req)))
            }
        }
    }

    /// applies a send of response number `k` through `ar` with the given (documented) delivery
    pub fn response_send_apply(&mut self, ar: usize, k: u32, addr: Option<usize>, d: &Delivery) {
        let (rid, s) = (self.ars[ar].req, self.ars[ar].server);
        self.server_refresh(s);
        let (c, ch, legit) = (self.reqs[rid].client, self.reqs[rid].channel, self.reqs[rid].pending);
        if !legit {
            self.ev.late_response += 1;
        }
        match d {
            Delivery::Nowhere => {}
            Delivery::Full => {
                if legit {
                    self.ev.resp_discarded_full += 1;
                }
            }
            Delivery::Push { evict } => {
                let q = self.conns.get_mut(&(c, s)).unwrap().chans.entry(ch).or_default();
                if let Some(i) = evict {
                    let e = q.remove(*i).unwrap();
                    if self.reqs[e.req].pending {
                        self.ev.resp_overflow_evictions += 1;
                    }
                }
                let q = self.conns.get_mut(&(c, s)).unwrap().chans.entry(ch).or_default();
                q.push_back(PhysEntry { req: rid, k, uncertain: false, addr });
            }
        }
    }

    pub fn next_k(&mut self, ar: usize) -> u32 {
        let k = self.ars[ar].next_k;
        self.ars[ar].next_k += 1;
        k
    }

    pub fn loan_response_apply(&mut self, ar: usize, k: u32, addr: usize) -> usize {
        self.resp_loans.push(MRespLoan { ar, k, alive: true, addr });
        self.note_success("loan_response");
        self.resp_loans.len() - 1
    }

    pub fn drop_resp_loan_apply(&mut self, l: usize) {
        self.resp_loans[l].alive = false;
        let s = self.ars[self.resp_loans[l].ar].server;
        self.maybe_server_death(s);
    }

    // ---------------------------------------------------------------- pending response receive
    pub fn pr_receive_expect(&self, rid: Rid) -> PrExpect {
        let r = &self.reqs[rid];
        let (c, ch) = (r.client, r.channel);
        let w = self.cfg.w;
        let mut ideal_some = vec![];
        let mut phys_some = vec![];
        let mut ideal_blocked_live = false;
        let mut ideal_blocked_dead = false;
        let mut phys_blocked_certain = false;
        let mut phys_blocked_uncertain = false;
        let mut expired_hazard = None;
        for (k, conn) in self.conns.iter().filter(|(k, _)| k.0 == c) {
            let s = k.1;
            let empty = VecDeque::new();
            let q = conn.chans.get(&ch).unwrap_or(&empty);
            let head = q.iter().find(|e| e.req == rid);
            let ib = self.ideal_borrow(rid, s);
            let pb = self.phys_borrow(c, s, ch);
            if let Some(h) = head {
                if ib < w {
                    ideal_some.push((s, h.k));
                } else if conn.server_dead {
                    ideal_blocked_dead = true;
                } else {
                    ideal_blocked_live = true;
                }
                if pb < w {
                    phys_some.push((s, h.k));
                }
            }
            if pb >= w && !q.is_empty() {
                if q.iter().any(|e| !e.uncertain) {
                    phys_blocked_certain = true;
                } else {
                    phys_blocked_uncertain = true;
                }
            }
            // the expired connection of a vanished server is dropped as soon as a receive finds its
            // channel empty and nothing of it is borrowed - whatever its other channels hold
            if conn.server_dead && head.is_none() && pb < w && self.conn_borrows(c, s) == 0 {
                let other = conn.chans.iter().any(|(och, oq)| *och != ch && oq.iter().any(|e| self.reqs[e.req].pending));
                if other && expired_hazard.is_none() {
                    expired_hazard = Some(Hazard {
                        sig: F_EXPIRED,
                        why: format!("the connection of client {c} to the vanished server {s} holds undelivered responses for another pending response; receiving on channel {ch} (empty there) removes the connection"),
                    });
                }
            }
        }
        let (ierr, inone) = if !ideal_some.is_empty() {
            // R2: beyond the documented per-pending-response limit the error is acceptable as well
            let total: usize = self.resps.iter().filter(|x| x.alive && x.req == rid).count();
            (if total >= w { Tri::Either } else { Tri::No }, Tri::No)
        } else if ideal_blocked_live {
            (Tri::Yes, Tri::No)
        } else if ideal_blocked_dead {
            (Tri::Either, Tri::Either) // R6
        } else {
            (Tri::No, Tri::Yes)
        };
        // physical outcome kind: 0 some, 1 err, 2 none, 3 unknown
        let pk = if !phys_some.is_empty() {
            0
        } else if phys_blocked_certain {
            1
        } else if phys_blocked_uncertain {
            3
        } else {
            2
        };
        let mut hazard = expired_hazard;
        let mut dev = None;
        if !ideal_some.is_empty() {
            if pk != 0 || phys_some != ideal_some {
                dev = Some("borrows of an earlier request on the same channel block the stream".to_string());
            }
        } else if ideal_blocked_live {
            if pk != 1 {
                dev = Some("model inconsistency: blocked by documentation but not physically".to_string());
            }
        } else if ideal_blocked_dead {
            // either accepted
        } else if pk != 2 {
            dev = Some(format!("channel {ch} holds only responses of earlier requests but counts as 'data available' while the borrow limit of the channel is reached"));
        }
        if hazard.is_none() {
            if let Some(why) = dev {
                hazard = Some(Hazard { sig: F_RECYCLED, why });
            }
        }
        PrExpect { some: ideal_some, err: ierr, none: inone, hazard }
    }

    /// `receive` returned the response (s, k): pops it and everything stale before it
    pub fn pr_receive_some_apply(&mut self, rid: Rid, s: Sid, k: u32) -> usize {
        let (c, ch) = (self.reqs[rid].client, self.reqs[rid].channel);
        self.client_refresh(c);
        let w = self.cfg.w;
        let mut addr = None;
        if let Some(conn) = self.conns.get_mut(&(c, s)) {
            let q = conn.chans.entry(ch).or_default();
            while let Some(e) = q.pop_front() {
                if e.req == rid && e.k == k {
                    addr = e.addr;
                    break;
                }
                self.ev.stale_filtered += 1;
            }
            if conn.server_dead {
                self.ev.responses_from_dead_server += 1;
            }
        }
        self.mark_stale_uncertain(c, ch, rid, Some(s), w);
        let served_alive = self.conns.get(&(c, s)).map(|x| !x.server_dead).unwrap_or(true);
        self.drop_visited_expired(c, ch, served_alive);
        self.ev.responses_received += 1;
        if self.resps.iter().any(|x| x.req == rid && x.server != s) {
            self.ev.two_servers_answered += 1;
        }
        self.resps.push(MResp { req: rid, server: s, k, alive: true, addr });
        self.note_success("pr_receive");
        self.resps.len() - 1
    }

    /// R5 for responses: stale entries in the channel of other unblocked connections may be gone
    fn mark_stale_uncertain(&mut self, c: Cid, ch: u64, rid: Rid, served: Option<Sid>, w: usize) {
        let keys: Vec<(Cid, Sid)> = self.conns.keys().filter(|k| k.0 == c && Some(k.1) != served).copied().collect();
        for k in keys {
            if self.phys_borrow(c, k.1, ch) >= w {
                continue;
            }
            let q = self.conns.get_mut(&k).unwrap().chans.entry(ch).or_default();
            if !q.is_empty() && !q.iter().any(|e| e.req == rid) {
                for e in q.iter_mut() {
                    if !e.uncertain {
                        e.uncertain = true;
                        self.ev.uncertain_marked += 1;
                    }
                }
            }
        }
    }

    /// `receive` returned `None` / `ExceedsMaxBorrows`: every unblocked connection lost its stale entries
    pub fn pr_receive_nothing_apply(&mut self, rid: Rid) {
        let (c, ch) = (self.reqs[rid].client, self.reqs[rid].channel);
        self.client_refresh(c);
        let w = self.cfg.w;
        let keys: Vec<(Cid, Sid)> = self.conns.keys().filter(|k| k.0 == c).copied().collect();
        for k in keys {
            if self.phys_borrow(c, k.1, ch) >= w {
                continue;
            }
            let has_legit = self.conns[&k].chans.get(&ch).map(|q| q.iter().any(|e| e.req == rid)).unwrap_or(false);
            if has_legit {
                continue; // only possible on a deviating tree; keep what the documentation says is there
            }
            if let Some(q) = self.conns.get_mut(&k).unwrap().chans.get_mut(&ch) {
                self.ev.stale_filtered += q.len() as u64;
                q.clear();
            }
        }
        self.drop_visited_expired(c, ch, true);
    }

    pub fn drop_response_apply(&mut self, x: usize) {
        self.resps[x].alive = false;
        let c = self.reqs[self.resps[x].req].client;
        self.maybe_client_death(c);
    }

    // ---------------------------------------------------------------- queries
    pub fn pr_is_connected_expect(&self, rid: Rid) -> (Tri, Option<Hazard>) {
        let r = &self.reqs[rid];
        let yes = r.streams.iter().any(|(s, st)| !self.servers[*s].dead && matches!(st, St::InInbox | St::Active));
        if yes {
            (Tri::Yes, None)
        } else if r.limbo {
            (Tri::Either, None) // R3
        } else if r.opened_on_expired {
            (
                Tri::No,
                Some(Hazard {
                    sig: F_CONNECTED_EXPIRED,
                    why: format!("when request {rid} was sent client {} still kept the connection of a vanished server: its channel was opened there as well and nobody will ever close it", r.client),
                }),
            )
        } else {
            (Tri::No, None)
        }
    }

    pub fn ar_is_connected_expect(&self, ar: usize) -> bool {
        let a = &self.ars[ar];
        a.conn_valid && self.reqs[a.req].pending
    }

    /// documented: a server has sent a response (that was not received yet)
    pub fn has_response_expect(&self, rid: Rid) -> (bool, Option<Hazard>) {
        let r = &self.reqs[rid];
        let mut legit = false;
        let mut any = false;
        for (_, conn) in self.conns.iter().filter(|(k, _)| k.0 == r.client) {
            if let Some(q) = conn.chans.get(&r.channel) {
                legit |= q.iter().any(|e| e.req == rid);
                any |= !q.is_empty();
            }
        }
        let hz = (any && !legit).then(|| Hazard { sig: F_RECYCLED, why: format!("channel {} holds only responses of earlier requests", r.channel) });
        (legit, hz)
    }

    pub fn has_requests_expect(&self, s: Sid) -> Tri {
        let srv = &self.servers[s];
        let mut certain_live = false;
        let mut any = false;
        for (c, q) in &srv.inbox {
            // without fire-and-forget only connections of existing clients are looked at
            if !self.cfg.faf && self.clients[*c].dead {
                continue;
            }
            for e in q {
                any = true;
                if !e.uncertain && self.deliverable(e) {
                    certain_live = true;
                }
            }
        }
        if certain_live {
            Tri::Yes
        } else if any {
            Tri::Either
        } else {
            Tri::No
        }
    }

    // ---------------------------------------------------------------- C02: referenced chunk addresses
    /// addresses (client mapping) of request chunks of client `c` that something still refers to
    pub fn referenced_request_addrs(&self, c: Cid) -> Vec<(usize, String)> {
        let mut v = vec![];
        for l in self.req_loans.iter().filter(|l| l.alive && l.client == c) {
            v.push((l.addr, format!("unsent loan #{}", l.seq)));
        }
        for (rid, r) in self.reqs.iter().enumerate() {
            if r.client != c {
                continue;
            }
            let Some(addr) = r.addr else { continue };
            if r.pending {
                v.push((addr, format!("pending response of request #{}", r.seq)));
                continue;
            }
            if self.ars.iter().any(|a| a.alive && a.req == rid) {
                v.push((addr, format!("active request of request #{}", r.seq)));
                continue;
            }
            let queued = self.servers.iter().any(|s| !s.dead && s.inbox.get(&c).map(|q| q.iter().any(|e| e.req == rid && !e.uncertain)).unwrap_or(false));
            if queued {
                v.push((addr, format!("request #{} queued at a server", r.seq)));
            }
        }
        v
    }

    /// addresses (server mapping) of response chunks of server `s` that something still refers to
    pub fn referenced_response_addrs(&self, s: Sid) -> Vec<(usize, String)> {
        let mut v = vec![];
        for l in self.resp_loans.iter().filter(|l| l.alive && self.ars[l.ar].server == s) {
            v.push((l.addr, "unsent response loan".to_string()));
        }
        for x in self.resps.iter().filter(|x| x.alive && x.server == s) {
            if let Some(a) = x.addr {
                v.push((a, format!("held response k={} of request {}", x.k, x.req)));
            }
        }
        for (k, conn) in self.conns.iter().filter(|(k, _)| k.1 == s) {
            for (ch, q) in &conn.chans {
                for e in q.iter().filter(|e| !e.uncertain) {
                    if let Some(a) = e.addr {
                        v.push((a, format!("response k={} of request {} queued in channel {ch} of client {}", e.k, e.req, k.0)));
                    }
                }
            }
        }
        v
    }

    pub fn find_req(&self, client: u32, seq: u32) -> Option<Rid> {
        self.reqs.iter().position(|r| r.client == client as usize && r.seq == seq)
    }
}
