//! Configuration record, payload types, op alphabet and proptest strategies of the
//! request-response histories (C11, and the `rr.*` parts of C02 / C08).

use iceoryx2::prelude::ZeroCopySend;
use proptest::prelude::*;
use serde::{Deserialize, Serialize};

/// Requested quality-of-service values. The interpreter reads the *effective* values back from
/// `static_config()` (the builders clamp 0 to 1) and hands those to the model.
#[derive(Clone, Debug, PartialEq, Eq, Serialize, Deserialize)]
pub struct Cfg {
    pub max_clients: usize,
    pub max_servers: usize,
    /// max_active_requests_per_client
    pub max_active: usize,
    /// max_response_buffer_size
    pub buf: usize,
    /// max_borrowed_responses_per_pending_response
    pub borrow: usize,
    pub req_overflow: bool,
    pub resp_overflow: bool,
    /// enable_fire_and_forget_requests
    pub faf: bool,
    /// max_loaned_requests
    pub loan_req: usize,
    /// server builder: max_loaned_responses_per_request
    pub loan_resp: usize,
}

impl Cfg {
    pub fn small() -> Cfg {
        Cfg { max_clients: 1, max_servers: 1, max_active: 2, buf: 2, borrow: 1, req_overflow: true, resp_overflow: false, faf: false, loan_req: 1, loan_resp: 1 }
    }
}

const K1: u64 = 0x9E37_79B9_7F4A_7C15;
const K2: u64 = 0xC2B2_AE3D_27D4_EB4F;

fn mix(a: u64, b: u64) -> u64 {
    let mut x = a.wrapping_mul(K1) ^ b.wrapping_mul(K2);
    x ^= x >> 29;
    x = x.wrapping_mul(K1);
    x ^ (x >> 32)
}

/// Request payload: tag (client ordinal, request number of that client) + checksum + filler that is a
/// function of the tag (so that partial overwrites are visible).
#[derive(Debug, Clone, Copy, PartialEq, Eq, ZeroCopySend)]
#[repr(C)]
pub struct Req {
    pub client: u32,
    pub seq: u32,
    pub check: u64,
    pub fill: [u64; 2],
}

impl Req {
    pub fn new(client: u32, seq: u32) -> Req {
        let c = mix(client as u64 + 1, seq as u64 + 77);
        Req { client, seq, check: c, fill: [!c, c.rotate_left(17)] }
    }
    pub fn intact(&self) -> bool {
        *self == Req::new(self.client, self.seq)
    }
}

/// Response payload: (server ordinal, request tag, k = number of the response within its stream).
#[derive(Debug, Clone, Copy, PartialEq, Eq, ZeroCopySend)]
#[repr(C)]
pub struct Resp {
    pub server: u32,
    pub client: u32,
    pub seq: u32,
    pub k: u32,
    pub check: u64,
    pub fill: [u64; 2],
}

impl Resp {
    pub fn new(server: u32, client: u32, seq: u32, k: u32) -> Resp {
        let c = mix(mix(server as u64 + 3, client as u64 + 5), mix(seq as u64 + 7, k as u64 + 11));
        Resp { server, client, seq, k, check: c, fill: [c.rotate_left(9), !c] }
    }
    pub fn intact(&self) -> bool {
        *self == Resp::new(self.server, self.client, self.seq, self.k)
    }
}

/// One step of a history. Every `u16` selects among the *currently live* objects of the named
/// kind through `vcore::util::idx` (monotone, so shrinking moves towards the oldest object);
/// an op whose kind has no live object is skipped (not counted as applied).
#[derive(Clone, Debug, PartialEq, Eq, Serialize, Deserialize)]
pub enum Op {
    CreateClient,
    CreateServer,
    /// drops the `Client` object; pending responses / responses / loans of it stay usable
    DropClient(u16),
    /// drops the `Server` object; its active requests / response loans stay usable
    DropServer(u16),
    /// `Client::loan_uninit` + `write_payload` -> RequestMut
    LoanRequest(u16),
    /// `RequestMut::send` -> PendingResponse
    SendLoan(u16),
    DropLoan(u16),
    /// `Client::send_copy` -> PendingResponse
    SendRequest(u16),
    /// `Server::receive` -> ActiveRequest
    ServerReceive(u16),
    /// `ActiveRequest::send_copy`
    SendResponse(u16),
    /// `ActiveRequest::loan_uninit` + `write_payload` -> ResponseMut
    LoanResponse(u16),
    /// `ResponseMut::send`
    SendRespLoan(u16),
    DropRespLoan(u16),
    /// `PendingResponse::receive` -> Response
    PrReceive(u16),
    DropResponse(u16),
    DropPending(u16),
    DropActive(u16),
    IsConnectedPr(u16),
    IsConnectedAr(u16),
    HasResponse(u16),
    HasRequests(u16),
    /// loan-to-exhaustion of the requests of one client, then return them (C02 conservation)
    ProbeClient(u16),
    /// loan-to-exhaustion of the responses of one active request, then return them
    ProbeActive(u16),
}

/// order in which everything that is still alive is dropped at the end of a case
#[derive(Clone, Copy, Debug, PartialEq, Eq, Serialize, Deserialize)]
pub enum Teardown {
    /// responses, loans, pending responses, active requests, then clients, then servers
    ObjectsFirst,
    /// servers and clients first (objects keep the ports' shared state alive), then the objects
    PortsFirst,
    /// active requests and servers before the client side
    ServerSideFirst,
}

#[derive(Clone, Debug, PartialEq, Eq, Serialize, Deserialize)]
pub struct Case {
    pub cfg: Cfg,
    pub ops: Vec<Op>,
    pub teardown: Teardown,
}

pub const LAST: u16 = u16::MAX;

pub fn teardown_strategy() -> impl Strategy<Value = Teardown> {
    prop_oneof![Just(Teardown::ObjectsFirst), Just(Teardown::PortsFirst), Just(Teardown::ServerSideFirst)]
}

/// DESIGN C11 "G" grid
pub fn cfg_strategy() -> impl Strategy<Value = Cfg> {
    (
        (prop_oneof![3 => Just(1usize), 2 => Just(2usize)], prop_oneof![3 => Just(1usize), 2 => Just(2usize)], 1usize..=3, 1usize..=3, 1usize..=2),
        (any::<bool>(), any::<bool>(), any::<bool>(), 1usize..=2, 1usize..=2),
    )
        .prop_map(|((max_clients, max_servers, max_active, buf, borrow), (req_overflow, resp_overflow, faf, loan_req, loan_resp))| Cfg {
            max_clients,
            max_servers,
            max_active,
            buf,
            borrow,
            req_overflow,
            resp_overflow,
            faf,
            loan_req,
            loan_resp,
        })
}

fn sel() -> impl Strategy<Value = u16> {
    prop_oneof![2 => any::<u16>(), 1 => Just(LAST), 1 => Just(0u16)]
}

/// single ops, weighted towards the request/response flow
pub fn op_strategy() -> impl Strategy<Value = Op> {
    prop_oneof![
        3 => Just(Op::CreateClient),
        3 => Just(Op::CreateServer),
        1 => sel().prop_map(Op::DropClient),
        1 => sel().prop_map(Op::DropServer),
        3 => sel().prop_map(Op::LoanRequest),
        3 => sel().prop_map(Op::SendLoan),
        1 => sel().prop_map(Op::DropLoan),
        12 => sel().prop_map(Op::SendRequest),
        12 => sel().prop_map(Op::ServerReceive),
        14 => sel().prop_map(Op::SendResponse),
        3 => sel().prop_map(Op::LoanResponse),
        3 => sel().prop_map(Op::SendRespLoan),
        1 => sel().prop_map(Op::DropRespLoan),
        14 => sel().prop_map(Op::PrReceive),
        6 => sel().prop_map(Op::DropResponse),
        7 => sel().prop_map(Op::DropPending),
        5 => sel().prop_map(Op::DropActive),
        3 => sel().prop_map(Op::IsConnectedPr),
        3 => sel().prop_map(Op::IsConnectedAr),
        1 => sel().prop_map(Op::HasResponse),
        1 => sel().prop_map(Op::HasRequests),
        1 => sel().prop_map(Op::ProbeClient),
        1 => sel().prop_map(Op::ProbeActive),
    ]
}

/// Short phrases that steer a history into the interesting regions (channel recycling with
/// responses still queued, overlapping requests, responses after the pending response is gone).
#[derive(Clone, Debug)]
pub enum Phrase {
    One(Op),
    /// respond, drop the pending response without reading, burn `n` further channel ids, send a
    /// new request, let the server answer it, read
    Recycle { c: u16, s: u16, burn: u8, late: bool },
    /// two requests of one client in flight, answered in the opposite order
    Overlap { c: u16, s: u16 },
    /// request, receive, several responses, several reads
    Stream { c: u16, s: u16, n: u8, reads: u8 },
    /// drop the newest pending response, then let its active request answer anyway
    LateAnswer,
}

impl Phrase {
    pub fn ops(&self, out: &mut Vec<Op>) {
        match self {
            Phrase::One(o) => out.push(o.clone()),
            Phrase::Recycle { c, s, burn, late } => {
                out.extend([Op::SendRequest(*c), Op::ServerReceive(*s), Op::SendResponse(LAST)]);
                if *late {
                    out.extend([Op::DropPending(LAST), Op::SendResponse(LAST)]);
                } else {
                    out.extend([Op::DropPending(LAST), Op::DropActive(LAST)]);
                }
                for _ in 0..*burn {
                    out.extend([Op::SendRequest(*c), Op::DropPending(LAST)]);
                }
                out.extend([Op::SendRequest(*c), Op::ServerReceive(*s), Op::ServerReceive(*s), Op::SendResponse(LAST), Op::PrReceive(LAST), Op::PrReceive(LAST)]);
            }
            Phrase::Overlap { c, s } => {
                out.extend([
                    Op::SendRequest(*c),
                    Op::SendRequest(*c),
                    Op::ServerReceive(*s),
                    Op::ServerReceive(*s),
                    Op::SendResponse(LAST),
                    Op::SendResponse(0),
                    Op::PrReceive(0),
                    Op::PrReceive(LAST),
                ]);
            }
            Phrase::Stream { c, s, n, reads } => {
                out.extend([Op::SendRequest(*c), Op::ServerReceive(*s)]);
                for _ in 0..*n {
                    out.push(Op::SendResponse(LAST));
                }
                for _ in 0..*reads {
                    out.push(Op::PrReceive(LAST));
                }
            }
            Phrase::LateAnswer => out.extend([Op::DropPending(LAST), Op::SendResponse(LAST), Op::SendResponse(LAST)]),
        }
    }
}

pub fn phrase_strategy() -> impl Strategy<Value = Phrase> {
    prop_oneof![
        30 => op_strategy().prop_map(Phrase::One),
        2 => (sel(), sel(), 0u8..6, any::<bool>()).prop_map(|(c, s, burn, late)| Phrase::Recycle { c, s, burn, late }),
        1 => (sel(), sel()).prop_map(|(c, s)| Phrase::Overlap { c, s }),
        2 => (sel(), sel(), 1u8..5, 0u8..4).prop_map(|(c, s, n, reads)| Phrase::Stream { c, s, n, reads }),
        1 => Just(Phrase::LateAnswer),
    ]
}

/// histories of at most `max_ops` ops; every history starts by creating ports (mostly)
pub fn ops_strategy(max_ops: usize) -> impl Strategy<Value = Vec<Op>> {
    (prop::bool::weighted(0.85), proptest::collection::vec(phrase_strategy(), 0..max_ops)).prop_map(move |(boot, phrases)| {
        let mut ops = vec![];
        if boot {
            ops.extend([Op::CreateServer, Op::CreateClient]);
        }
        for p in &phrases {
            p.ops(&mut ops);
            if ops.len() >= max_ops {
                break;
            }
        }
        ops.truncate(max_ops);
        ops
    })
}

pub fn case_strategy(max_ops: usize) -> impl Strategy<Value = Case> {
    (cfg_strategy(), ops_strategy(max_ops), teardown_strategy()).prop_map(|(cfg, ops, teardown)| Case { cfg, ops, teardown })
}

/// smallest `u16` that `vcore::util::idx` maps onto `k` of `n`
pub fn u16_for(k: usize, n: usize) -> u16 {
    if n == 0 { 0 } else { (((k << 16) + n - 1) / n).min(65535) as u16 }
}
