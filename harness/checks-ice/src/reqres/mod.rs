//! Request-response reference model + interpreter (DESIGN §3.3; C11, and the `rr.*` parts of C02
//! and C08).
//!
//! `types`   configuration record, tagged payloads, op alphabet, proptest strategies
//! `model`   reference model: physical queue / channel content, documented expectations on top,
//!           hazards = situations in which a known finding makes the two differ
//! `interp`  applies ops to real ports + model, compares every return value, runs the invariants
//! `sim`     model-only execution (sequence enumeration, state-dependent generators)
//! `policy`  adversarial generators of C08 (saturate / churn) and the conservation probe of C02
pub mod interp;
pub mod model;
pub mod policy;
pub mod sim;
pub mod types;

use interp::{Interp, Open, Opts};
use iceoryx2::service::Service;
use iceoryx2::service::{ipc, local};
use proptest::prelude::*;
use serde::{Deserialize, Serialize};
use std::cell::RefCell;
use std::collections::BTreeMap;
use types::*;
use vcore::{Ctx, Failure, Obs};

#[derive(Clone, Copy, Debug, PartialEq, Eq, Serialize, Deserialize)]
pub enum Variant {
    Local,
    Ipc,
}

#[derive(Clone, Copy, Debug, Default)]
pub struct RunOpts {
    pub opts: Opts,
    /// C02: at the end drop all objects, then run the conservation probe on the surviving ports
    pub final_probe: bool,
    /// upper bound of probe cycles per (client, server) pair
    pub probe_cycles: usize,
}

#[derive(Clone, Debug, Default)]
pub struct Summary {
    pub nt_c11: bool,
    pub reuse_while_held: u64,
    pub limit_lifted: bool,
    pub saturated_success: bool,
    pub applied: usize,
    pub excluded: BTreeMap<&'static str, u64>,
    pub tainted: bool,
}

/// where the ops of a case come from
pub trait OpSource {
    fn next(&mut self, m: &model::Model) -> Option<Op>;
}

pub struct Fixed<'a> {
    pub ops: &'a [Op],
    pub pos: usize,
}

impl OpSource for Fixed<'_> {
    fn next(&mut self, _m: &model::Model) -> Option<Op> {
        let o = self.ops.get(self.pos).cloned();
        self.pos += 1;
        o
    }
}

fn run<S: Service>(cfg: &Cfg, src: &mut dyn OpSource, teardown: Teardown, ro: &RunOpts, open: &Open, obs: &mut Obs) -> Result<Summary, Failure> {
    let mut it = Interp::<S>::new(cfg, ro.opts, open)?;
    let r = (|| -> Result<(), Failure> {
        while let Some(op) = src.next(&it.m) {
            it.step(&op)?;
            if it.stopped {
                break;
            }
        }
        if ro.final_probe && !it.stopped {
            policy::final_probe(&mut it, ro.probe_cycles)?;
        }
        Ok(())
    })();
    let nt = it.observe(obs);
    let sum = Summary {
        nt_c11: nt,
        reuse_while_held: it.reuse_while_held,
        limit_lifted: !it.m.ev.limit_lifted.is_empty(),
        saturated_success: it.m.ev.saturated_success > 0,
        applied: it.applied,
        excluded: it.excluded.clone(),
        tainted: it.taint.is_some(),
    };
    match r {
        Ok(()) => {
            it.finish(teardown)?;
            Ok(sum)
        }
        Err(f) => {
            it.abort();
            Err(f)
        }
    }
}

pub fn run_source(variant: Variant, cfg: &Cfg, src: &mut dyn OpSource, teardown: Teardown, ro: &RunOpts, open: &Open, obs: &mut Obs) -> Result<Summary, Failure> {
    match variant {
        Variant::Local => run::<local::Service>(cfg, src, teardown, ro, open, obs),
        Variant::Ipc => run::<ipc::Service>(cfg, src, teardown, ro, open, obs),
    }
}

pub fn run_case(variant: Variant, case: &Case, ro: &RunOpts, open: &Open, obs: &mut Obs) -> Result<Summary, Failure> {
    let mut src = Fixed { ops: &case.ops, pos: 0 };
    run_source(variant, &case.cfg, &mut src, case.teardown, ro, open, obs)
}

/// collects the "left out because of an open finding" counts of the cases of one part
#[derive(Default)]
pub struct Excl(pub RefCell<BTreeMap<&'static str, u64>>);

impl Excl {
    pub fn add(&self, s: &Summary) {
        let mut g = self.0.borrow_mut();
        for (k, v) in &s.excluded {
            *g.entry(k).or_default() += v;
        }
    }
    pub fn file(&self, ctx: &mut Ctx) {
        for (k, v) in self.0.borrow().iter() {
            for _ in 0..*v {
                ctx.count_excluded(k);
            }
        }
    }
}

// ==========================================================================================
// C02: request and response payload chunks
// ==========================================================================================

/// bias towards holding: receive without drop, loan without send, ports dropped under live objects
fn hold_op_strategy() -> impl Strategy<Value = Op> {
    let sel = || prop_oneof![2 => any::<u16>(), 1 => Just(LAST), 1 => Just(0u16)];
    prop_oneof![
        2 => Just(Op::CreateClient),
        2 => Just(Op::CreateServer),
        2 => sel().prop_map(Op::DropClient),
        2 => sel().prop_map(Op::DropServer),
        6 => sel().prop_map(Op::LoanRequest),
        3 => sel().prop_map(Op::SendLoan),
        1 => sel().prop_map(Op::DropLoan),
        10 => sel().prop_map(Op::SendRequest),
        12 => sel().prop_map(Op::ServerReceive),
        8 => sel().prop_map(Op::SendResponse),
        8 => sel().prop_map(Op::LoanResponse),
        8 => sel().prop_map(Op::SendRespLoan),
        1 => sel().prop_map(Op::DropRespLoan),
        16 => sel().prop_map(Op::PrReceive),
        3 => sel().prop_map(Op::DropResponse),
        5 => sel().prop_map(Op::DropPending),
        3 => sel().prop_map(Op::DropActive),
        2 => sel().prop_map(Op::ProbeClient),
        2 => sel().prop_map(Op::ProbeActive),
    ]
}

fn hold_case_strategy(max_ops: usize) -> impl Strategy<Value = Case> {
    (cfg_strategy(), prop::bool::weighted(0.9), proptest::collection::vec(hold_op_strategy(), 0..max_ops), teardown_strategy()).prop_map(|(cfg, boot, mut ops, teardown)| {
        if boot {
            ops.insert(0, Op::CreateClient);
            ops.insert(0, Op::CreateServer);
        }
        Case { cfg, ops, teardown }
    })
}

/// C02 for request and response payloads (no reuse while referenced, no leak after).
///
/// Parts `rr.hold.local` / `rr.hold.ipc`: histories biased towards holding; oracle = the interpreter
/// with (1) canary re-read of every pending response / active request / response / loan after every
/// op, (2) the address of every new loan not among the addresses of the chunks the model counts as
/// referenced (per port, in that port's mapping), (3) loan-to-exhaustion at generated points
/// (`ProbeClient` / `ProbeActive`) and, after dropping all objects, on every surviving port, followed
/// by request/response round trips on recycled channels (more than the pools hold) during which no loan
/// may fail; `OutOfMemory` never; no leftovers.
/// Non-trivial = a chunk address was handed out a second time while an older reference into the
/// same port's pool was alive.
pub fn c02_parts(ctx: &mut Ctx) {
    let open = Open::load();
    for (part, variant, total) in [("rr.hold.local", Variant::Local, ctx.scale(3000u64, 40_000)), ("rr.hold.ipc", Variant::Ipc, ctx.scale(320u64, 6_000))] {
        let excl = Excl::default();
        let ro = RunOpts { opts: Opts { address_probe: true, canary: true, check_log: false, recheck_after_limit: false }, final_probe: true, probe_cycles: ctx.scale(40, 120) };
        ctx.proptest(part, total, hold_case_strategy(70), |case, obs| {
            let s = run_case(variant, case, &ro, &open, obs)?;
            excl.add(&s);
            obs.nontrivial = s.reuse_while_held > 0;
            Ok(())
        });
        excl.file(ctx);
    }
}

// ==========================================================================================
// C08: request-response limits
// ==========================================================================================

#[derive(Clone, Debug, Serialize, Deserialize)]
pub struct PolicyCase {
    pub cfg: Cfg,
    pub policy: policy::Policy,
    pub choices: Vec<u16>,
    pub teardown: Teardown,
}

/// limits drawn from 0..4 where the builder accepts them (it clamps 0 to 1; the interpreter checks
/// that `static_config()` reports exactly the clamped values and the model uses those)
fn limits_cfg_strategy() -> impl Strategy<Value = Cfg> {
    (
        (0usize..=2, 0usize..=2, 0usize..=4, 0usize..=4, 0usize..=3),
        (any::<bool>(), any::<bool>(), any::<bool>(), 0usize..=3, 0usize..=3),
    )
        .prop_map(|((max_clients, max_servers, max_active, buf, borrow), (req_overflow, resp_overflow, faf, loan_req, loan_resp))| Cfg {
            max_clients,
            max_servers,
            max_active,
            buf,
            borrow,
            req_overflow,
            resp_overflow,
            faf,
            loan_req,
            loan_resp,
        })
}

fn policy_case_strategy(p: policy::Policy, n: usize) -> impl Strategy<Value = PolicyCase> {
    (limits_cfg_strategy(), proptest::collection::vec(any::<u16>(), n / 2..n), teardown_strategy()).prop_map(move |(cfg, choices, teardown)| PolicyCase { cfg, policy: p, choices, teardown })
}

/// C08 for request-response limits.
///
/// Parts `rr.saturate`, `rr.churn` (state-dependent adversaries, see `policy`), `rr.random` (the C11
/// generator over the 0..4 limit grid), `rr.ipc` (saturate on `ipc::Service`). Oracle = per-op
/// comparison with the model: (1) inside the limits no loan fails (`OutOfMemory` is always a
/// failure) and iceoryx2 logs no `error!` / "should never happen" line; (2) one-too-many active
/// request / request loan / response loan / borrowed response / held active request / client / server
/// fails with exactly `ExceedsMaxActiveRequests` / `ExceedsMaxLoans` / `ExceedsMaxBorrows` /
/// `ExceedsMaxSupportedClients` / `ExceedsMaxSupportedServers`; (3) the failed call changed nothing
/// (the model ignores it; canaries are re-read at once, every later result is still compared);
/// (4) after freeing one unit the call succeeds (the model demands success inside the limits).
/// Non-trivial = a further allocation succeeded while a second limit of the same port was at its
/// maximum, or a limit error was provoked and the same kind of call succeeded later.
pub fn c08_parts(ctx: &mut Ctx) {
    let open = Open::load();
    let log = crate::pubsub::logcap::install();
    let ro = RunOpts { opts: Opts { address_probe: true, canary: true, check_log: log, recheck_after_limit: true }, final_probe: false, probe_cycles: 0 };
    let nt = |s: &Summary| s.limit_lifted || s.saturated_success;
    for (part, variant, pol, total) in [
        ("rr.saturate", Variant::Local, policy::Policy::Saturate, ctx.scale(1200u64, 24_000)),
        ("rr.churn", Variant::Local, policy::Policy::Churn, ctx.scale(1200u64, 24_000)),
        ("rr.ipc", Variant::Ipc, policy::Policy::Saturate, ctx.scale(200u64, 4_000)),
    ] {
        let excl = Excl::default();
        ctx.proptest(part, total, policy_case_strategy(pol, 90), |case, obs| {
            let mut src = policy::Adversary::new(case.policy, &case.choices, &open);
            let s = run_source(variant, &case.cfg, &mut src, case.teardown, &ro, &open, obs);
            if let (Err(f), Ok(_)) = (&s, std::env::var("RR_DEBUG_KNOWN")) {
                eprintln!("DEBUG {} {}\n  {}", f.signature, f.message, serde_json::to_string(case).unwrap());
            }
            let s = s?;
            excl.add(&s);
            obs.nontrivial = nt(&s);
            Ok(())
        });
        excl.file(ctx);
    }
    {
        let excl = Excl::default();
        let strat = (limits_cfg_strategy(), ops_strategy(80), teardown_strategy()).prop_map(|(cfg, ops, teardown)| Case { cfg, ops, teardown });
        ctx.proptest("rr.random", ctx.scale(1200u64, 24_000), strat, |case, obs| {
            let s = run_case(Variant::Local, case, &ro, &open, obs)?;
            excl.add(&s);
            obs.nontrivial = nt(&s);
            Ok(())
        });
        excl.file(ctx);
    }
    // the finding of this property that the generators leave out: keep it visible
    if ctx.part_enabled("rr.probe.client_oom") && ctx.worker == 0 {
        let mut obs = Obs::default();
        let seen = policy::probe_client_oom(&mut obs);
        ctx.record("rr.probe.client_oom", 1, &obs, || serde_json::json!("fixed scenario"));
        ctx.probe_finding("rr.probe.client_oom", model::F_CLIENT_OOM, seen, serde_json::json!("fixed scenario, see policy::probe_client_oom"));
    }
    if ctx.part_enabled("rr.probe.loan_slot") && ctx.worker == 0 {
        let mut obs = Obs::default();
        let seen = policy::probe_loan_slot(&mut obs);
        ctx.record("rr.probe.loan_slot", 1, &obs, || serde_json::json!("fixed scenario"));
        ctx.probe_finding("rr.probe.loan_slot", model::F_LOAN_SLOT, seen, serde_json::json!("fixed scenario, see policy::probe_loan_slot"));
    }
    if ctx.part_enabled("rr.probe.server_oom") && ctx.worker == 0 {
        let mut obs = Obs::default();
        let seen = policy::probe_server_oom(&mut obs);
        ctx.record("rr.probe.server_oom", 1, &obs, || serde_json::json!("fixed scenario"));
        ctx.probe_finding("rr.probe.server_oom", model::F_SERVER_OOM, seen, serde_json::json!("fixed scenario, see policy::probe_server_oom"));
    }
    if log {
        crate::pubsub::logcap::uninstall_level();
    }
}
