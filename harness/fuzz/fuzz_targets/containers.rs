//! libFuzzer + ASan target for the container families (C16, and with relocation C14).
//! Bytes are decoded into (family, flavour, capacity, relocation period, op sequence); ops are
//! indices into a fixed per-family alphabet of 256 operations (the reduced alphabet of the
//! exhaustive parts plus operations drawn once from the family's proptest strategy with a fixed
//! seed), so that coverage-guided mutation works on operation sequences. The semantic oracle is
//! the same interpreter as in the proptest parts (reference model after every op + drop
//! accounting); ASan adds the memory-safety oracle the other builds do not have.
#![no_main]
extern crate iceoryx2_bb_loggers;

use checks_bb::families::{self, Case};
use checks_bb::models::Known;
use libfuzzer_sys::fuzz_target;
use proptest::strategy::{Strategy, ValueTree};
use proptest::test_runner::{Config, RngSeed, TestRunner};
use std::sync::OnceLock;
use std::sync::atomic::{AtomicU64, Ordering};

fn alphabet<O: Clone + std::fmt::Debug, S: Strategy<Value = O>>(reduced: Vec<O>, strat: S) -> Vec<O> {
    let mut runner = TestRunner::new(Config { rng_seed: RngSeed::Fixed(0xC16), failure_persistence: None, ..Config::default() });
    let mut v = reduced;
    while v.len() < 256 {
        v.push(strat.new_tree(&mut runner).unwrap().current());
    }
    v
}

static EXECS: AtomicU64 = AtomicU64::new(0);
static NONTRIVIAL: AtomicU64 = AtomicU64::new(0);

extern "C" fn report() {
    if let Ok(p) = std::env::var("VERIF_FUZZ_STATS") {
        let _ = std::fs::write(p, format!("{{\"executions\": {}, \"nontrivial\": {}}}", EXECS.load(Ordering::Relaxed), NONTRIVIAL.load(Ordering::Relaxed)));
    }
}

macro_rules! family {
    ($name:ident, $op:ty, $alpha:expr, $strat:expr, $run:path) => {
        fn $name(flavour: u8, cap: usize, reloc: u8, idx: &[u8]) -> Result<bool, vcore::Failure> {
            static A: OnceLock<Vec<$op>> = OnceLock::new();
            let a = A.get_or_init(|| alphabet($alpha, $strat));
            let ops: Vec<$op> = idx.iter().map(|i| a[*i as usize].clone()).collect();
            let c = Case { flavour, cap, reloc, ops };
            let mut obs = vcore::Obs::default();
            $run(&c, &mut obs, &Known::none())?;
            Ok(obs.nontrivial)
        }
    };
}

use checks_bb::models::{flatmap, option, queue, slotmap, string, vec};
family!(f_vec, vec::VOp, vec::vop_alphabet(), vec::vop_strategy(), families::vecs::run_case);
family!(f_queue, queue::QOp, queue::qop_alphabet(), queue::qop_strategy(), families::queues::run_case);
family!(f_slotmap, slotmap::SOp, slotmap::sop_alphabet(), slotmap::sop_strategy(), families::slotmaps::run_case);
family!(f_flatmap, flatmap::FOp, flatmap::fop_alphabet(), flatmap::fop_strategy(), families::flatmaps::run_case);
family!(f_string, string::StrOp, string::strop_alphabet(), string::strop_strategy(), families::strings::run_case);
family!(f_option, option::OOp, option::oop_alphabet(), option::oop_strategy(), families::options::run_case);

fuzz_target!(init: {
    iceoryx2_log::set_log_level(iceoryx2_log::LogLevel::Fatal);
    std::panic::set_hook(Box::new(|_| {}));
    unsafe { libc::atexit(report) };
}, |data: &[u8]| {
    if data.len() < 5 {
        return;
    }
    EXECS.fetch_add(1, Ordering::Relaxed);
    let family = data[0] % 6;
    let caps = families::CAPS;
    let cap = caps[(data[2] as usize) % caps.len()];
    let reloc = data[3] % 8;
    let idx = &data[4..data.len().min(4 + 600)];
    // flavour counts per family: queue has 6 (3 storages x 2 element kinds), the others 3
    let flavour = if family == 1 { data[1] % 6 } else { data[1] % 3 };
    let r = std::panic::catch_unwind(|| match family {
        0 => f_vec(flavour, cap, reloc, idx),
        1 => f_queue(flavour, cap, reloc, idx),
        2 => f_slotmap(flavour, cap, reloc, idx),
        3 => f_flatmap(flavour, cap, reloc, idx),
        4 => f_string(flavour, cap, reloc, idx),
        _ => f_option(flavour, cap, reloc, idx),
    });
    match r {
        Ok(Ok(nt)) => {
            if nt {
                NONTRIVIAL.fetch_add(1, Ordering::Relaxed);
            }
        }
        Ok(Err(f)) => {
            eprintln!("VERIF-VIOLATION [{}] {} (family {family} flavour {flavour} cap {cap} reloc {reloc} ops {:?})", f.signature, f.message, idx);
            std::process::abort();
        }
        Err(e) => {
            let m = vcore::util::panic_message(&e);
            eprintln!("VERIF-VIOLATION [panic] {m} (family {family} flavour {flavour} cap {cap} reloc {reloc} ops {:?})", idx);
            std::process::abort();
        }
    }
});
