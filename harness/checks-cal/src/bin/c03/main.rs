//! C03 — lock-free SPSC channels are linearizable FIFOs conserving every element.
//!
//! Producer and consumer programs run on two threads under the controlled scheduler
//! (vsched); the schedule (preemption list, stale-read choices) is the generated input.
extern crate iceoryx2_bb_loggers;

use iceoryx2_bb_lock_free::spsc::index_queue::IndexQueue;
use iceoryx2_bb_lock_free::spsc::queue::Queue;
use iceoryx2_bb_lock_free::spsc::safely_overflowing_index_queue::SafelyOverflowingIndexQueue;
use serde::{Deserialize, Serialize};
use std::sync::Mutex;
use std::sync::atomic::{AtomicU64, Ordering};
use vcore::sched::{self, OTHER, Schedule};
use vcore::{Ctx, Failure, Obs, Spec, ensure};

mod conn;

const SPEC: Spec = Spec {
    prop: "C03",
    level: "exploration",
    rule: "case = (structure, capacity, producer/consumer programs with optional role hand-over, schedule); schedules are preemption lists over the atomic accesses of the real code: all lists up to the stated bound for the small programs (exhaustive part), PCT-style random lists and weak-memory stale-read choices beyond; oracle = conservation (popped+evicted+remaining = pushed as multisets), FIFO order, admissibility of every 'full'/'empty' answer against operation intervals, capacity bound; non-trivial = a preemption took a thread off the CPU inside a push/pop and the queue was observed full or empty at least once; distinct = hash of the whole case",
    assumptions: &[
        "schedules are explored at the granularity of atomic accesses (the pre-access hook of the instrumented atomics); plain memory accesses between two atomics execute atomically",
        "weak-memory mode under-approximates C11 (no load buffering / store delay) and only sees atomic locations; stale slot contents are out of reach",
        "the Miri stage (race detector + weak memory emulation) covers the two race-free queues only",
    ],
    watchdog_quick_s: 900,
    watchdog_thorough_s: 10800,
};

// ------------------------------------------------------------------------------------------

#[derive(Clone, Debug, Serialize, Deserialize, Hash)]
pub struct QCase {
    /// 0 IndexQueue, 1 SafelyOverflowingIndexQueue, 2 spsc::Queue<u64, N>
    pub kind: u8,
    pub cap: usize,
    /// pushes by thread 0
    pub k1: u8,
    /// pops by thread 1
    pub m1: u8,
    /// after its pops thread 1 tries to take over the producer role and pushes k2 values
    pub k2: u8,
    /// after its pushes thread 0 tries to take over the consumer role and pops m2 times
    pub m2: u8,
    pub sched: Schedule,
}

#[derive(Clone, Debug, PartialEq)]
enum Ev {
    PushBegin(u64),
    /// value, accepted, evicted
    PushEnd(u64, bool, Option<u64>),
    PopBegin,
    PopEnd(Option<u64>),
}

enum PushRes {
    Rejected,
    Accepted(Option<u64>),
}

trait SpscQ: Sync {
    type P<'a>
    where
        Self: 'a;
    type C<'a>
    where
        Self: 'a;
    fn producer(&self) -> Option<Self::P<'_>>;
    fn consumer(&self) -> Option<Self::C<'_>>;
    fn push(p: &mut Self::P<'_>, v: u64) -> PushRes;
    fn pop(c: &mut Self::C<'_>) -> Option<u64>;
    fn len(&self) -> usize;
    const OVERFLOWING: bool;
}

type OwnIq = IndexQueue;
type OwnOq = SafelyOverflowingIndexQueue;

impl SpscQ for OwnIq {
    type P<'a> = iceoryx2_bb_lock_free::spsc::index_queue::Producer<'a, iceoryx2_bb_elementary::owning_pointer::OwningPointer<iceoryx2_bb_concurrency::cell::UnsafeCell<u64>>>;
    type C<'a> = iceoryx2_bb_lock_free::spsc::index_queue::Consumer<'a, iceoryx2_bb_elementary::owning_pointer::OwningPointer<iceoryx2_bb_concurrency::cell::UnsafeCell<u64>>>;
    fn producer(&self) -> Option<Self::P<'_>> {
        self.acquire_producer()
    }
    fn consumer(&self) -> Option<Self::C<'_>> {
        self.acquire_consumer()
    }
    fn push(p: &mut Self::P<'_>, v: u64) -> PushRes {
        if p.push(v) { PushRes::Accepted(None) } else { PushRes::Rejected }
    }
    fn pop(c: &mut Self::C<'_>) -> Option<u64> {
        c.pop()
    }
    fn len(&self) -> usize {
        self.len()
    }
    const OVERFLOWING: bool = false;
}

impl SpscQ for OwnOq {
    type P<'a> = iceoryx2_bb_lock_free::spsc::safely_overflowing_index_queue::Producer<'a, iceoryx2_bb_elementary::owning_pointer::OwningPointer<iceoryx2_bb_concurrency::cell::UnsafeCell<u64>>>;
    type C<'a> = iceoryx2_bb_lock_free::spsc::safely_overflowing_index_queue::Consumer<'a, iceoryx2_bb_elementary::owning_pointer::OwningPointer<iceoryx2_bb_concurrency::cell::UnsafeCell<u64>>>;
    fn producer(&self) -> Option<Self::P<'_>> {
        self.acquire_producer()
    }
    fn consumer(&self) -> Option<Self::C<'_>> {
        self.acquire_consumer()
    }
    fn push(p: &mut Self::P<'_>, v: u64) -> PushRes {
        PushRes::Accepted(p.push(v))
    }
    fn pop(c: &mut Self::C<'_>) -> Option<u64> {
        c.pop()
    }
    fn len(&self) -> usize {
        self.len()
    }
    const OVERFLOWING: bool = true;
}

impl<const N: usize> SpscQ for Queue<u64, N> {
    type P<'a> = iceoryx2_bb_lock_free::spsc::queue::Producer<'a, u64, N>;
    type C<'a> = iceoryx2_bb_lock_free::spsc::queue::Consumer<'a, u64, N>;
    fn producer(&self) -> Option<Self::P<'_>> {
        self.acquire_producer()
    }
    fn consumer(&self) -> Option<Self::C<'_>> {
        self.acquire_consumer()
    }
    fn push(p: &mut Self::P<'_>, v: u64) -> PushRes {
        if p.push(&v) { PushRes::Accepted(None) } else { PushRes::Rejected }
    }
    fn pop(c: &mut Self::C<'_>) -> Option<u64> {
        c.pop()
    }
    fn len(&self) -> usize {
        self.len()
    }
    const OVERFLOWING: bool = false;
}

struct Shared {
    next: AtomicU64,
    log: Mutex<Vec<(usize, Ev)>>,
}

fn do_pushes<T: SpscQ>(q: &T, sh: &Shared, tid: usize, n: u8) -> bool {
    let Some(mut p) = q.producer() else { return false };
    for _ in 0..n {
        let v = sh.next.fetch_add(1, Ordering::SeqCst);
        sh.log.lock().unwrap().push((tid, Ev::PushBegin(v)));
        sched::op_begin();
        let r = T::push(&mut p, v);
        sched::op_end();
        let e = match r {
            PushRes::Rejected => Ev::PushEnd(v, false, None),
            PushRes::Accepted(ev) => Ev::PushEnd(v, true, ev),
        };
        sh.log.lock().unwrap().push((tid, e));
    }
    true
}

fn do_pops<T: SpscQ>(q: &T, sh: &Shared, tid: usize, n: u8) -> bool {
    let Some(mut c) = q.consumer() else { return false };
    for _ in 0..n {
        sh.log.lock().unwrap().push((tid, Ev::PopBegin));
        sched::op_begin();
        let r = T::pop(&mut c);
        sched::op_end();
        sh.log.lock().unwrap().push((tid, Ev::PopEnd(r)));
    }
    true
}

pub struct QOutcome {
    pub info: sched::RunInfo,
}

fn run_queue<T: SpscQ>(q: &T, c: &QCase, obs: &mut Obs) -> Result<QOutcome, Failure> {
    let sh = Shared { next: AtomicU64::new(1), log: Mutex::new(vec![]) };
    let shr = &sh;
    let info = sched::run(
        vec![
            Box::new(move || {
                do_pushes(q, shr, 0, c.k1);
                if c.m2 > 0 {
                    do_pops(q, shr, 0, c.m2);
                }
            }),
            Box::new(move || {
                do_pops(q, shr, 1, c.m1);
                if c.k2 > 0 {
                    do_pushes(q, shr, 1, c.k2);
                }
            }),
        ],
        &c.sched,
    );
    ensure!(info.panics.is_empty(), "queue.panic", "thread panicked: {:?}", info.panics);
    ensure!(!info.deadlock, "queue.deadlock", "lock-free code deadlocked");
    if info.budget_exhausted {
        obs.discarded = true;
        return Ok(QOutcome { info });
    }
    if std::env::var("C03_DEBUG").is_ok() { eprintln!("log {:?} info {:?}", sh.log.lock().unwrap(), info); }
    // quiescent drain
    let len_at_end = q.len();
    let mut remaining = vec![];
    {
        let mut cons = q.consumer().ok_or_else(|| Failure::new("queue.role_leak", "consumer role not released at the end"))?;
        while let Some(v) = T::pop(&mut cons) {
            remaining.push(v);
            ensure!(remaining.len() <= c.cap + 2, "queue.capacity", "drain yields more than capacity+1 elements");
        }
    }
    ensure!(q.producer().is_some(), "queue.role_leak", "producer role not released at the end");
    let log = sh.log.into_inner().unwrap();
    let mut pushed = vec![];
    let mut popped = vec![];
    let mut evicted = vec![];
    let mut saw_boundary = false;
    for (_, e) in &log {
        match e {
            Ev::PushEnd(v, true, ev) => {
                pushed.push(*v);
                if let Some(x) = ev {
                    evicted.push(*x);
                    saw_boundary = true;
                }
            }
            Ev::PushEnd(_, false, _) => saw_boundary = true,
            Ev::PopEnd(Some(v)) => popped.push(*v),
            Ev::PopEnd(None) => saw_boundary = true,
            _ => {}
        }
    }
    let detail = || format!("pushed {pushed:?} popped {popped:?} evicted {evicted:?} remaining {remaining:?}");
    // (1) conservation
    let mut all: Vec<u64> = popped.iter().chain(evicted.iter()).chain(remaining.iter()).cloned().collect();
    all.sort();
    let mut ps = pushed.clone();
    ps.sort();
    ensure!(all == ps, "queue.conservation", "values lost, duplicated or invented: {}", detail());
    // (2) FIFO: values are handed out in increasing order (values are numbered in push order)
    let seq: Vec<u64> = popped.iter().chain(remaining.iter()).cloned().collect();
    ensure!(seq.windows(2).all(|w| w[0] < w[1]), "queue.fifo", "consumer order differs from push order: {}", detail());
    ensure!(evicted.windows(2).all(|w| w[0] < w[1]), "queue.fifo", "evictions out of order: {}", detail());
    // (4) an evicted value is older than everything that stays
    if let (Some(e), Some(r)) = (evicted.iter().max(), remaining.iter().min()) {
        ensure!(e < r, "queue.evicts_oldest", "evicted {e} but older {r} stayed: {}", detail());
    }
    ensure!(T::OVERFLOWING || evicted.is_empty(), "queue.evicts_oldest", "non-overflowing queue evicted");
    // (5) capacity
    ensure!(remaining.len() <= c.cap && len_at_end == remaining.len(), "queue.capacity", "len {} / drained {} with capacity {}", len_at_end, remaining.len(), c.cap);
    // (3) admissibility of 'full' and 'empty' answers (sequentially consistent runs only: a
    // C11-stale read legitimately makes an answer conservative)
    if info.stale_reads == 0 {
        let mut accepted_done = 0i64; // accepted pushes that returned
        let mut removed_done = 0i64; // pops/evictions that returned
        let mut push_begun_accepted = 0i64; // accepted pushes that have begun (superset)
        let mut cur_push: [Option<(i64,)>; 2] = [None, None]; // removed_done at push begin
        let mut cur_pop: [Option<(i64,)>; 2] = [None, None]; // accepted_done at pop begin
        let _ = &mut push_begun_accepted;
        for (t, e) in &log {
            match e {
                Ev::PushBegin(_) => cur_push[*t] = Some((removed_done,)),
                Ev::PushEnd(_, ok, ev) => {
                    let (removed_at_begin,) = cur_push[*t].take().unwrap();
                    if !*ok {
                        // the largest fill level possible during the call
                        let max_fill = accepted_done - removed_at_begin;
                        ensure!(max_fill >= c.cap as i64, "queue.spurious_full", "push rejected although at most {max_fill} of {} slots could be in use: {}", c.cap, detail());
                    } else {
                        accepted_done += 1;
                        if ev.is_some() {
                            removed_done += 1;
                        }
                    }
                }
                Ev::PopBegin => cur_pop[*t] = Some((accepted_done,)),
                Ev::PopEnd(r) => {
                    let (accepted_at_begin,) = cur_pop[*t].take().unwrap();
                    match r {
                        None => {
                            // the smallest fill level possible during the call
                            let min_fill = accepted_at_begin - removed_done;
                            ensure!(min_fill <= 0, "queue.spurious_empty", "pop returned None although at least {min_fill} elements were in the queue throughout: {}", detail());
                        }
                        Some(_) => removed_done += 1,
                    }
                }
            }
        }
    }
    obs.nontrivial = info.preempt_inside && saw_boundary;
    if info.preempt_inside {
        obs.class("preempted_inside_op");
    }
    if !evicted.is_empty() {
        obs.class("with_eviction");
    }
    if info.stale_reads > 0 {
        obs.class("with_stale_read");
    }
    if c.k2 > 0 || c.m2 > 0 {
        obs.class("with_handover");
    }
    Ok(QOutcome { info })
}

macro_rules! with_generic_queue {
    ($cap:expr, $q:ident, $body:block) => {
        match $cap {
            1 => { let $q = Queue::<u64, 1>::new(); $body }
            2 => { let $q = Queue::<u64, 2>::new(); $body }
            3 => { let $q = Queue::<u64, 3>::new(); $body }
            _ => { let $q = Queue::<u64, 4>::new(); $body }
        }
    };
}

pub fn run_qcase(c: &QCase, obs: &mut Obs) -> Result<QOutcome, Failure> {
    match c.kind {
        0 => run_queue(&OwnIq::new(c.cap), c, obs),
        1 => run_queue(&OwnOq::new(c.cap), c, obs),
        _ => with_generic_queue!(c.cap, q, { run_queue(&q, c, obs) }),
    }
}

fn qcase_shrinks(c: &QCase) -> Vec<QCase> {
    let mut out = vec![];
    for s in sched::shrink_schedule(&c.sched) {
        out.push(QCase { sched: s, ..c.clone() });
    }
    for (f, v) in [(0, c.k1), (1, c.m1), (2, c.k2), (3, c.m2)] {
        if v > 0 {
            let mut n = c.clone();
            match f {
                0 => n.k1 -= 1,
                1 => n.m1 -= 1,
                2 => n.k2 -= 1,
                _ => n.m2 -= 1,
            }
            out.push(n);
        }
    }
    out
}

/// runs a case; on failure shrinks it and files the violation
fn exec_qcase(ctx: &mut Ctx, part: &str, key: u64, c: &QCase) -> bool {
    let mut obs = Obs::default();
    let r = Ctx::guarded(|| run_qcase(c, &mut obs).map(|_| ()));
    ctx.record(part, key, &obs, || serde_json::to_value(c).unwrap());
    if let Err(f) = r {
        if ctx.is_open_finding(&f.signature) {
            ctx.violation(part, &f, serde_json::to_value(c).unwrap());
            return true;
        }
        let sig = f.signature.clone();
        let min = vcore::shrink::greedy(
            c.clone(),
            qcase_shrinks,
            |cand| matches!(Ctx::guarded(|| run_qcase(cand, &mut Obs::default()).map(|_| ())), Err(ff) if ff.signature == sig),
            400,
        );
        let fin = Ctx::guarded(|| run_qcase(&min, &mut Obs::default()).map(|_| ())).err().unwrap_or(f);
        ctx.violation(part, &fin, serde_json::to_value(&min).unwrap());
        return false;
    }
    true
}

fn queue_parts(ctx: &mut Ctx) {
    // replay
    for part in ["queue.exhaustive", "queue.random", "queue.weak"] {
        if let Some(c) = ctx.replay_case::<QCase>(part) {
            exec_qcase(ctx, part, 0, &c);
            return;
        }
    }
    if ctx.replay.is_some() {
        return;
    }
    // ---- exhaustive core: all preemption lists up to the bound for the small programs ----
    if ctx.part_enabled("queue.exhaustive") {
        let bound = ctx.scale(2, 3);
        let kmax = ctx.scale(3u8, 4u8);
        let mut i = 0u64;
        let mut ok = true;
        'outer: for kind in 0..3u8 {
            for cap in 1..=2usize {
                for k1 in 1..=kmax {
                    for m1 in 1..=kmax {
                        for handover in 0..2u8 {
                            i += 1;
                            if !ctx.mine(i) {
                                continue;
                            }
                            let (k2, m2) = if handover == 1 { (1, 1) } else { (0, 0) };
                            let base = QCase { kind, cap, k1, m1, k2, m2, sched: Schedule::default() };
                            let mut o = Obs::default();
                            let y = match run_qcase(&base, &mut o) {
                                Ok(out) => out.info.yields,
                                Err(_) => {
                                    ok &= exec_qcase(ctx, "queue.exhaustive", vcore::rng::hash_str(&format!("{base:?}")), &base);
                                    break 'outer;
                                }
                            };
                            for l in sched::enumerate_preemptions(y + 4, 1, bound) {
                                let c = QCase { sched: Schedule { preempt: l.iter().map(|(a, _)| (*a, OTHER as u8)).collect(), ..Default::default() }, ..base.clone() };
                                if !exec_qcase(ctx, "queue.exhaustive", vcore::rng::hash_str(&format!("{c:?}")), &c) {
                                    ok = false;
                                    break 'outer;
                                }
                            }
                        }
                    }
                }
            }
        }
        if ok {
            ctx.mark_exhaustive(format!("queue.exhaustive: all preemption lists with <= {bound} preemptions for every program with k,m <= {kmax} (with and without role hand-over), capacities 1..2, three queue types"));
        }
    }
    // ---- random: larger programs, up to 3 (5) preemptions, PCT-style positions ----
    for (part, weak) in [("queue.random", false), ("queue.weak", true)] {
        if !ctx.part_enabled(part) {
            continue;
        }
        let total = if weak { ctx.scale(100_000u64, 1_000_000) } else { ctx.scale(300_000u64, 3_000_000) };
        let n = ctx.share(total);
        let mut rng = ctx.rng(part);
        let maxp = ctx.scale(3, 5);
        for _ in 0..n {
            let kind = rng.below(3) as u8;
            let cap = rng.range(1, 4) as usize;
            let k1 = rng.range(1, 6) as u8;
            let m1 = rng.range(1, 8) as u8;
            let (k2, m2) = if rng.chance(1, 3) { (rng.range(0, 3) as u8, rng.range(0, 3) as u8) } else { (0, 0) };
            // number of yield points is roughly 4 per op; draw change points over a generous range
            let est = 6 + 5 * (k1 as u32 + m1 as u32 + k2 as u32 + m2 as u32);
            let np = rng.range(1, maxp) as usize;
            let preempt = sched::random_preemptions(&mut rng, est, 1, np).into_iter().map(|(y, _)| (y, OTHER as u8)).collect();
            let stale = if weak { (0..rng.range(1, 12)).map(|_| if rng.chance(1, 2) { rng.range(1, 3) as u8 } else { 0 }).collect() } else { vec![] };
            let c = QCase { kind, cap, k1, m1, k2, m2, sched: Schedule { preempt, stale, weak } };
            if !exec_qcase(ctx, part, vcore::rng::hash_str(&format!("{c:?}")), &c) {
                break;
            }
        }
    }
}

fn body(ctx: &mut Ctx) {
    iceoryx2_log::set_log_level(iceoryx2_log::LogLevel::Fatal);
    sched::install();
    ctx.pin_to_one_cpu();
    queue_parts(ctx);
    conn::conn_parts(ctx);
}

fn main() {
    vcore::main(SPEC, body);
}
