//! zero_copy_connection part of C03 (sender / receiver over process_local storage).
//!
//! One sender thread and one receiver thread work on a connection that the main thread creates
//! before and drops after the scheduled run (registered threads never touch the storage mutex).
//! A case is a *script*: a reference interleaving of sender and receiver operations. Each entry
//! may carry a wait flag ("do not start before the operations of the other thread that precede
//! me in the script are complete"); waits are harness-side `block_until`s, always satisfiable
//! (the script order itself satisfies them), and let few preemptions reach deep states.
//!
//! Sender contract used (what `iceoryx2::port::details::sender` does): before every `try_send`
//! the completion queue of that channel is drained (`reclaim` until `None`); offsets in flight
//! are distinct; `acquire_used_offsets` only after the receiver is gone and no send follows.
//! Receiver contract: releases only what it borrowed, once.
use iceoryx2_cal::named_concept::*;
use iceoryx2_cal::shm_allocator::{PointerOffset, SegmentId};
use iceoryx2_cal::zero_copy_connection::*;
use serde::{Deserialize, Serialize};
use std::sync::Mutex;
use std::sync::atomic::{AtomicBool, AtomicU32, Ordering};
use vcore::sched::{self, OTHER, Schedule};
use vcore::{Ctx, Failure, Obs, ensure};

type Conn = iceoryx2_cal::zero_copy_connection::process_local::Connection;
type Snd = <Conn as ZeroCopyConnection>::Sender;
type Rcv = <Conn as ZeroCopyConnection>::Receiver;

const SAMPLE: usize = 8;
const NSAMPLES: usize = 64;

#[derive(Clone, Copy, Debug, Serialize, Deserialize, Hash, PartialEq, Eq)]
pub enum COp {
    /// drain the completion queue of the channel, then try_send a fresh offset
    Send(u8),
    /// one reclaim
    Reclaim(u8),
    Recv(u8),
    /// release the k-th oldest borrowed offset of the channel (clamped), nothing if none is held
    Release(u8, u8),
}

#[derive(Clone, Copy, Debug, Serialize, Deserialize, Hash, PartialEq, Eq)]
pub struct Entry {
    /// 0 sender thread, 1 receiver thread
    pub t: u8,
    pub op: COp,
    /// start only after all entries of the other thread that precede this one are complete
    pub wait: bool,
}

#[derive(Clone, Debug, Serialize, Deserialize, Hash)]
pub struct CCase {
    pub buffer: u8,
    pub borrow: u8,
    pub overflow: bool,
    pub channels: u8,
    pub segments: u8,
    pub script: Vec<Entry>,
    /// final phase: reclaim everything that was released before `acquire_used_offsets`
    pub final_reclaim: bool,
    pub sched: Schedule,
}

#[derive(Clone, Debug, PartialEq)]
enum Ev {
    SendBegin(u64, u8),
    /// value, channel, 0 = Ok(None), 1 = Ok(Some(evicted)), 2 = ReceiveBufferFull, 3 = other error
    SendEnd(u64, u8, u8, Option<u64>, String),
    ReclaimBegin(u8),
    ReclaimEnd(u8, Result<Option<u64>, String>),
    RecvBegin(u8),
    /// Ok(Some) | Ok(None) | Err(exceeds max borrow)
    RecvEnd(u8, Result<Option<u64>, ()>, usize),
    RelBegin(u64, u8),
    RelEnd(u64, u8, bool),
}

struct SyncRef<T>(*const T);
unsafe impl<T> Send for SyncRef<T> {}
unsafe impl<T> Sync for SyncRef<T> {}
impl<T> SyncRef<T> {
    fn get(&self) -> &T {
        unsafe { &*self.0 }
    }
}

struct Sh {
    log: Mutex<Vec<Ev>>,
    done: [AtomicU32; 2],
    finished: [AtomicBool; 2],
}

fn val_of(p: PointerOffset) -> u64 {
    // value = sample index * segments + segment id is what was sent; recover it from the offset
    ((p.offset() / SAMPLE) as u64) << 8 | p.segment_id().value() as u64
}

fn ptr_of(v: u64, segments: u8) -> PointerOffset {
    PointerOffset::from_offset_and_segment_id(v as usize * SAMPLE, SegmentId::new((v % segments as u64) as u8))
}

fn key_of(v: u64, segments: u8) -> u64 {
    v << 8 | (v % segments as u64)
}

fn wait_for(sh: &Sh, other: usize, n: u32) {
    if n == 0 {
        return;
    }
    sched::block_until(&|| sh.done[other].load(Ordering::SeqCst) >= n || sh.finished[other].load(Ordering::SeqCst));
}

fn sender_thread(s: &Snd, sh: &Sh, prog: &[(COp, u32)], segments: u8) {
    let mut next = 1u64;
    for (op, w) in prog {
        wait_for(sh, 1, *w);
        match *op {
            COp::Send(ch) => {
                let id = ChannelId::new(ch as usize);
                loop {
                    sh.log.lock().unwrap().push(Ev::ReclaimBegin(ch));
                    sched::op_begin();
                    let r = s.reclaim(id);
                    sched::op_end();
                    let r = r.map(|o| o.map(val_of)).map_err(|e| format!("{e:?}"));
                    let stop = !matches!(r, Ok(Some(_)));
                    sh.log.lock().unwrap().push(Ev::ReclaimEnd(ch, r));
                    if stop {
                        break;
                    }
                }
                let v = next;
                next += 1;
                sh.log.lock().unwrap().push(Ev::SendBegin(key_of(v, segments), ch));
                sched::op_begin();
                let r = s.try_send(ptr_of(v, segments), SAMPLE, id);
                sched::op_end();
                let e = match r {
                    Ok(None) => Ev::SendEnd(key_of(v, segments), ch, 0, None, String::new()),
                    Ok(Some(x)) => Ev::SendEnd(key_of(v, segments), ch, 1, Some(val_of(x)), String::new()),
                    Err(ZeroCopySendError::ReceiveBufferFull) => Ev::SendEnd(key_of(v, segments), ch, 2, None, String::new()),
                    Err(e) => Ev::SendEnd(key_of(v, segments), ch, 3, None, format!("{e:?}")),
                };
                sh.log.lock().unwrap().push(e);
            }
            COp::Reclaim(ch) => {
                sh.log.lock().unwrap().push(Ev::ReclaimBegin(ch));
                sched::op_begin();
                let r = s.reclaim(ChannelId::new(ch as usize));
                sched::op_end();
                sh.log.lock().unwrap().push(Ev::ReclaimEnd(ch, r.map(|o| o.map(val_of)).map_err(|e| format!("{e:?}"))));
            }
            _ => {}
        }
        sh.done[0].fetch_add(1, Ordering::SeqCst);
    }
    sh.finished[0].store(true, Ordering::SeqCst);
}

fn receiver_thread(r: &Rcv, sh: &Sh, prog: &[(COp, u32)], held: &Mutex<Vec<Vec<PointerOffset>>>) {
    for (op, w) in prog {
        wait_for(sh, 0, *w);
        match *op {
            COp::Recv(ch) => {
                let id = ChannelId::new(ch as usize);
                sh.log.lock().unwrap().push(Ev::RecvBegin(ch));
                sched::op_begin();
                let x = r.receive(id);
                sched::op_end();
                let n_held = held.lock().unwrap()[ch as usize].len();
                let e = match x {
                    Ok(Some(p)) => {
                        held.lock().unwrap()[ch as usize].push(p);
                        Ok(Some(val_of(p)))
                    }
                    Ok(None) => Ok(None),
                    Err(ZeroCopyReceiveError::ReceiveWouldExceedMaxBorrowValue) => Err(()),
                };
                sh.log.lock().unwrap().push(Ev::RecvEnd(ch, e, n_held));
            }
            COp::Release(ch, k) => {
                let p = {
                    let mut h = held.lock().unwrap();
                    let l = &mut h[ch as usize];
                    if l.is_empty() { None } else { Some(l.remove((k as usize).min(l.len() - 1))) }
                };
                if let Some(p) = p {
                    sh.log.lock().unwrap().push(Ev::RelBegin(val_of(p), ch));
                    sched::op_begin();
                    let x = r.release(p, ChannelId::new(ch as usize));
                    sched::op_end();
                    sh.log.lock().unwrap().push(Ev::RelEnd(val_of(p), ch, x.is_ok()));
                }
            }
            _ => {}
        }
        sh.done[1].fetch_add(1, Ordering::SeqCst);
    }
    sh.finished[1].store(true, Ordering::SeqCst);
}

/// derives the two per-thread programs (operation, number of operations of the other thread
/// that must be complete before it starts)
fn programs(c: &CCase) -> [Vec<(COp, u32)>; 2] {
    let mut out = [vec![], vec![]];
    let mut cnt = [0u32; 2];
    for e in &c.script {
        let t = (e.t & 1) as usize;
        let legal = match e.op {
            COp::Send(ch) | COp::Reclaim(ch) => t == 0 && ch < c.channels,
            COp::Recv(ch) | COp::Release(ch, _) => t == 1 && ch < c.channels,
        };
        if !legal {
            continue;
        }
        out[t].push((e.op, if e.wait { cnt[1 - t] } else { 0 }));
        cnt[t] += 1;
    }
    out
}

fn conn_name() -> FileName {
    FileName::new(format!("c03conn{}", std::process::id()).as_bytes()).unwrap()
}

pub fn run_ccase(c: &CCase, obs: &mut Obs) -> Result<sched::RunInfo, Failure> {
    let name = conn_name();
    let cfg = <Conn as NamedConceptMgmt>::Configuration::default();
    let mk = || {
        <Conn as ZeroCopyConnection>::Builder::new(&name)
            .config(&cfg)
            .buffer_size(c.buffer as usize)
            .receiver_max_borrowed_chunks_per_channel(c.borrow as usize)
            .enable_safe_overflow(c.overflow)
            .number_of_chunks_per_segment(NSAMPLES)
            .max_supported_shared_memory_segments(c.segments)
            .number_of_channels(c.channels as usize)
    };
    let sender = mk().create_sender().map_err(|e| Failure::new("conn.setup", format!("create_sender: {e:?}")))?;
    let receiver = mk().create_receiver().map_err(|e| Failure::new("conn.setup", format!("create_receiver: {e:?}")))?;
    let progs = programs(c);
    let sh = Sh { log: Mutex::new(vec![]), done: [AtomicU32::new(0), AtomicU32::new(0)], finished: [AtomicBool::new(false), AtomicBool::new(false)] };
    let held: Mutex<Vec<Vec<PointerOffset>>> = Mutex::new(vec![vec![]; c.channels as usize]);
    let info = {
        let (sr, rr) = (SyncRef(&sender as *const Snd), SyncRef(&receiver as *const Rcv));
        let (shr, heldr, p0, p1, segs) = (&sh, &held, &progs[0], &progs[1], c.segments);
        sched::run(
            vec![
                Box::new(move || sender_thread(sr.get(), shr, p0, segs)),
                Box::new(move || receiver_thread(rr.get(), shr, p1, heldr)),
            ],
            &c.sched,
        )
    };
    ensure!(info.panics.is_empty(), "conn.panic", "thread panicked: {:?}", info.panics);
    ensure!(!info.deadlock, "conn.deadlock", "deadlock (blocked {:?})", info.blocked);
    if info.budget_exhausted {
        obs.discarded = true;
        return Ok(info);
    }
    let mut log = sh.log.into_inner().unwrap();
    let mut held = held.into_inner().unwrap();
    let concurrent_len = log.len();
    // failures that make the final phase meaningless are reported at once
    for e in &log {
        match e {
            Ev::RelEnd(v, _, false) => return Err(Failure::new("conn.release_full", format!("release of {v} failed (retrieve buffer full) with buffer {} max borrow {}: log {:?}", c.buffer, c.borrow, log))),
            Ev::SendEnd(v, _, 3, _, err) => return Err(Failure::new("conn.send_error", format!("try_send of {v} failed with {err}: log {:?}", log))),
            Ev::ReclaimEnd(_, Err(e)) => return Err(Failure::new("conn.reclaim", format!("reclaim failed with {e}: log {:?}", log))),
            _ => {}
        }
    }
    // ---- final phase (single-threaded): drain the submission queues -----------------------
    let mut remaining: Vec<Vec<u64>> = vec![vec![]; c.channels as usize];
    for ch in 0..c.channels {
        let id = ChannelId::new(ch as usize);
        let mut guard = 0;
        loop {
            guard += 1;
            ensure!(guard < 200, "conn.capacity", "the final drain of channel {ch} does not terminate");
            log.push(Ev::RecvBegin(ch));
            let n_held = held[ch as usize].len();
            match receiver.receive(id) {
                Ok(Some(p)) => {
                    log.push(Ev::RecvEnd(ch, Ok(Some(val_of(p))), n_held));
                    remaining[ch as usize].push(val_of(p));
                    held[ch as usize].push(p);
                }
                Ok(None) => {
                    log.push(Ev::RecvEnd(ch, Ok(None), n_held));
                    break;
                }
                Err(ZeroCopyReceiveError::ReceiveWouldExceedMaxBorrowValue) => {
                    ensure!(held[ch as usize].len() == c.borrow as usize, "conn.borrow_limit", "receive refused with {} of {} borrowed", held[ch as usize].len(), c.borrow);
                    let p = held[ch as usize].remove(0);
                    log.push(Ev::RelBegin(val_of(p), ch));
                    let ok = receiver.release(p, id).is_ok();
                    log.push(Ev::RelEnd(val_of(p), ch, ok));
                    ensure!(ok, "conn.release_full", "release of {} failed (retrieve buffer full) in the final drain with buffer {} max borrow {}: log {:?}", val_of(p), c.buffer, c.borrow, log);
                    // the sender keeps its side of the contract in the final phase too
                    loop {
                        log.push(Ev::ReclaimBegin(ch));
                        let r = sender.reclaim(id).map(|o| o.map(val_of)).map_err(|e| format!("{e:?}"));
                        let stop = !matches!(r, Ok(Some(_)));
                        log.push(Ev::ReclaimEnd(ch, r));
                        if stop {
                            break;
                        }
                    }
                }
            }
        }
        ensure!(remaining[ch as usize].len() <= c.buffer as usize, "conn.capacity", "channel {ch}: {} offsets drained from a buffer of {}", remaining[ch as usize].len(), c.buffer);
    }
    if c.final_reclaim {
        for ch in 0..c.channels {
            loop {
                log.push(Ev::ReclaimBegin(ch));
                let r = sender.reclaim(ChannelId::new(ch as usize)).map(|o| o.map(val_of)).map_err(|e| format!("{e:?}"));
                let stop = !matches!(r, Ok(Some(_)));
                log.push(Ev::ReclaimEnd(ch, r));
                if stop {
                    break;
                }
            }
        }
    }
    // the receiver goes away with whatever it still borrows; then the sender takes stock
    drop(receiver);
    let mut acquired: Vec<u64> = vec![];
    unsafe { sender.acquire_used_offsets(|p| acquired.push(val_of(p))) };
    let mut second: Vec<u64> = vec![];
    unsafe { sender.acquire_used_offsets(|p| second.push(val_of(p))) };
    drop(sender);
    ensure!(second.is_empty(), "conn.used_offsets", "a second acquire_used_offsets yields {second:?} again");
    ensure!(matches!(Conn::does_exist_cfg(&name, &cfg), Ok(false)), "conn.setup", "connection still exists after both ports were dropped");

    // ---- oracle ---------------------------------------------------------------------------
    let nch = c.channels as usize;
    let mut accepted: Vec<Vec<u64>> = vec![vec![]; nch];
    let mut evicted: Vec<Vec<u64>> = vec![vec![]; nch];
    let mut received: Vec<Vec<u64>> = vec![vec![]; nch];
    let mut released: Vec<Vec<u64>> = vec![vec![]; nch];
    let mut reclaimed: Vec<Vec<u64>> = vec![vec![]; nch];
    let mut send_begun: Vec<u64> = vec![];
    let mut rel_begun: Vec<u64> = vec![];
    let mut boundary = false;
    let detail = |l: &Vec<Ev>| format!("log {:?}", l);
    // interval bookkeeping for full / empty admissibility (sequentially consistent runs only)
    let mut acc_done = vec![0i64; nch];
    let mut removed_done = vec![0i64; nch];
    let mut recv_at_send_begin = vec![0i64; nch];
    let mut acc_at_recv_begin = vec![0i64; nch];
    for (i, e) in log.iter().enumerate() {
        match e {
            Ev::SendBegin(v, ch) => {
                send_begun.push(*v);
                recv_at_send_begin[*ch as usize] = removed_done[*ch as usize];
            }
            Ev::SendEnd(v, ch, kind, ev, err) => {
                let ch = *ch as usize;
                match kind {
                    0 | 1 => {
                        accepted[ch].push(*v);
                        acc_done[ch] += 1;
                        if let Some(x) = ev {
                            ensure!(c.overflow, "conn.evicts_oldest", "non-overflowing connection evicted {x}: {}", detail(&log));
                            evicted[ch].push(*x);
                            removed_done[ch] += 1;
                            boundary = true;
                        }
                    }
                    2 => {
                        boundary = true;
                        ensure!(!c.overflow, "conn.spurious_full", "overflowing connection refused a send: {}", detail(&log));
                        if info.stale_reads == 0 {
                            let max_fill = acc_done[ch] - recv_at_send_begin[ch];
                            ensure!(max_fill >= c.buffer as i64, "conn.spurious_full", "try_send of {v} refused although at most {max_fill} of {} slots could be in use: {}", c.buffer, detail(&log));
                        }
                    }
                    _ => return Err(Failure::new("conn.send_error", format!("try_send of {v} failed with {err}: {}", detail(&log)))),
                }
            }
            Ev::ReclaimBegin(_) => {}
            Ev::ReclaimEnd(ch, r) => match r {
                Ok(Some(v)) => {
                    ensure!(rel_begun.contains(v), "conn.reclaim", "reclaim yields {v} which was not released: {}", detail(&log));
                    ensure!(!reclaimed[*ch as usize].contains(v), "conn.reclaim", "reclaim yields {v} twice: {}", detail(&log));
                    reclaimed[*ch as usize].push(*v);
                }
                Ok(None) => {}
                Err(e) => return Err(Failure::new("conn.reclaim", format!("reclaim failed with {e}: {}", detail(&log)))),
            },
            Ev::RecvBegin(ch) => acc_at_recv_begin[*ch as usize] = acc_done[*ch as usize],
            Ev::RecvEnd(ch, r, n_held) => {
                let chi = *ch as usize;
                match r {
                    Ok(Some(v)) => {
                        ensure!(send_begun.contains(v), "conn.conservation", "received {v} which was never sent: {}", detail(&log));
                        ensure!(!received.iter().any(|l| l.contains(v)), "conn.conservation", "received {v} twice: {}", detail(&log));
                        ensure!(*n_held < c.borrow as usize, "conn.borrow_limit", "receive handed out a sample with {n_held} of {} already borrowed", c.borrow);
                        received[chi].push(*v);
                        removed_done[chi] += 1;
                    }
                    Ok(None) => {
                        boundary = true;
                        if info.stale_reads == 0 && i < concurrent_len {
                            let min_fill = acc_at_recv_begin[chi] - removed_done[chi];
                            ensure!(min_fill <= 0, "conn.spurious_empty", "receive returned None although at least {min_fill} offsets were in the buffer throughout: {}", detail(&log));
                        }
                    }
                    Err(()) => {
                        boundary = true;
                        ensure!(*n_held == c.borrow as usize, "conn.borrow_limit", "receive refused with {n_held} of {} borrowed", c.borrow);
                    }
                }
            }
            Ev::RelBegin(v, _) => rel_begun.push(*v),
            Ev::RelEnd(v, ch, ok) => {
                ensure!(*ok, "conn.release_full", "release of {v} failed (retrieve buffer full) with buffer {} max borrow {}: {}", c.buffer, c.borrow, detail(&log));
                released[*ch as usize].push(*v);
            }
        }
    }
    let mut expect_used: Vec<u64> = vec![];
    for ch in 0..nch {
        let d = || format!("channel {ch}: accepted {:?} received {:?} remaining {:?} evicted {:?} released {:?} reclaimed {:?} acquired {:?}", accepted[ch], received[ch], remaining[ch], evicted[ch], released[ch], reclaimed[ch], acquired);
        // conservation: everything accepted was received (during the run or in the final drain -
        // the drain is logged too, so `received` holds both) or handed back as evicted
        let mut all: Vec<u64> = received[ch].iter().chain(evicted[ch].iter()).cloned().collect();
        all.sort();
        let mut acc = accepted[ch].clone();
        acc.sort();
        ensure!(all == acc, "conn.conservation", "offsets lost, duplicated or invented: {}", d());
        // FIFO per channel (values are numbered in send order)
        ensure!(received[ch].windows(2).all(|w| w[0] < w[1]), "conn.fifo", "receive order differs from send order: {}", d());
        ensure!(evicted[ch].windows(2).all(|w| w[0] < w[1]), "conn.fifo", "evictions out of order: {}", d());
        // an evicted offset is older than everything received after it was evicted: since both
        // sequences are increasing it suffices that no offset older than an evicted one is
        // received *after* the eviction - checked through the global order below
        // completion queue is a FIFO as well and hands back each released offset once
        ensure!(reclaimed[ch].len() <= released[ch].len() && reclaimed[ch][..] == released[ch][..reclaimed[ch].len()], "conn.reclaim", "reclaim order differs from release order: {}", d());
        if c.final_reclaim {
            ensure!(reclaimed[ch] == released[ch], "conn.reclaim", "released offsets were not handed back: {}", d());
        }
        for v in &accepted[ch] {
            if !evicted[ch].contains(v) && !reclaimed[ch].contains(v) {
                expect_used.push(*v);
            }
        }
    }
    // eviction takes the oldest: at the moment an offset is evicted nothing older may still be
    // received later
    for ch in 0..nch {
        let mut evicted_so_far: Vec<u64> = vec![];
        for e in &log {
            match e {
                Ev::SendEnd(_, c2, 1, Some(x), _) if *c2 as usize == ch => evicted_so_far.push(*x),
                Ev::RecvEnd(c2, Ok(Some(v)), _) if *c2 as usize == ch => {
                    if let Some(m) = evicted_so_far.iter().max() {
                        ensure!(v > m, "conn.evicts_oldest", "channel {ch}: {v} received after the younger {m} was evicted: {}", detail(&log));
                    }
                }
                _ => {}
            }
        }
    }
    expect_used.sort();
    acquired.sort();
    ensure!(acquired == expect_used, "conn.used_offsets", "acquire_used_offsets yields {acquired:?}, offsets not yet handed back are {expect_used:?}: {}", detail(&log));

    obs.nontrivial = info.preempt_inside && boundary;
    if info.preempt_inside {
        obs.class("conn_preempted_inside_op");
    }
    if evicted.iter().any(|l| !l.is_empty()) {
        obs.class("conn_with_eviction");
    }
    if log.iter().any(|e| matches!(e, Ev::RecvEnd(_, Err(()), _))) {
        obs.class("conn_borrow_limit_hit");
    }
    if log[..concurrent_len].iter().any(|e| matches!(e, Ev::ReclaimEnd(_, Ok(Some(_))))) {
        obs.class("conn_reclaimed_concurrently");
    }
    if info.stale_reads > 0 {
        obs.class("conn_with_stale_read");
    }
    if !expect_used.is_empty() {
        obs.class("conn_used_offsets_nonempty");
    }
    let peak = released.iter().zip(reclaimed.iter()).map(|(a, b)| a.len() as i64 - b.len() as i64).max().unwrap_or(0);
    let _ = peak;
    Ok(info)
}

fn ccase_shrinks(c: &CCase) -> Vec<CCase> {
    let mut out = vec![];
    for s in sched::shrink_schedule(&c.sched) {
        out.push(CCase { sched: s, ..c.clone() });
    }
    for i in (0..c.script.len()).rev() {
        let mut n = c.clone();
        n.script.remove(i);
        out.push(n);
    }
    for i in 0..c.script.len() {
        if c.script[i].wait {
            let mut n = c.clone();
            n.script[i].wait = false;
            out.push(n);
        }
    }
    if c.channels > 1 {
        out.push(CCase { channels: c.channels - 1, ..c.clone() });
    }
    if c.segments > 1 {
        out.push(CCase { segments: 1, ..c.clone() });
    }
    out
}

fn exec_ccase(ctx: &mut Ctx, part: &str, c: &CCase) -> bool {
    let key = vcore::rng::hash_str(&format!("{c:?}"));
    let mut obs = Obs::default();
    let r = Ctx::guarded(|| run_ccase(c, &mut obs).map(|_| ()));
    ctx.record(part, key, &obs, || serde_json::to_value(c).unwrap());
    if let Err(f) = r {
        if ctx.is_open_finding(&f.signature) {
            ctx.violation(part, &f, serde_json::to_value(c).unwrap());
            return true;
        }
        let sig = f.signature.clone();
        let min = vcore::shrink::greedy(
            c.clone(),
            ccase_shrinks,
            |cand| matches!(Ctx::guarded(|| run_ccase(cand, &mut Obs::default()).map(|_| ())), Err(ff) if ff.signature == sig),
            400,
        );
        let fin = Ctx::guarded(|| run_ccase(&min, &mut Obs::default()).map(|_| ())).err().unwrap_or(f);
        ctx.violation(part, &fin, serde_json::to_value(&min).unwrap());
        return false;
    }
    true
}

/// all merges of `a` (thread 0) and `b` (thread 1) that keep the order inside each list
fn merges(a: &[COp], b: &[COp]) -> Vec<Vec<(u8, COp)>> {
    if a.is_empty() {
        return vec![b.iter().map(|o| (1u8, *o)).collect()];
    }
    if b.is_empty() {
        return vec![a.iter().map(|o| (0u8, *o)).collect()];
    }
    let mut out = vec![];
    for mut m in merges(&a[1..], b) {
        m.insert(0, (0, a[0]));
        out.push(m);
    }
    for mut m in merges(a, &b[1..]) {
        m.insert(0, (1, b[0]));
        out.push(m);
    }
    out
}

/// the small programs of the exhaustive part: k sends against m (receive, release) pairs,
/// every merge order as reference interleaving, wait flags none / all / receiver only /
/// sender only (duplicates of derived programs removed)
fn small_scripts(k: usize, m: usize, modes: &[u8]) -> Vec<Vec<Entry>> {
    let a: Vec<COp> = (0..k).map(|_| COp::Send(0)).collect();
    let b: Vec<COp> = (0..m).flat_map(|_| [COp::Recv(0), COp::Release(0, 0)]).collect();
    let mut seen = std::collections::BTreeSet::new();
    let mut out = vec![];
    for mg in merges(&a, &b) {
        for mode in modes.iter().copied() {
            let script: Vec<Entry> = mg
                .iter()
                .map(|(t, op)| Entry { t: *t, op: *op, wait: match mode { 0 => false, 1 => true, 2 => *t == 1, _ => *t == 0 } })
                .collect();
            let probe = CCase { buffer: 1, borrow: 1, overflow: false, channels: 1, segments: 1, script: script.clone(), final_reclaim: false, sched: Schedule::default() };
            if seen.insert(format!("{:?}", programs(&probe))) {
                out.push(script);
            }
        }
    }
    out
}

fn random_script(rng: &mut vcore::rng::SplitMix, channels: u8, max_len: u64) -> Vec<Entry> {
    let n = rng.range(2, max_len);
    let mut v = vec![];
    let mut t = 0u8;
    for _ in 0..n {
        // runs of the same thread with switches in between
        if rng.chance(2, 5) {
            t = 1 - t;
        }
        let ch = rng.below(channels as u64) as u8;
        let op = if t == 0 {
            if rng.chance(5, 6) { COp::Send(ch) } else { COp::Reclaim(ch) }
        } else if rng.chance(1, 2) {
            COp::Recv(ch)
        } else {
            COp::Release(ch, if rng.chance(3, 4) { 0 } else { rng.below(3) as u8 })
        };
        v.push(Entry { t, op, wait: rng.chance(1, 2) });
    }
    v
}

pub fn conn_parts(ctx: &mut Ctx) {
    for part in ["conn.exhaustive", "conn.random", "conn.weak"] {
        if let Some(c) = ctx.replay_case::<CCase>(part) {
            exec_ccase(ctx, part, &c);
            return;
        }
    }
    if ctx.replay.is_some() {
        return;
    }
    if ctx.part_enabled("conn.exhaustive") {
        let bound = ctx.scale(2, 3);
        let mut i = 0u64;
        let mut ok = true;
        // (k, m, full parameter grid?)
        // (k, m, parameter grid: 2 = full, 3 = four of the eight combinations, 1 = buffer 1 / max-borrow 1 with and without overflow,
        // 0 = buffer 1 / max-borrow 1 without overflow; wait-flag modes)
        let shapes: Vec<(usize, usize, u8, &[u8])> = if ctx.quick() {
            vec![(1, 1, 2, &[0, 1, 2, 3]), (2, 1, 2, &[0, 1, 2, 3]), (1, 2, 2, &[0, 1, 2, 3]), (2, 2, 3, &[0, 1, 2, 3]), (3, 3, 0, &[0, 2])]
        } else {
            vec![(1, 1, 2, &[0, 1, 2, 3]), (2, 1, 2, &[0, 1, 2, 3]), (1, 2, 2, &[0, 1, 2, 3]), (2, 2, 2, &[0, 1, 2, 3]), (3, 2, 1, &[0, 1, 2, 3]), (2, 3, 1, &[0, 1, 2, 3]), (3, 3, 1, &[0, 1, 2, 3])]
        };
        let count_only = std::env::var("C03_CONN_COUNT").is_ok();
        let mut counts: Vec<(usize, usize, u64, u64)> = vec![];
        'outer: for (k, m, grid, modes) in shapes {
            let params: Vec<(u8, u8, bool)> = match grid {
                2 => vec![(1, 1, false), (1, 1, true), (2, 1, false), (2, 1, true), (1, 2, false), (1, 2, true), (2, 2, false), (2, 2, true)],
                1 => vec![(1, 1, false), (1, 1, true)],
                3 => vec![(1, 1, false), (1, 1, true), (2, 1, false), (1, 2, true)],
                _ => vec![(1, 1, false)],
            };
            counts.push((k, m, 0, 0));
            for script in small_scripts(k, m, modes) {
                for (buffer, borrow, overflow) in &params {
                    i += 1;
                    if !ctx.mine(i) && !count_only {
                        continue;
                    }
                    let base = CCase { buffer: *buffer, borrow: *borrow, overflow: *overflow, channels: 1, segments: 1, script: script.clone(), final_reclaim: vcore::rng::mix(i, 77) & 1 == 0, sched: Schedule::default() };
                    let y = match run_ccase(&base, &mut Obs::default()) {
                        Ok(info) => info.yields,
                        Err(_) => {
                            ok &= exec_ccase(ctx, "conn.exhaustive", &base);
                            break 'outer;
                        }
                    };
                    // thorough: three preemptions only for the programs with at most 45 yield points
                    let b = if bound == 3 && y > 45 { 2 } else { bound };
                    if count_only {
                        let n = (y + 2) as u64;
                        let c = counts.last_mut().unwrap();
                        c.2 += 1;
                        c.3 += 1 + n + n * (n - 1) / 2 + if b == 3 { n * (n - 1) * (n - 2) / 6 } else { 0 };
                        continue;
                    }
                    for l in sched::enumerate_preemptions(y + 2, 1, b) {
                        let c = CCase { sched: Schedule { preempt: l.iter().map(|(a, _)| (*a, OTHER as u8)).collect(), ..Default::default() }, ..base.clone() };
                        if !exec_ccase(ctx, "conn.exhaustive", &c) {
                            ok = false;
                            break 'outer;
                        }
                    }
                }
            }
        }
        if count_only {
            eprintln!("conn.exhaustive (k, m, programs, schedules): {counts:?}");
            return;
        }
        if ok {
            ctx.mark_exhaustive(format!("conn.exhaustive: all preemption lists with <= {bound} preemptions (3 only below 46 yield points) for k sends against m receive/release pairs: k,m <= 2 over buffer 1..2 x max-borrow 1..2 x overflow on/off{}, every merge order as reference interleaving with wait flags none/all/receiver/sender; {}", if bound == 2 { " (k = m = 2: four of the eight combinations)" } else { "" }, if bound == 2 { "k = m = 3 for buffer 1, max-borrow 1, no overflow with wait flags none/receiver" } else { "(3,2), (2,3), (3,3) for buffer 1, max-borrow 1 with all four wait-flag modes" }));
        }
    }
    for (part, weak) in [("conn.random", false), ("conn.weak", true)] {
        if !ctx.part_enabled(part) {
            continue;
        }
        let total = if weak { ctx.scale(50_000u64, 1_500_000) } else { ctx.scale(150_000u64, 5_000_000) };
        let n = ctx.share(total);
        let mut rng = ctx.rng(part);
        let maxp = ctx.scale(3, 5);
        for _ in 0..n {
            let channels = if rng.chance(1, 4) { 2 } else { 1 };
            let script = random_script(&mut rng, channels, ctx.scale(14, 20));
            let est = 4 + 9 * script.len() as u32;
            let np = rng.range(0, maxp) as usize;
            let preempt = sched::random_preemptions(&mut rng, est, 1, np).into_iter().map(|(y, _)| (y, OTHER as u8)).collect();
            let stale = if weak { (0..rng.range(1, 12)).map(|_| if rng.chance(1, 2) { rng.range(1, 3) as u8 } else { 0 }).collect() } else { vec![] };
            let c = CCase {
                buffer: rng.range(1, 3) as u8,
                borrow: rng.range(1, 3) as u8,
                overflow: rng.chance(1, 2),
                channels,
                segments: if rng.chance(1, 4) { 2 } else { 1 },
                script,
                final_reclaim: rng.chance(1, 2),
                sched: Schedule { preempt, stale, weak },
            };
            if !exec_ccase(ctx, part, &c) {
                break;
            }
        }
    }
}
