//! zero_copy_connection part of C03 (sender / receiver over process_local storage).
use vcore::Ctx;

pub fn conn_parts(_ctx: &mut Ctx) {}
