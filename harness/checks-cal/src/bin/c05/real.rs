//! Part B: the real event concepts of iceoryx2-cal with real threads (perturbed mode, no scheduler).
use crate::hist::{Ev, HistCfg, NRes, check_history};
use core::time::Duration;
use iceoryx2_bb_container::semantic_string::SemanticString;
use iceoryx2_cal::event::event_state::EventState;
use iceoryx2_cal::event::*;
use iceoryx2_cal::named_concept::*;
use iceoryx2_pal_concurrency_sync::atomic as a;
use serde::{Deserialize, Serialize};
use std::cell::Cell;
use std::sync::atomic::{AtomicU32, AtomicU64, AtomicUsize, Ordering};
use std::sync::{Barrier, Mutex};
use std::time::Instant;
use vcore::{Ctx, Failure, Obs};

pub const MAX_ID: usize = 3;
pub const PART: &str = "real.perturbed";
const BACKENDS: [&str; 6] = ["unix_datagram+bit_set", "unix_datagram+counting_set", "socket_pair+bit_set", "socket_pair+counting_set", "semaphore+bit_set", "semaphore+counting_set"];

// ---- seeded noise at every atomic access of the code under test (local hook table) ----------
// vcore has no perturbed mode; this table replaces vcore's scheduler hooks for the rest of the
// process, which is why Part B always runs after Part A.
thread_local! { static NOISE: Cell<u64> = const { Cell::new(0) }; }

// ---- scripted interleaving (part real.scripted): rendezvous at the accesses of the notification
// state word, recognised as the only 1-byte SeqCst atomic of the event concept
thread_local! { static ROLE: Cell<u8> = const { Cell::new(0) }; static NACC: Cell<u32> = const { Cell::new(0) }; }
const ROLE_LISTENER: u8 = 1;
const ROLE_NOTIFIER: u8 = 2;
static STEP: AtomicU32 = AtomicU32::new(0);
static STEP_TIMEOUT: AtomicU32 = AtomicU32::new(0);
static RELEASED_AT: Mutex<Option<Instant>> = Mutex::new(None);

fn wait_step(v: u32) {
    let t = Instant::now();
    while STEP.load(Ordering::SeqCst) < v {
        if t.elapsed() > Duration::from_secs(3) {
            STEP_TIMEOUT.fetch_add(1, Ordering::SeqCst);
            return;
        }
        std::thread::yield_now();
    }
}

fn script_pre(size: u8, order: a::Ordering) {
    if ROLE.get() == ROLE_NOTIFIER && size == 1 && order == a::Ordering::SeqCst {
        let n = NACC.get() + 1;
        NACC.set(n);
        if n == 2 {
            // about to move PENDING -> NOTIFIED; the trigger is already posted
            STEP.store(2, Ordering::SeqCst);
            wait_step(3);
        }
    }
}

fn script_post(size: u8, order: a::Ordering) {
    if ROLE.get() == ROLE_LISTENER && size == 1 && order == a::Ordering::SeqCst {
        let n = NACC.get() + 1;
        NACC.set(n);
        if n == 2 {
            // first wait: state reset to IDLE done, buffer not yet emptied
            STEP.store(1, Ordering::SeqCst);
            wait_step(2);
        } else if n == 3 {
            // second wait: the NOTIFIED fast-path check is done, the trigger wait comes next
            STEP.store(3, Ordering::SeqCst);
            wait_step(4);
            *RELEASED_AT.lock().unwrap() = Some(Instant::now());
        }
    }
}

fn noise_pre(_a: usize, size: u8, _k: a::Kind, order: a::Ordering) {
    if ROLE.get() != 0 {
        script_pre(size, order);
        return;
    }
    NOISE.with(|n| {
        let s = n.get();
        if s == 0 {
            return;
        }
        let mut r = vcore::rng::SplitMix::new(s);
        let x = r.next();
        n.set(r.0 | 1);
        match x & 31 {
            0..=2 => unsafe {
                libc::sched_yield();
            },
            3 => {
                // short spin: 50 .. ~20 000 iterations (roughly up to 100 us)
                for _ in 0..(50 + (x >> 8) % 20_000) {
                    std::hint::spin_loop();
                }
            }
            _ => {}
        }
    });
}
fn noise_load(_a: usize, _s: u8, _o: a::Ordering, real: u64) -> u64 {
    real
}
fn noise_post(_a: usize, size: u8, _k: a::Kind, order: a::Ordering, _old: u64, _new: u64) {
    if ROLE.get() != 0 {
        script_post(size, order);
    }
}
static NOISE_HOOKS: a::Hooks = a::Hooks { pre: noise_pre, load: noise_load, post: noise_post };

#[derive(Clone, Copy, Debug, Serialize, Deserialize, Hash, PartialEq, Eq)]
pub enum ROp {
    Try,
    /// timed_wait with this many milliseconds
    Timed(u16),
    /// sleep this many microseconds between two waits
    Pause(u16),
}

#[derive(Clone, Debug, Serialize, Deserialize, Hash)]
pub struct RCase {
    /// index into BACKENDS
    pub backend: u8,
    /// per notifier thread: (id, pause in microseconds before the notify)
    pub notifs: Vec<Vec<(u8, u16)>>,
    /// listener program; repeated while notifiers are still running
    pub lops: Vec<ROp>,
    pub fail_full: bool,
    pub seed: u64,
}

#[derive(Default)]
pub struct RealOut {
    pub late_wakeup: bool,
    pub long_wait_with_notify: bool,
}

static CASE_NO: AtomicU64 = AtomicU64::new(0);

struct Log {
    ev: Vec<Ev>,
    t: Vec<Duration>,
}

fn nres(r: Result<(), NotifierNotifyError>) -> NRes {
    match r {
        Ok(()) => NRes::Ok,
        Err(NotifierNotifyError::BufferIsFull) => NRes::BufferIsFull,
        Err(NotifierNotifyError::EventIdOutOfBounds) => NRes::OutOfBounds,
        Err(NotifierNotifyError::Interrupt) => NRes::Interrupt,
        Err(e) => NRes::Other(format!("{e:?}")),
    }
}

fn run_real<E: EventState, Sut: Event<E>>(c: &RCase, counting: bool, obs: &mut Obs) -> Result<RealOut, Failure> {
    let dir = vcore::util::run_dir().join("c05");
    std::fs::create_dir_all(&dir).ok();
    let mut dir_s = dir.to_string_lossy().to_string();
    dir_s.push('/');
    let path = Path::new(dir_s.as_bytes()).map_err(|e| Failure::new("event.setup", format!("path hint {dir_s}: {e:?}")))?;
    let cfg = <Sut as NamedConceptMgmt>::Configuration::default().path_hint(&path);
    let name = FileName::new(format!("c05r_{}_{}", std::process::id(), CASE_NO.fetch_add(1, Ordering::Relaxed)).as_bytes()).unwrap();
    let listener = Sut::ListenerBuilder::new(&name)
        .config(&cfg)
        .event_id_max(EventId::new(MAX_ID))
        .create()
        .map_err(|e| Failure::new("event.setup", format!("listener create ({}): {e:?}", BACKENDS[c.backend as usize])))?;
    let mut notifiers = vec![];
    for _ in 0..c.notifs.len() {
        notifiers.push(
            Sut::NotifierBuilder::new(&name)
                .config(&cfg)
                .fail_when_buffer_is_full(c.fail_full)
                .open()
                .map_err(|e| Failure::new("event.setup", format!("notifier open ({}): {e:?}", BACKENDS[c.backend as usize])))?,
        );
    }
    let k = notifiers.len();
    let t0 = Instant::now();
    let log = Mutex::new(Log { ev: vec![], t: vec![] });
    let push = |e: Ev| {
        let mut l = log.lock().unwrap();
        l.ev.push(e);
        l.t.push(t0.elapsed());
    };
    let push = &push;
    let barrier = Barrier::new(k + 1);
    let barrier = &barrier;
    let done = AtomicUsize::new(0);
    let done = &done;
    // (begin position, end position, timeout) of the long timed waits
    let long_waits: Mutex<Vec<(usize, usize, Duration)>> = Mutex::new(vec![]);
    let long_waits_r = &long_waits;
    let logr = &log;
    let mut panics: Vec<String> = vec![];
    let listener = std::thread::scope(|s| {
        let mut hs = vec![];
        for (i, (n, ops)) in notifiers.drain(..).zip(c.notifs.iter()).enumerate() {
            hs.push(s.spawn(move || {
                NOISE.set(vcore::rng::mix(c.seed, i as u64 + 1) | 1);
                barrier.wait();
                for (id, pause) in ops {
                    if *pause > 0 {
                        std::thread::sleep(Duration::from_micros(*pause as u64));
                    }
                    let id = *id as usize;
                    push(Ev::NotifyBegin { thr: i, id });
                    let r = n.notify(EventId::new(id));
                    push(Ev::NotifyEnd { thr: i, id, res: nres(r) });
                }
                NOISE.set(0);
                done.fetch_add(1, Ordering::SeqCst);
                n
            }));
        }
        let lh = s.spawn(move || {
            NOISE.set(vcore::rng::mix(c.seed, 99) | 1);
            barrier.wait();
            let mut n_ops = 0;
            'l: loop {
                for op in &c.lops {
                    n_ops += 1;
                    let cb = |a: iceoryx2_cal::event::event_state::EventActivation| push(Ev::Report { id: a.id.as_value(), count: a.count });
                    match op {
                        ROp::Pause(us) => std::thread::sleep(Duration::from_micros(*us as u64)),
                        ROp::Try => {
                            push(Ev::WaitBegin { fin: false, blocking: false });
                            let r = listener.try_wait(cb);
                            push(Ev::WaitEnd { fin: false, res: r.map_err(|e| format!("{e:?}")) });
                        }
                        ROp::Timed(ms) => {
                            push(Ev::WaitBegin { fin: false, blocking: true });
                            let b = logr.lock().unwrap().ev.len() - 1;
                            let d = Duration::from_millis(*ms as u64);
                            let r = listener.timed_wait(cb, d);
                            push(Ev::WaitEnd { fin: false, res: r.map_err(|e| format!("{e:?}")) });
                            if *ms >= 20 {
                                let e = logr.lock().unwrap().ev.len() - 1;
                                long_waits_r.lock().unwrap().push((b, e, d));
                            }
                        }
                    }
                    if n_ops >= 400 {
                        break 'l;
                    }
                }
                if done.load(Ordering::SeqCst) == k {
                    break;
                }
            }
            NOISE.set(0);
            listener
        });
        for h in hs {
            match h.join() {
                Ok(n) => notifiers.push(n),
                Err(e) => panics.push(vcore::util::panic_message(&e)),
            }
        }
        lh.join().map_err(|e| vcore::util::panic_message(&e))
    });
    let listener = match listener {
        Ok(l) => l,
        Err(m) => {
            unsafe { Sut::remove_cfg(&name, &cfg).ok() };
            return Err(Failure::new("event.panic", format!("listener thread panicked: {m}")));
        }
    };
    // quiescent drain
    let mut empty_rounds = 0;
    let mut rounds = 0;
    let mut drain_err = None;
    while empty_rounds < 2 {
        rounds += 1;
        if rounds > 40 {
            drain_err = Some(Failure::new("event.drain", "try_wait keeps reporting events although no notifier is running"));
            break;
        }
        push(Ev::WaitBegin { fin: true, blocking: false });
        let r = listener.try_wait(|a| push(Ev::Report { id: a.id.as_value(), count: a.count }));
        if matches!(r, Ok(0)) {
            empty_rounds += 1;
        } else {
            empty_rounds = 0;
        }
        push(Ev::WaitEnd { fin: true, res: r.map_err(|e| format!("{e:?}")) });
    }
    drop(notifiers);
    drop(listener);
    // everything this case created is gone (best effort removal otherwise)
    if !matches!(Sut::does_exist_cfg(&name, &cfg), Ok(false)) {
        unsafe { Sut::remove_cfg(&name, &cfg).ok() };
    }
    if !panics.is_empty() {
        return Err(Failure::new("event.panic", format!("notifier thread panicked: {panics:?}")));
    }
    if let Some(f) = drain_err {
        return Err(f);
    }
    let log = log.into_inner().unwrap();
    for e in &log.ev {
        if let Ev::WaitEnd { res: Err(m), .. } = e {
            // no signal source exists in the harness
            return Err(Failure::new("event.wait_error", format!("wait returned {m}")));
        }
    }
    let hcfg = HistCfg { counting, max_id: MAX_ID, full_allowed: c.fail_full, interrupt_allowed: true, strict_time: true };
    let hs = check_history(&log.ev, &hcfg)?;
    // timeouts are never violations: count wake-ups that came from the time-out although a
    // successful notify had returned more than half a time-out earlier
    let mut out = RealOut::default();
    for (b, e, d) in long_waits.into_inner().unwrap() {
        let elapsed = log.t[e] - log.t[b];
        for p in b + 1..e {
            if let Ev::NotifyEnd { res: NRes::Ok, thr, id } = &log.ev[p] {
                out.long_wait_with_notify = true;
                // still undelivered when the wait began? (no report of the id since the notify was invoked)
                let nb = (0..p).rev().find(|q| matches!(&log.ev[*q], Ev::NotifyBegin { thr: t, .. } if t == thr)).unwrap_or(0);
                let delivered_before = (nb..b).any(|q| matches!(&log.ev[q], Ev::Report { id: i, .. } if i == id));
                // a wait that took much longer than its time-out was descheduled (machine load): no information
                if !delivered_before && elapsed >= d && elapsed < d * 3 / 2 && log.t[e] - log.t[p] > d / 2 {
                    out.late_wakeup = true;
                }
            }
        }
    }
    if out.late_wakeup && std::env::var("C05_DEBUG_LATE").is_ok() {
        let v: Vec<String> = log.ev.iter().zip(log.t.iter()).map(|(e, t)| format!("{:.2}ms {e:?}", t.as_secs_f64() * 1e3)).collect();
        eprintln!("LATE {} {c:?}\n  {}", BACKENDS[c.backend as usize], v.join("\n  "));
    }
    obs.nontrivial = hs.overlap;
    if hs.overlap {
        obs.class("real_overlap");
    }
    if hs.merged {
        obs.class("real_merged");
    }
    if hs.buffer_full {
        obs.class("real_notify_failed_buffer_full");
    }
    if out.long_wait_with_notify {
        obs.class("real_notify_during_long_timed_wait");
    }
    if out.late_wakeup {
        obs.class(match c.backend / 2 {
            0 => "real_late_wakeup_unix_datagram",
            1 => "real_late_wakeup_socket_pair",
            _ => "real_late_wakeup_semaphore",
        });
    }
    obs.class(match c.backend / 2 {
        0 => "real_unix_datagram",
        1 => "real_socket_pair",
        _ => "real_semaphore",
    });
    Ok(out)
}

pub fn run_rcase(c: &RCase, obs: &mut Obs) -> Result<RealOut, Failure> {
    use iceoryx2_bb_lock_free::mpmc::bit_set::RelocatableBitSet as B;
    use iceoryx2_bb_lock_free::mpmc::counting_bit_set::RelocatableCountingBitSet as C;
    match c.backend {
        0 => run_real::<B, UnixDatagramShmBitSet>(c, false, obs),
        1 => run_real::<C, UnixDatagramShmCountingBitSet>(c, true, obs),
        2 => run_real::<B, SocketPairBitSet>(c, false, obs),
        3 => run_real::<C, SocketPairCountingBitSet>(c, true, obs),
        4 => run_real::<B, SemaphoreShmBitSet>(c, false, obs),
        _ => run_real::<C, SemaphoreShmCountingBitSet>(c, true, obs),
    }
}

fn rcase_shrinks(c: &RCase) -> Vec<RCase> {
    let mut out = vec![];
    if c.notifs.len() > 1 {
        for j in 0..c.notifs.len() {
            let mut n = c.clone();
            n.notifs.remove(j);
            out.push(n);
        }
    }
    for j in 0..c.notifs.len() {
        if c.notifs[j].len() > 1 {
            for v in vcore::shrink::vec_removals(&c.notifs[j]) {
                if !v.is_empty() {
                    let mut n = c.clone();
                    n.notifs[j] = v;
                    out.push(n);
                }
            }
        }
    }
    if c.lops.len() > 1 {
        for v in vcore::shrink::vec_removals(&c.lops) {
            if v.iter().any(|o| !matches!(o, ROp::Pause(_))) {
                out.push(RCase { lops: v, ..c.clone() });
            }
        }
    }
    out
}

/// not bit-reproducible: a case "fails" when one of `tries` executions fails with that signature
fn fails_some(c: &RCase, sig: &str, tries: usize) -> (usize, Option<Failure>) {
    let mut n = 0;
    let mut last = None;
    for _ in 0..tries {
        if let Err(f) = Ctx::guarded(|| run_rcase(c, &mut Obs::default()).map(|_| ())) {
            if f.signature == sig {
                n += 1;
                last = Some(f);
            }
        }
    }
    (n, last)
}

pub fn exec_rcase(ctx: &mut Ctx, c: &RCase, stats: &mut (u64, u64)) -> bool {
    let key = vcore::rng::hash_str(&format!("{c:?}"));
    let mut obs = Obs::default();
    let r = Ctx::guarded(|| run_rcase(c, &mut obs));
    ctx.record(PART, key, &obs, || serde_json::to_value(c).unwrap());
    match r {
        Ok(o) => {
            stats.0 += 1;
            if o.late_wakeup {
                stats.1 += 1;
            }
            true
        }
        Err(f) => {
            if ctx.is_open_finding(&f.signature) {
                ctx.violation(PART, &f, serde_json::to_value(c).unwrap());
                return true;
            }
            let sig = f.signature.clone();
            let (rep, _) = fails_some(c, &sig, 20);
            let min = vcore::shrink::greedy(c.clone(), rcase_shrinks, |cand| fails_some(cand, &sig, 6).0 > 0, 60);
            let fin = fails_some(&min, &sig, 10).1.unwrap_or_else(|| f.clone());
            let fin = Failure::new(fin.signature, format!("{} [original case failed again in {rep} of 20 re-executions with the same seed]", fin.message));
            let case = if fails_some(&min, &sig, 1).0 > 0 || rep == 0 { min } else { c.clone() };
            ctx.violation(PART, &fin, serde_json::to_value(&case).unwrap());
            false
        }
    }
}

fn random_rcase(rng: &mut vcore::rng::SplitMix, backend: u8) -> RCase {
    let k = rng.range(1, 3) as usize;
    let notifs = (0..k)
        .map(|_| {
            (0..rng.range(1, 8))
                .map(|_| {
                    let id = if rng.chance(1, 40) { 4 } else { rng.below(4) as u8 };
                    let pause = match rng.below(6) {
                        0 => rng.range(1, 300) as u16,
                        1 => rng.range(300, 3000) as u16,
                        _ => 0,
                    };
                    (id, pause)
                })
                .collect()
        })
        .collect();
    let mut lops = vec![];
    for _ in 0..rng.range(1, 5) {
        lops.push(match rng.below(8) {
            0 | 1 | 2 => ROp::Try,
            3 | 4 => ROp::Timed(rng.range(1, 5) as u16),
            5 => ROp::Timed(40),
            _ => ROp::Pause(rng.range(1, 400) as u16),
        });
    }
    if lops.iter().all(|o| matches!(o, ROp::Pause(_))) {
        lops.push(ROp::Timed(2));
    }
    RCase { backend, notifs, lops, fail_full: rng.chance(1, 4), seed: rng.next() }
}

pub const PART_SCRIPTED: &str = "real.scripted";
const SCRIPT_TIMEOUT_MS: u64 = 300;

/// Deterministic two-thread script on a real back-end (see DESIGN C05 / known finding
/// event.lost_wakeup.stale_notified): returns Some(description) when the listener's timed_wait slept
/// its full time-out although notify(2) had returned Ok before the trigger wait began.
fn run_script<E: EventState, Sut: Event<E>>(backend: u8) -> Result<Option<String>, Failure> {
    let dir = vcore::util::run_dir().join("c05");
    std::fs::create_dir_all(&dir).ok();
    let mut dir_s = dir.to_string_lossy().to_string();
    dir_s.push('/');
    let path = Path::new(dir_s.as_bytes()).map_err(|e| Failure::new("event.setup", format!("path hint {dir_s}: {e:?}")))?;
    let cfg = <Sut as NamedConceptMgmt>::Configuration::default().path_hint(&path);
    let name = FileName::new(format!("c05s_{}_{}", std::process::id(), CASE_NO.fetch_add(1, Ordering::Relaxed)).as_bytes()).unwrap();
    let listener = Sut::ListenerBuilder::new(&name).config(&cfg).event_id_max(EventId::new(MAX_ID)).create().map_err(|e| Failure::new("event.setup", format!("{e:?}")))?;
    let notifier = Sut::NotifierBuilder::new(&name).config(&cfg).open().map_err(|e| Failure::new("event.setup", format!("{e:?}")))?;
    STEP.store(0, Ordering::SeqCst);
    STEP_TIMEOUT.store(0, Ordering::SeqCst);
    *RELEASED_AT.lock().unwrap() = None;
    let d = Duration::from_millis(SCRIPT_TIMEOUT_MS);
    let (listener, first, second, slept, nres) = std::thread::scope(|s| {
        let nh = s.spawn(move || {
            wait_step(1);
            NACC.set(0);
            ROLE.set(ROLE_NOTIFIER);
            let r1 = notifier.notify(EventId::new(3));
            let r2 = notifier.notify(EventId::new(2));
            ROLE.set(0);
            STEP.store(4, Ordering::SeqCst);
            (notifier, r1, r2)
        });
        let lh = s.spawn(move || {
            NACC.set(0);
            ROLE.set(ROLE_LISTENER);
            let mut first = vec![];
            let r1 = listener.try_wait(|a| first.push(a.id.as_value()));
            let mut second = vec![];
            let r2 = listener.timed_wait(|a| second.push(a.id.as_value()), d);
            let back = Instant::now();
            ROLE.set(0);
            let slept = RELEASED_AT.lock().unwrap().map(|t| back - t);
            (listener, (r1, first), (r2, second), slept)
        });
        let (n, r1, r2) = nh.join().unwrap();
        let (l, first, second, slept) = lh.join().unwrap();
        drop(n);
        (l, first, second, slept, (r1, r2))
    });
    drop(listener);
    if !matches!(Sut::does_exist_cfg(&name, &cfg), Ok(false)) {
        unsafe { Sut::remove_cfg(&name, &cfg).ok() };
    }
    if STEP_TIMEOUT.load(Ordering::SeqCst) > 0 {
        // the code under test does not follow the scripted access pattern (any more): no observation
        return Ok(None);
    }
    let applicable = nres == (Ok(()), Ok(())) && first.0 == Ok(1) && first.1 == vec![3] && second.0 == Ok(1) && second.1 == vec![2];
    match slept {
        Some(t) if applicable && t >= d * 9 / 10 => Ok(Some(format!(
            "{}: scripted interleaving [listener.try_wait: state reset to IDLE | notifier.notify(3): IDLE->PENDING, trigger posted | listener: empty_buffer, drain -> [3]; listener.timed_wait({SCRIPT_TIMEOUT_MS} ms): fast-path check sees PENDING | notifier: PENDING->NOTIFIED; notify(2) -> Ok without trigger (state NOTIFIED)]: the timed_wait then slept {:.0} ms (its full time-out) before it delivered id 2; a blocking_wait would not return",
            BACKENDS[backend as usize],
            t.as_secs_f64() * 1e3
        ))),
        _ => Ok(None),
    }
}

fn scripted_part(ctx: &mut Ctx) {
    use iceoryx2_bb_lock_free::mpmc::bit_set::RelocatableBitSet as B;
    use iceoryx2_bb_lock_free::mpmc::counting_bit_set::RelocatableCountingBitSet as C;
    if !ctx.part_enabled(PART_SCRIPTED) || (ctx.worker != 0 && ctx.replay.is_none()) {
        return;
    }
    for backend in 0..6u8 {
        // two executions: the sleep must show both times (guards against a descheduled listener)
        let mut seen = vec![];
        for _ in 0..2 {
            let r = Ctx::guarded(|| match backend {
                0 => run_script::<B, UnixDatagramShmBitSet>(backend),
                1 => run_script::<C, UnixDatagramShmCountingBitSet>(backend),
                2 => run_script::<B, SocketPairBitSet>(backend),
                3 => run_script::<C, SocketPairCountingBitSet>(backend),
                4 => run_script::<B, SemaphoreShmBitSet>(backend),
                _ => run_script::<C, SemaphoreShmCountingBitSet>(backend),
            });
            match r {
                Ok(Some(m)) => seen.push(m),
                Ok(None) => break,
                Err(f) => {
                    ctx.violation(PART_SCRIPTED, &f, vcore::json!({"backend": BACKENDS[backend as usize]}));
                    break;
                }
            }
        }
        let mut obs = Obs::default();
        let observed = seen.len() == 2;
        obs.nontrivial = true;
        obs.class(if observed { "scripted_stale_notified_observed" } else { "scripted_stale_notified_not_observed" });
        ctx.record(PART_SCRIPTED, backend as u64, &obs, || vcore::json!({"backend": BACKENDS[backend as usize], "script": "stale_notified"}));
        ctx.probe_finding(
            PART_SCRIPTED,
            "event.lost_wakeup.stale_notified",
            if observed { seen.pop() } else { None },
            vcore::json!({"backend": BACKENDS[backend as usize], "script": "stale_notified"}),
        );
    }
}

pub fn real_parts(ctx: &mut Ctx) {
    if !ctx.part_enabled(PART) && !ctx.part_enabled(PART_SCRIPTED) {
        return;
    }
    unsafe { a::set_hooks(&NOISE_HOOKS) };
    scripted_part(ctx);
    if !ctx.part_enabled(PART) {
        return;
    }
    // real parallelism for this part: undo the pinning of the scheduler parts
    unsafe {
        let mut set: libc::cpu_set_t = std::mem::zeroed();
        for i in 0..libc::sysconf(libc::_SC_NPROCESSORS_ONLN).max(1) as usize {
            libc::CPU_SET(i, &mut set);
        }
        libc::sched_setaffinity(0, std::mem::size_of::<libc::cpu_set_t>(), &set);
        a::set_hooks(&NOISE_HOOKS);
    }
    let mut stats = (0u64, 0u64);
    if let Some(c) = ctx.replay_case::<RCase>(PART) {
        // replay: the same program and seed, 20 executions
        for _ in 0..20 {
            if !exec_rcase(ctx, &c, &mut stats) {
                break;
            }
        }
        return;
    }
    let n = ctx.share(ctx.scale(1_600u64, 40_000));
    let mut rng = ctx.rng(PART);
    for i in 0..n {
        let backend = ((i + ctx.worker as u64) % 6) as u8;
        let c = random_rcase(&mut rng, backend);
        if !exec_rcase(ctx, &c, &mut stats) {
            break;
        }
    }
    ctx.class("real_cases", stats.0);
    ctx.class("real_cases_with_late_wakeup", stats.1);
    // more than 1 % of the cases (and at least 4, a worker of the quick tier runs only 100 cases)
    let many_late = stats.1 >= 4 && stats.1 * 100 > stats.0;
    if many_late && ctx.is_open_finding("event.lost_wakeup.stale_notified") {
        // the open finding (stale NOTIFIED state with an already consumed trigger) makes exactly this happen
        ctx.note("real back-ends: more than 1 % of a worker's cases had a wake-up by time-out although a successful notify of an undelivered id had returned more than half a time-out before (classes real_cases_with_late_wakeup / real_cases); this is what the open finding event.lost_wakeup.stale_notified produces on real triggers (timing based, never a violation; inconclusive once that finding is closed)");
    } else if many_late {
        ctx.inconclusive(format!(
            "real back-ends: {} of {} cases had a timed_wait that slept its full time-out although a successful notify had returned more than half a time-out before (possible lost wake-up of a real trigger; timing based, therefore not a violation)",
            stats.1, stats.0
        ));
    }
    let dir = vcore::util::run_dir().join("c05");
    std::fs::remove_dir_all(&dir).ok();
}
