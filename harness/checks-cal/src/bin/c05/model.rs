//! Part A: the real `event::common` protocol code with a model semaphore trigger under vsched.
use crate::hist::{Ev, HistCfg, HistStats, NRes, check_history, trigger_consumed_before_notify_returned};
use core::mem::MaybeUninit;
use core::ptr::NonNull;
use core::time::Duration;
use iceoryx2_bb_concurrency::atomic::{AtomicU64 as HookedU64, Ordering as HO};
use iceoryx2_bb_elementary_traits::testing::abandonable::Abandonable;
use iceoryx2_bb_elementary_traits::zero_copy_send::ZeroCopySend;
use iceoryx2_bb_lock_free::mpmc::bit_set::RelocatableBitSet;
use iceoryx2_bb_lock_free::mpmc::counting_bit_set::RelocatableCountingBitSet;
use iceoryx2_cal::dynamic_storage::process_local::Storage;
use iceoryx2_cal::event::common::EventImpl;
use iceoryx2_cal::event::event_state::EventState;
use iceoryx2_cal::event::trigger::{Configuration, HandlerInterface, State, WaiterInterface};
use iceoryx2_cal::event::*;
use iceoryx2_cal::named_concept::*;
use serde::{Deserialize, Serialize};
use std::sync::Mutex;
use std::sync::atomic::{AtomicU64, AtomicUsize, Ordering};
use vcore::sched::{self, Schedule};
use vcore::{Ctx, Failure, Obs, ensure};

pub const MAX_ID: usize = 3;

// ---------------- model trigger: counting semaphore on a hooked atomic ----------------------

#[derive(Debug)]
#[repr(C)]
pub struct ModelSem {
    /// hooked: every access is a yield point of the controlled scheduler
    count: HookedU64,
    /// 0 = unbounded
    cap: u64,
    // statistics (std atomics: not hooked)
    handler_calls: AtomicU64,
    posts: AtomicU64,
    full: AtomicU64,
}
unsafe impl ZeroCopySend for ModelSem {}

/// real-time log of the running case (one case at a time per process; std Mutex: not hooked)
static LOG: Mutex<Vec<Ev>> = Mutex::new(Vec::new());
thread_local! { static THR: std::cell::Cell<usize> = const { std::cell::Cell::new(usize::MAX) }; }
fn log(e: Ev) {
    LOG.lock().unwrap().push(e);
}

/// capacity of the next model semaphore that is created (set by the main thread before `create`)
static NEXT_CAP: AtomicU64 = AtomicU64::new(0);
/// address of the most recently created model semaphore
static LAST_SEM: AtomicUsize = AtomicUsize::new(0);

impl ModelSem {
    /// reads the counter without passing through the hook (for scheduler predicates and the harness)
    fn peek(&self) -> u64 {
        unsafe { (*(&self.count as *const HookedU64 as *const core::sync::atomic::AtomicU64)).load(core::sync::atomic::Ordering::SeqCst) }
    }
    /// sem_trywait
    fn take_one(&self) -> bool {
        let mut c = self.count.fetch_add(0, HO::AcqRel);
        loop {
            if c == 0 {
                return false;
            }
            match self.count.compare_exchange(c, c - 1, HO::AcqRel, HO::Acquire) {
                Ok(_) => {
                    log(Ev::TriggerConsume { n: 1 });
                    return true;
                }
                Err(v) => c = v,
            }
        }
    }
    /// sem_post; false = would exceed the capacity
    fn post(&self) -> bool {
        self.handler_calls.fetch_add(1, Ordering::Relaxed);
        if self.cap == 0 {
            self.count.fetch_add(1, HO::AcqRel);
            self.posts.fetch_add(1, Ordering::Relaxed);
            log(Ev::TriggerPost { thr: THR.get() });
            return true;
        }
        let mut c = self.count.fetch_add(0, HO::AcqRel);
        loop {
            if c >= self.cap {
                self.full.fetch_add(1, Ordering::Relaxed);
                log(Ev::TriggerFull { thr: THR.get() });
                return false;
            }
            match self.count.compare_exchange(c, c + 1, HO::AcqRel, HO::Acquire) {
                Ok(_) => {
                    self.posts.fetch_add(1, Ordering::Relaxed);
                    log(Ev::TriggerPost { thr: THR.get() });
                    return true;
                }
                Err(v) => c = v,
            }
        }
    }
}

#[derive(Debug)]
pub struct MW {
    sem: *const ModelSem,
}
#[derive(Debug)]
pub struct MH {
    sem: *const ModelSem,
}
unsafe impl Send for MW {}
unsafe impl Sync for MW {}
unsafe impl Send for MH {}
unsafe impl Sync for MH {}
impl Abandonable for MW {
    unsafe fn abandon_in_place(_t: NonNull<Self>) {}
}
impl Abandonable for MH {
    unsafe fn abandon_in_place(_t: NonNull<Self>) {}
}
impl MW {
    fn sem(&self) -> &ModelSem {
        unsafe { &*self.sem }
    }
}

type Sto<E> = Storage<State<E, ModelSem>>;

// mirrors trigger/semaphore.rs: try/timed/blocking wait = take one unit, then empty the buffer
impl<E: EventState + 'static> WaiterInterface<E, ModelSem, Sto<E>> for MW {
    const IS_FILE_DESCRIPTOR_BASED: bool = false;
    unsafe fn remove(_n: &FileName, _c: &Configuration) -> Result<bool, NamedConceptRemoveError> {
        Ok(true)
    }
    fn remove_path_hint(_v: &Path) -> Result<(), NamedConceptPathHintRemoveError> {
        Ok(())
    }
    fn create(_n: &FileName, _c: &Configuration, mgmt: &mut MaybeUninit<ModelSem>) -> Result<Self, ListenerCreateError> {
        mgmt.write(ModelSem {
            count: HookedU64::new(0),
            cap: NEXT_CAP.load(Ordering::SeqCst),
            handler_calls: AtomicU64::new(0),
            posts: AtomicU64::new(0),
            full: AtomicU64::new(0),
        });
        LAST_SEM.store(mgmt.as_ptr() as usize, Ordering::SeqCst);
        Ok(MW { sem: mgmt.as_ptr() })
    }
    fn try_wait(&self) -> Result<(), ListenerWaitError> {
        if self.sem().take_one() { <Self as WaiterInterface<E, ModelSem, Sto<E>>>::empty_buffer(self) } else { Ok(()) }
    }
    fn timed_wait(&self, _t: Duration) -> Result<(), ListenerWaitError> {
        // the model knows the zero time-out only
        <Self as WaiterInterface<E, ModelSem, Sto<E>>>::try_wait(self)
    }
    fn blocking_wait(&self) -> Result<(), ListenerWaitError> {
        loop {
            if self.sem().take_one() {
                return <Self as WaiterInterface<E, ModelSem, Sto<E>>>::empty_buffer(self);
            }
            let s = self.sem();
            if s.peek() == 0 {
                log(Ev::Park { state: read_state::<E>(s) });
            }
            if !sched::block_until(&|| s.peek() > 0) {
                // the run was abandoned: every thread is blocked (the deadlock observation)
                return Err(ListenerWaitError::InterruptSignal);
            }
        }
    }
    fn empty_buffer(&self) -> Result<(), ListenerWaitError> {
        let n = self.sem().count.swap(0, HO::AcqRel);
        if n > 0 {
            log(Ev::TriggerConsume { n });
        }
        Ok(())
    }
}

impl<E: EventState + 'static> HandlerInterface<E, ModelSem, Sto<E>> for MH {
    fn open(_n: &FileName, _c: &Configuration, mgmt: &ModelSem) -> Result<Self, NotifierOpenError> {
        Ok(MH { sem: mgmt as *const ModelSem })
    }
    fn notify(&self) -> Result<(), NotifierNotifyError> {
        if unsafe { &*self.sem }.post() { Ok(()) } else { Err(NotifierNotifyError::BufferIsFull) }
    }
}

type ModelEvent<E> = EventImpl<E, ModelSem, Sto<E>, MH, MW>;

// ---------------- case --------------------------------------------------------------------

#[derive(Clone, Copy, Debug, Serialize, Deserialize, Hash, PartialEq, Eq)]
pub enum LOp {
    Try,
    Block,
    /// timed_wait(Duration::ZERO)
    Timed,
}

#[derive(Clone, Debug, Serialize, Deserialize, Hash)]
pub struct ECase {
    /// false RelocatableBitSet, true RelocatableCountingBitSet
    pub counting: bool,
    /// one entry per notifier thread (threads 0..k-1): the ids it notifies, in order; id > 3 is out of bounds
    pub notifs: Vec<Vec<u8>>,
    /// the listener (thread k)
    pub lops: Vec<LOp>,
    /// capacity of the model semaphore, 0 = unbounded
    pub sem_cap: u8,
    pub fail_full: bool,
    pub sched: Schedule,
}

pub struct EOutcome {
    pub info: sched::RunInfo,
}

static CASE_NO: AtomicU64 = AtomicU64::new(0);

fn nres(r: Result<(), NotifierNotifyError>) -> NRes {
    match r {
        Ok(()) => NRes::Ok,
        Err(NotifierNotifyError::BufferIsFull) => NRes::BufferIsFull,
        Err(NotifierNotifyError::EventIdOutOfBounds) => NRes::OutOfBounds,
        Err(e) => NRes::Other(format!("{e:?}")),
    }
}

/// common.rs: NOTIFICATION_STATE_NOTIFIED (private there)
const STATE_NOTIFIED: u8 = 2;

/// notification state word next to the model semaphore (State is #[repr(C)] with public fields)
fn read_state<E: EventState + 'static>(sem: &ModelSem) -> u8 {
    unsafe {
        let base = (sem as *const ModelSem as *const u8).sub(core::mem::offset_of!(State<E, ModelSem>, handle));
        (*(base.add(core::mem::offset_of!(State<E, ModelSem>, notification_state)) as *const core::sync::atomic::AtomicU8)).load(core::sync::atomic::Ordering::SeqCst)
    }
}

fn run_generic<E: EventState + 'static>(c: &ECase, obs: &mut Obs) -> Result<EOutcome, Failure> {
    let k = c.notifs.len();
    let name = FileName::new(format!("c05m_{}_{}", std::process::id(), CASE_NO.fetch_add(1, Ordering::Relaxed)).as_bytes()).unwrap();
    // create / open / drop on the (unregistered) main thread: process_local serialises them with a pthread mutex
    NEXT_CAP.store(c.sem_cap as u64, Ordering::SeqCst);
    let listener = <ModelEvent<E> as Event<E>>::ListenerBuilder::new(&name)
        .event_id_max(EventId::new(MAX_ID))
        .create()
        .map_err(|e| Failure::new("event.setup", format!("listener create: {e:?}")))?;
    let sem: &ModelSem = unsafe { &*(LAST_SEM.load(Ordering::SeqCst) as *const ModelSem) };
    let mut notifiers = vec![];
    for _ in 0..k {
        notifiers.push(
            <ModelEvent<E> as Event<E>>::NotifierBuilder::new(&name)
                .fail_when_buffer_is_full(c.fail_full)
                .open()
                .map_err(|e| Failure::new("event.setup", format!("notifier open: {e:?}")))?,
        );
    }
    LOG.lock().unwrap().clear();
    let mut bodies: Vec<Box<dyn FnOnce() + Send + '_>> = vec![];
    for (i, (n, ids)) in notifiers.iter().zip(c.notifs.iter()).enumerate() {
        bodies.push(Box::new(move || {
            THR.set(i);
            for id in ids {
                let id = *id as usize;
                log(Ev::NotifyBegin { thr: i, id });
                sched::op_begin();
                let r = n.notify(EventId::new(id));
                sched::op_end();
                log(Ev::NotifyEnd { thr: i, id, res: nres(r) });
            }
        }));
    }
    let l = &listener;
    bodies.push(Box::new(move || {
        THR.set(k);
        for op in &c.lops {
            log(Ev::WaitBegin { fin: false, blocking: *op == LOp::Block });
            let cb = |a: iceoryx2_cal::event::event_state::EventActivation| {
                log(Ev::Report { id: a.id.as_value(), count: a.count });
            };
            sched::op_begin();
            let r = match op {
                LOp::Try => l.try_wait(cb),
                LOp::Block => l.blocking_wait(cb),
                LOp::Timed => l.timed_wait(cb, Duration::ZERO),
            };
            sched::op_end();
            let stop = r.is_err();
            log(Ev::WaitEnd { fin: false, res: r.map_err(|e| format!("{e:?}")) });
            if stop {
                break;
            }
        }
    }));
    let info = sched::run(bodies, &c.sched);
    ensure!(info.panics.is_empty(), "event.panic", "thread panicked: {:?}", info.panics);
    if info.budget_exhausted {
        obs.discarded = true;
        return Ok(EOutcome { info });
    }
    // quiescent drain by the harness: try_wait rounds until two consecutive rounds return nothing
    let (state_after_run, sem_after_run) = (read_state::<E>(sem), sem.peek());
    let mut empty_rounds = 0;
    let mut rounds = 0;
    while empty_rounds < 2 {
        rounds += 1;
        ensure!(rounds <= 12, "event.drain", "try_wait keeps reporting events although no notifier is running");
        log(Ev::WaitBegin { fin: true, blocking: false });
        let r = listener.try_wait(|a| log(Ev::Report { id: a.id.as_value(), count: a.count }));
        if matches!(r, Ok(0)) {
            empty_rounds += 1;
        } else {
            empty_rounds = 0;
        }
        log(Ev::WaitEnd { fin: true, res: r.map_err(|e| format!("{e:?}")) });
    }
    let (handler_calls, full) = (sem.handler_calls.load(Ordering::Relaxed), sem.full.load(Ordering::Relaxed));
    drop(notifiers);
    drop(listener);
    let log: Vec<Ev> = std::mem::take(&mut *LOG.lock().unwrap());
    if std::env::var("C05_DEBUG").is_ok() {
        eprintln!("log {log:?}\ninfo {info:?}");
    }
    let cfg = HistCfg {
        counting: c.counting,
        max_id: MAX_ID,
        full_allowed: c.fail_full && c.sem_cap > 0,
        interrupt_allowed: false,
        strict_time: info.stale_reads == 0,
    };
    // listener wait errors: only the model's Interrupt at a deadlock observation
    for e in &log {
        if let Ev::WaitEnd { res: Err(m), .. } = e {
            ensure!(info.deadlock && m == "InterruptSignal", "event.wait_error", "wait returned {m} (deadlock observation: {})", info.deadlock);
        }
    }
    // (3) no sleeping on pending work
    let hs: HistStats = {
        let pending: Vec<usize> = {
            let mut fin = false;
            let mut v = vec![];
            for e in &log {
                match e {
                    Ev::WaitBegin { fin: f, .. } => fin = *f,
                    Ev::Report { id, .. } if fin => v.push(*id),
                    _ => {}
                }
            }
            v
        };
        if info.deadlock {
            ensure!(
                info.blocked.len() == k + 1 && info.blocked[k] && info.blocked[..k].iter().all(|b| !*b),
                "event.deadlock",
                "threads other than the listener are blocked: {:?}",
                info.blocked
            );
            if !pending.is_empty() {
                // known finding: the state word says NOTIFIED ("a trigger is on its way") although the
                // listener already consumed that trigger before the notifier finished its hand-shake
                let stale = state_after_run == STATE_NOTIFIED && sem_after_run == 0 && trigger_consumed_before_notify_returned(&log);
                return Err(Failure::new(
                    if stale { "event.lost_wakeup.stale_notified" } else { "event.lost_wakeup" },
                    format!(
                        "LOST WAKE-UP: the listener sleeps in the trigger, no notifier is running, but ids {pending:?} are set in the event state (notification state {state_after_run}, trigger level {sem_after_run}); log {log:?}"
                    ),
                ));
            }
        }
        check_history(&log, &cfg)?
    };
    // a trigger was skipped because the state was already NOTIFIED
    let skipped = hs.valid_attempts > handler_calls;
    obs.nontrivial = (hs.overlap || skipped) && info.preemptions_taken as usize == c.sched.preempt.len();
    if info.deadlock {
        obs.class("deadlock_benign");
    }
    if hs.overlap {
        obs.class("overlap");
    }
    if skipped {
        obs.class("skipped_trigger");
    }
    if full > 0 {
        obs.class("buffer_full");
    }
    if hs.buffer_full {
        obs.class("notify_failed_buffer_full");
    }
    if hs.merged {
        obs.class("merged");
    }
    if hs.spurious_wakeup {
        obs.class("spurious_wakeup");
    }
    if info.stale_reads > 0 {
        obs.class("with_stale_read");
    }
    if info.preempt_inside {
        obs.class("preempted_inside_op");
    }
    obs.class(if c.counting { "counting_set" } else { "bit_set" });
    Ok(EOutcome { info })
}

pub fn run_ecase(c: &ECase, obs: &mut Obs) -> Result<EOutcome, Failure> {
    if c.counting { run_generic::<RelocatableCountingBitSet>(c, obs) } else { run_generic::<RelocatableBitSet>(c, obs) }
}

// ---------------- shrinking ---------------------------------------------------------------

fn ecase_shrinks(c: &ECase) -> Vec<ECase> {
    let mut out = vec![];
    let k = c.notifs.len();
    // drop a notifier thread (thread ids above it move down, the listener included)
    if k > 1 {
        for j in 0..k {
            let mut n = c.clone();
            n.notifs.remove(j);
            n.sched.preempt = c.sched.preempt.iter().filter(|(_, t)| *t as usize != j).map(|(y, t)| (*y, if *t as usize > j { *t - 1 } else { *t })).collect();
            out.push(n);
        }
    }
    for s in sched::shrink_schedule(&c.sched) {
        out.push(ECase { sched: s, ..c.clone() });
    }
    for j in 0..k {
        if c.notifs[j].len() > 1 {
            for i in 0..c.notifs[j].len() {
                let mut n = c.clone();
                n.notifs[j].remove(i);
                out.push(n);
            }
        }
    }
    if c.lops.len() > 1 {
        for i in 0..c.lops.len() {
            let mut n = c.clone();
            n.lops.remove(i);
            out.push(n);
        }
    }
    for i in 0..c.lops.len() {
        if c.lops[i] == LOp::Timed {
            let mut n = c.clone();
            n.lops[i] = LOp::Try;
            out.push(n);
        }
    }
    if c.sem_cap > 0 {
        out.push(ECase { sem_cap: 0, fail_full: false, ..c.clone() });
    }
    if c.fail_full {
        out.push(ECase { fail_full: false, ..c.clone() });
    }
    // earlier preemptions
    for i in 0..c.sched.preempt.len() {
        let (y, t) = c.sched.preempt[i];
        let lo = if i == 0 { 1 } else { c.sched.preempt[i - 1].0 + 1 };
        if y > lo {
            let mut n = c.clone();
            n.sched.preempt[i] = (y - 1, t);
            out.push(n);
        }
    }
    out
}

/// runs a case; on failure shrinks it and files the violation. Returns false on a new violation.
pub fn exec_ecase(ctx: &mut Ctx, part: &str, c: &ECase) -> bool {
    let key = vcore::rng::hash_str(&format!("{c:?}"));
    let mut obs = Obs::default();
    let r = Ctx::guarded(|| run_ecase(c, &mut obs).map(|_| ()));
    ctx.record(part, key, &obs, || serde_json::to_value(c).unwrap());
    if let Err(f) = r {
        if ctx.is_open_finding(&f.signature) {
            ctx.violation(part, &f, serde_json::to_value(c).unwrap());
            return true;
        }
        let sig = f.signature.clone();
        let min = vcore::shrink::greedy(
            c.clone(),
            ecase_shrinks,
            |cand| matches!(Ctx::guarded(|| run_ecase(cand, &mut Obs::default()).map(|_| ())), Err(ff) if ff.signature == sig),
            600,
        );
        let fin = Ctx::guarded(|| run_ecase(&min, &mut Obs::default()).map(|_| ())).err().unwrap_or(f);
        ctx.violation(part, &fin, serde_json::to_value(&min).unwrap());
        return false;
    }
    true
}

// ---------------- generators --------------------------------------------------------------

pub struct Prog {
    pub notifs: Vec<Vec<u8>>,
    pub lops: Vec<LOp>,
    pub sem_cap: u8,
    pub fail_full: bool,
    /// preemption bound of the exhaustive part in the (quick, thorough) tier
    pub bound: (usize, usize),
}

/// the small programs of the exhaustive core
fn exhaustive_programs(thorough: bool) -> Vec<Prog> {
    use LOp::*;
    let mut all_l: Vec<Vec<LOp>> = vec![];
    for len in 1..=3usize {
        for m in 0..(1u32 << len) {
            all_l.push((0..len).map(|i| if m >> i & 1 == 1 { Block } else { Try }).collect());
        }
    }
    all_l.push(vec![Timed, Block]);
    all_l.push(vec![Block, Timed, Block]);
    let some_l: Vec<Vec<LOp>> = vec![vec![Block], vec![Block, Block], vec![Try, Block], vec![Block, Try], vec![Block, Try, Block]];
    let few_l: Vec<Vec<LOp>> = vec![vec![Block, Block], vec![Try, Block]];
    let mut out = vec![];
    let mut add = |notifs: &[Vec<Vec<u8>>], ls: &[Vec<LOp>], sem_cap: u8, fail_full: bool, bound: (usize, usize)| {
        for n in notifs {
            for l in ls {
                out.push(Prog { notifs: n.clone(), lops: l.clone(), sem_cap, fail_full, bound });
            }
        }
    };
    // one notifier
    add(&[vec![vec![1]]], &all_l, 0, false, (2, 3));
    add(&[vec![vec![1, 1]], vec![vec![1, 2]], vec![vec![2, 1]]], &all_l, 0, false, (2, 2));
    // three preemptions are needed for the known finding event.lost_wakeup.stale_notified
    add(&[vec![vec![1, 2]]], &few_l, 0, false, (3, 3));
    add(&[vec![vec![1, 1]], vec![vec![2, 1]]], &few_l, 0, false, (2, 3));
    // two notifiers
    add(&[vec![vec![1], vec![1]], vec![vec![1], vec![2]], vec![vec![2], vec![1]]], &all_l, 0, false, (2, 2));
    add(&[vec![vec![1], vec![2]]], &few_l, 0, false, (2, 3));
    add(&[vec![vec![1, 2], vec![1]], vec![vec![1, 1], vec![2]], vec![vec![1], vec![1, 2]], vec![vec![2, 1], vec![1]]], &some_l, 0, false, (2, 2));
    // three notifiers
    add(&[vec![vec![1], vec![2], vec![1]], vec![vec![1], vec![1], vec![1]]], &few_l, 0, false, (2, 2));
    // the BufferIsFull branch: capacity 1, both settings of fail_when_buffer_is_full
    for ff in [false, true] {
        add(&[vec![vec![1], vec![2]], vec![vec![1, 2], vec![1]]], &[vec![Block, Block], vec![Try, Block], vec![Block, Try, Block]], 1, ff, (2, 2));
    }
    if thorough {
        add(&[vec![vec![1, 2, 1]], vec![vec![1, 2], vec![2, 1]], vec![vec![0], vec![3], vec![1, 2]]], &some_l, 0, false, (2, 2));
        add(&[vec![vec![1, 2], vec![1]], vec![vec![1], vec![1, 2]]], &all_l, 0, false, (2, 2));
        add(&[vec![vec![1], vec![2], vec![1]], vec![vec![1], vec![1], vec![1]]], &all_l, 0, false, (2, 2));
        add(&[vec![vec![1], vec![2], vec![1]]], &few_l, 1, true, (2, 2));
    }
    out
}

/// calls `f` for every preemption list with at most `bound` entries (strictly increasing yield
/// numbers 1..=yields, targets 0..threads), small lists first per prefix
fn for_each_list(yields: u32, threads: u8, bound: usize, cur: &mut Vec<(u32, u8)>, f: &mut dyn FnMut(&[(u32, u8)]) -> bool) -> bool {
    if !f(cur) {
        return false;
    }
    if cur.len() == bound {
        return true;
    }
    let from = cur.last().map(|x| x.0 + 1).unwrap_or(1);
    for y in from..=yields {
        for t in 0..threads {
            cur.push((y, t));
            let go = for_each_list(yields, threads, bound, cur, f);
            cur.pop();
            if !go {
                return false;
            }
        }
    }
    true
}

/// debugging aid for sensitivity experiments: C05_NO_CAP=1 leaves out the bounded-trigger programs
fn no_cap() -> bool {
    std::env::var("C05_NO_CAP").is_ok()
}

fn random_program(rng: &mut vcore::rng::SplitMix) -> Prog {
    let k = rng.range(1, 3) as usize;
    let notifs = (0..k)
        .map(|_| {
            (0..rng.range(1, 3))
                .map(|_| if rng.chance(1, 25) { 4 + rng.below(2) as u8 } else { rng.below(4) as u8 })
                .collect()
        })
        .collect();
    let lops = (0..rng.range(1, 5))
        .map(|_| match rng.below(5) {
            0 | 1 => LOp::Block,
            2 | 3 => LOp::Try,
            _ => LOp::Timed,
        })
        .collect();
    let sem_cap = if rng.chance(1, 3) && !no_cap() { rng.range(1, 2) as u8 } else { 0 };
    let fail_full = sem_cap > 0 && rng.chance(1, 2);
    Prog { notifs, lops, sem_cap, fail_full, bound: (0, 0) }
}

pub const PARTS: [&str; 3] = ["ev.exhaustive", "ev.random", "ev.weak"];

pub fn model_parts(ctx: &mut Ctx) {
    for part in PARTS {
        if let Some(c) = ctx.replay_case::<ECase>(part) {
            exec_ecase(ctx, part, &c);
            return;
        }
    }
    if ctx.replay.is_some() {
        return;
    }
    // ---- exhaustive core ----
    if ctx.part_enabled("ev.exhaustive") {
        let thorough = !ctx.quick();
        let progs = exhaustive_programs(thorough);
        let mut counter = 0u64;
        let mut ok = true;
        let mut nprog = 0;
        let mut max_bound = 0;
        'outer: for counting in [false, true] {
            for p in &progs {
                if p.sem_cap > 0 && no_cap() {
                    continue;
                }
                let threads = p.notifs.len() as u8 + 1;
                let bound = if thorough { p.bound.1 } else { p.bound.0 };
                max_bound = max_bound.max(bound);
                let base = ECase { counting, notifs: p.notifs.clone(), lops: p.lops.clone(), sem_cap: p.sem_cap, fail_full: p.fail_full, sched: Schedule::default() };
                let y = match Ctx::guarded(|| run_ecase(&base, &mut Obs::default())) {
                    Ok(o) => o.info.yields,
                    Err(_) => {
                        exec_ecase(ctx, "ev.exhaustive", &base);
                        ok = false;
                        break 'outer;
                    }
                };
                nprog += 1;
                let mut cur = vec![];
                let done = for_each_list(y + 6, threads, bound, &mut cur, &mut |l| {
                    counter += 1;
                    if !ctx.mine(counter) {
                        return true;
                    }
                    let c = ECase { sched: Schedule { preempt: l.to_vec(), ..Default::default() }, ..base.clone() };
                    exec_ecase(ctx, "ev.exhaustive", &c)
                });
                if !done {
                    ok = false;
                    break 'outer;
                }
            }
        }
        if ok && !no_cap() {
            ctx.mark_exhaustive(format!(
                "ev.exhaustive: all preemption lists with <= 2 preemptions (<= {max_bound} for the smallest programs; quick: one notifier notify(1),notify(2) with the listener sequences [Block,Block] and [Try,Block]; thorough: also one notifier with one notify and every listener sequence, the other two-notify orders and two notifiers with one notify each) over the atomic accesses of notify/wait for {nprog} (program, event state) pairs (1..3 notifiers with 1..2 notifies of ids 1,2; listener sequences of length 1..3 over try_wait/blocking_wait, timed_wait(0) variants; semaphore capacity unbounded or 1 with both fail_when_buffer_is_full settings), both event states"
            ));
        }
    }
    // ---- random programs and schedules; weak memory ----
    for (part, weak) in [("ev.random", false), ("ev.weak", true)] {
        if !ctx.part_enabled(part) {
            continue;
        }
        let total = if weak { ctx.scale(100_000u64, 1_500_000) } else { ctx.scale(300_000u64, 6_000_000) };
        let n = ctx.share(total);
        let mut rng = ctx.rng(part);
        let maxp = 4;
        let per_program = 8;
        let mut done = 0u64;
        'prog: while done < n {
            let p = random_program(&mut rng);
            let counting = rng.chance(1, 2);
            let threads = p.notifs.len() as u8 + 1;
            let base = ECase { counting, notifs: p.notifs, lops: p.lops, sem_cap: p.sem_cap, fail_full: p.fail_full, sched: Schedule { weak, ..Default::default() } };
            let y = match Ctx::guarded(|| run_ecase(&base, &mut Obs::default())) {
                Ok(o) => o.info.yields,
                Err(_) => {
                    exec_ecase(ctx, part, &base);
                    break 'prog;
                }
            };
            for _ in 0..per_program {
                let np = rng.range(1, maxp) as usize;
                let preempt = sched::random_preemptions(&mut rng, y + 4, threads, np);
                let stale = if weak { (0..rng.range(1, 10)).map(|_| if rng.chance(1, 2) { rng.range(1, 3) as u8 } else { 0 }).collect() } else { vec![] };
                let c = ECase { sched: Schedule { preempt, stale, weak }, ..base.clone() };
                done += 1;
                if !exec_ecase(ctx, part, &c) {
                    break 'prog;
                }
            }
        }
    }
}
