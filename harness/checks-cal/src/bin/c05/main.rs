//! C05 — Events: no lost wake-up, no phantom event.
//!
//! Part A (`ev.*`): the real `iceoryx2_cal::event::common` protocol (notification state
//! hand-shake + lock-free event state) instantiated with a model semaphore trigger and
//! `dynamic_storage::process_local`, notifier and listener threads under the controlled
//! scheduler; the schedule is the generated input.
//! Part B (`real.perturbed`): the six real event concepts with real threads and seeded noise.
extern crate iceoryx2_bb_loggers;

use vcore::{Ctx, Spec, sched};

mod hist;
mod model;
mod real;

const SPEC: Spec = Spec {
    prop: "C05",
    level: "exploration",
    rule: "case = (event state: bit set | counting set, 1..3 notifier programs of 1..3 notify(id), listener program over try_wait/blocking_wait/timed_wait(0), model semaphore capacity, fail_when_buffer_is_full, schedule); the code under test is the real event::common Handle::notify / Waiter::drain_events with the real lock-free event states; the trigger is a model counting semaphore on an instrumented atomic whose blocking wait parks the thread in the scheduler. Schedules are preemption lists (yield number, target thread) over the atomic accesses: all lists up to the stated bound for the small programs (exhaustive part), PCT-style random lists with <= 4 preemptions for random programs, plus C11-stale read choices in the weak-memory part. Oracle over the real-time log of notify begin/end, listener callback and wait begin/end: no phantom (cumulative reports of an id never exceed the notifies of it begun so far; counting set: sum of counts), no loss (every successful notify has a report whose callback ran after the notify was invoked, final quiescent try_wait rounds by the harness included; counting set: reported sum = successful notifies), no sleeping on pending work (deadlock observation with ids still set in the event state), notify results (Ok | BufferIsFull only with fail_when_buffer_is_full and a bounded trigger | EventIdOutOfBounds exactly for ids > event_id_max), wait return value = activations handed to the callback. Non-trivial = a notify interval overlapped a listener wait interval or a trigger was skipped because the state was already NOTIFIED (fewer trigger calls than notifies), and every preemption of the list was taken; distinct = hash of the whole case. Part B: the six real concepts (unix datagram / socket pair / semaphore x bit set / counting set), 1..3 real notifier threads and a listener using try_wait and timed_wait, seeded yields/spins at every atomic access; same history oracle; non-trivial = a notify overlapped a wait.",
    assumptions: &[
        "schedules are explored at the granularity of atomic accesses (pre-access hook of the instrumented atomics)",
        "the model trigger mirrors trigger/semaphore.rs (wait = take one unit then empty the buffer); the interleavings inside real kernel triggers are only sampled by the perturbed real-thread part",
        "weak-memory mode under-approximates C11 and only sees atomic locations; with a stale read in the run only the time-free part of the oracle applies because the harness log order is then no happens-before order for the code under test",
        "timed waits of real back-ends: a wake-up by time-out instead of by trigger is counted, never reported as a violation (> 1 % of the cases makes the run inconclusive)",
    ],
    watchdog_quick_s: 1800,
    watchdog_thorough_s: 10800,
};

fn body(ctx: &mut Ctx) {
    iceoryx2_log::set_log_level(iceoryx2_log::LogLevel::Fatal);
    sched::install();
    ctx.pin_to_one_cpu();
    model::model_parts(ctx);
    // installs its own hook table: must come last
    real::real_parts(ctx);
}

fn main() {
    vcore::main(SPEC, body);
}
