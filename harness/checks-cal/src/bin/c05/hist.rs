//! Observed history of an event run (real-time order, std Mutex) and the oracle over it.
//!
//! The log position is the time stamp. `NotifyBegin` is logged before `notify` is called,
//! `Report` inside the listener callback (i.e. after the swap that took the id out of the event
//! state), so "Report at position p < NotifyBegin at position q" proves that the activation of
//! that notify happened after the report's swap: the report cannot stand for that notify.
use vcore::{Failure, ensure};

#[derive(Clone, Debug, PartialEq)]
pub enum NRes {
    Ok,
    BufferIsFull,
    OutOfBounds,
    /// documented error that real back-ends may return at any time (signal)
    Interrupt,
    Other(String),
}

#[derive(Clone, Debug, PartialEq)]
pub enum Ev {
    NotifyBegin { thr: usize, id: usize },
    NotifyEnd { thr: usize, id: usize, res: NRes },
    /// `fin`: quiescent drain performed by the harness after all notifiers finished
    WaitBegin { fin: bool, blocking: bool },
    Report { id: usize, count: u64 },
    /// Ok(n) = return value of the wait; Err = error text
    WaitEnd { fin: bool, res: Result<u64, String> },
    /// model trigger only: the handler of notifier thread `thr` added a unit to the semaphore
    TriggerPost { thr: usize },
    /// model trigger only: the handler of notifier thread `thr` found the semaphore at its capacity
    /// (BufferIsFull; with fail_when_buffer_is_full off the notifier relies on the units that are there)
    TriggerFull { thr: usize },
    /// model trigger only: the listener took `n` > 0 units out of the semaphore
    TriggerConsume { n: u64 },
    /// model trigger only: the listener's blocking wait found the trigger empty and goes to sleep;
    /// `state` = notification state word at that instant
    Park { state: u8 },
}

/// The pattern of the known finding `event.lost_wakeup.stale_notified`: the trigger unit a notify call
/// posted (or, for a full buffer, relied on) was consumed by the listener before that notify call
/// returned (i.e. before or while it moved the notification state PENDING -> NOTIFIED).
pub fn trigger_consumed_before_notify_returned(log: &[Ev]) -> bool {
    let mut posted: std::collections::BTreeMap<usize, bool> = Default::default(); // thr -> consumed since
    for e in log {
        match e {
            Ev::NotifyBegin { thr, .. } => {
                posted.remove(thr);
            }
            Ev::TriggerPost { thr } | Ev::TriggerFull { thr } => {
                posted.insert(*thr, false);
            }
            Ev::TriggerConsume { .. } => {
                for v in posted.values_mut() {
                    *v = true;
                }
            }
            Ev::NotifyEnd { thr, .. } => {
                if posted.remove(thr) == Some(true) {
                    return true;
                }
            }
            _ => {}
        }
    }
    false
}

pub struct HistCfg {
    pub counting: bool,
    pub max_id: usize,
    /// BufferIsFull is a documented outcome of this configuration
    pub full_allowed: bool,
    pub interrupt_allowed: bool,
    /// the log order is a happens-before order for the code under test (false for runs with
    /// C11-stale reads: only the time-free part of the oracle applies)
    pub strict_time: bool,
}

#[derive(Default, Debug)]
pub struct HistStats {
    pub overlap: bool,
    pub merged: bool,
    pub spurious_wakeup: bool,
    pub buffer_full: bool,
    pub ok_notifies: u64,
    /// notifies that reached the notification state hand-shake (valid id)
    pub valid_attempts: u64,
    pub reports_in_final_drain: Vec<usize>,
}

pub fn check_history(log: &[Ev], cfg: &HistCfg) -> Result<HistStats, Failure> {
    let n_ids = cfg.max_id + 1;
    let mut st = HistStats::default();
    let mut begun = vec![0u64; n_ids]; // notifies of id begun so far
    let mut reported = vec![0u64; n_ids]; // sum of reported counts so far
    let mut n_reports = vec![0u64; n_ids];
    let mut ok = vec![0u64; n_ids];
    let mut maybe = vec![0u64; n_ids]; // failed after the activation (BufferIsFull / Interrupt)
    let mut ok_begin_pos: Vec<(usize, usize)> = vec![]; // (id, position of NotifyBegin) of successful notifies
    let mut report_pos: Vec<Vec<usize>> = vec![vec![]; n_ids];
    let mut open_begin: std::collections::BTreeMap<usize, usize> = Default::default(); // thr -> begin pos
    let mut open_wait: Option<(bool, bool)> = None;
    let mut wait_sum = 0u64;
    let short = |log: &[Ev]| -> String {
        let s = format!("{log:?}");
        if s.len() > 1500 { format!("{}…", &s[..1500]) } else { s }
    };
    for (pos, e) in log.iter().enumerate() {
        match e {
            Ev::NotifyBegin { thr, id } => {
                if *id < n_ids {
                    begun[*id] += 1;
                }
                open_begin.insert(*thr, pos);
                if matches!(open_wait, Some((false, _))) {
                    st.overlap = true;
                }
            }
            Ev::NotifyEnd { thr, id, res } => {
                let b = open_begin.remove(thr).expect("NotifyEnd without begin");
                if *id >= n_ids {
                    ensure!(*res == NRes::OutOfBounds, "event.notify_result", "notify({id}) with event_id_max {} returned {res:?} instead of EventIdOutOfBounds", cfg.max_id);
                    continue;
                }
                st.valid_attempts += 1;
                match res {
                    NRes::Ok => {
                        ok[*id] += 1;
                        st.ok_notifies += 1;
                        ok_begin_pos.push((*id, b));
                    }
                    NRes::BufferIsFull => {
                        ensure!(cfg.full_allowed, "event.notify_result", "notify({id}) returned BufferIsFull although fail_when_buffer_is_full is off or the trigger has no capacity limit");
                        st.buffer_full = true;
                        maybe[*id] += 1;
                    }
                    NRes::Interrupt => {
                        ensure!(cfg.interrupt_allowed, "event.notify_result", "notify({id}) returned Interrupt without a signal source");
                        maybe[*id] += 1;
                    }
                    other => {
                        return Err(Failure::new("event.notify_result", format!("notify({id}) with a live listener returned {other:?}")));
                    }
                }
            }
            Ev::WaitBegin { fin, blocking } => {
                open_wait = Some((*fin, *blocking));
                wait_sum = 0;
                if !*fin && !open_begin.is_empty() {
                    st.overlap = true;
                }
            }
            Ev::Report { id, count } => {
                ensure!(*id < n_ids, "event.phantom", "listener reported id {id} > event_id_max {}", cfg.max_id);
                ensure!(*count >= 1, "event.phantom", "listener reported id {id} with count 0");
                ensure!(cfg.counting || *count == 1, "event.phantom", "bit set reported id {id} with count {count}");
                reported[*id] += count;
                n_reports[*id] += 1;
                report_pos[*id].push(pos);
                wait_sum += count;
                if cfg.strict_time {
                    ensure!(
                        reported[*id] <= begun[*id],
                        "event.phantom",
                        "id {id}: {} occurrence(s) reported but only {} notify call(s) with that id had begun: {}",
                        reported[*id],
                        begun[*id],
                        short(&log[..=pos])
                    );
                }
                if matches!(open_wait, Some((true, _))) {
                    st.reports_in_final_drain.push(*id);
                }
            }
            Ev::TriggerPost { .. } | Ev::TriggerFull { .. } | Ev::TriggerConsume { .. } => {}
            Ev::Park { state } => {
                // "a blocking wait never sleeps while an undelivered notification exists": every
                // notify that has RETURNED success by now must have a report after its invocation
                if cfg.strict_time {
                    for (id, b) in &ok_begin_pos {
                        if !report_pos[*id].iter().any(|p| p > b) {
                            // known finding: the state says NOTIFIED although the trigger unit was consumed
                            // before the notify call returned
                            let stale = *state == 2 && trigger_consumed_before_notify_returned(&log[..pos]);
                            return Err(Failure::new(
                                if stale { "event.lost_wakeup.stale_notified" } else { "event.sleeps_with_undelivered_notification" },
                                format!(
                                    "the listener's blocking wait goes to sleep on an empty trigger (notification state {state}) although notify({id}), invoked at log position {b}, has returned Ok and id {id} has not been reported since: {}",
                                    short(&log[..=pos])
                                ),
                            ));
                        }
                    }
                }
            }
            Ev::WaitEnd { fin: _, res } => {
                let (_, blocking) = open_wait.take().expect("WaitEnd without begin");
                if let Ok(n) = res {
                    ensure!(*n == wait_sum, "event.wait_return", "wait returned {n} but its callback received {wait_sum} activation(s)");
                    if *n == 0 && blocking {
                        st.spurious_wakeup = true;
                    }
                }
            }
        }
    }
    let detail = || format!("ok notifies per id {ok:?}, failed-after-activation {maybe:?}, reported {reported:?}: {}", short(log));
    for id in 0..n_ids {
        // (1) no phantom, time free
        ensure!(reported[id] <= ok[id] + maybe[id], "event.phantom", "id {id} reported more often than notified; {}", detail());
        if ok[id] > 0 {
            ensure!(n_reports[id] > 0, "event.lost", "id {id} was notified successfully but never reported; {}", detail());
        }
        if cfg.counting {
            // conformance test concurrent_notifications_from_multiple_notifiers_do_not_lose_events: sent == received
            ensure!(reported[id] >= ok[id], "event.lost", "counting set: id {id} reported {} time(s) for {} successful notifies; {}", reported[id], ok[id], detail());
        } else if n_reports[id] < ok[id] + maybe[id] {
            st.merged = true;
        }
    }
    // (2) no loss: a report whose callback ran after the notify was invoked
    if cfg.strict_time {
        for (id, b) in &ok_begin_pos {
            ensure!(
                report_pos[*id].iter().any(|p| p > b),
                "event.lost",
                "id {id}: the successful notify invoked at log position {b} has no report at or after it (reports of that id at {:?}); {}",
                report_pos[*id],
                detail()
            );
        }
    }
    Ok(st)
}
