//! Group 1: the relocatable containers of iceoryx2-bb-container, driven by the interpreters of
//! `checks_bb::models` (op alphabets, strategies, reference models shared with C16). The
//! interpreters re-fetch the container before every op; the hook presents the block at another
//! address according to the case's relocation mask.
use crate::mem::Mem;
use crate::{Case, Tracker, mask, patterns};
use checks_bb::models::flatmap::{FOp, fop_alphabet, fop_strategy, run_flatmap_ops};
use checks_bb::models::option::{OOp, oop_alphabet, oop_strategy, run_option_ops};
use checks_bb::models::queue::{QOp, qop_alphabet, qop_strategy, run_queue_ops};
use checks_bb::models::slotmap::{SOp, run_slotmap_ops, sop_alphabet, sop_strategy};
use checks_bb::models::string::{StrOp, run_string_ops, strop_alphabet, strop_strategy};
use checks_bb::models::vec::{VOp, run_vec_ops, vop_alphabet, vop_strategy};
use checks_bb::models::{Known, Plain, op_sequences};
use checks_bb::reloc::Block;
use checks_bb::tracked::{self, Tracked};
use iceoryx2_bb_container::flatmap::RelocatableFlatMap;
use iceoryx2_bb_container::queue::RelocatableQueue;
use iceoryx2_bb_container::relocatable_option::RelocatableOption;
use iceoryx2_bb_container::slotmap::RelocatableSlotMap;
use iceoryx2_bb_container::string::{RelocatableString, String as IoxString};
use iceoryx2_bb_container::vector::{RelocatableVec, Vector};
use proptest::prelude::*;
use serde::Serialize;
use serde::de::DeserializeOwned;
use std::cell::RefCell;
use std::cmp::Ordering;
use vcore::{Ctx, Failure, Obs, ensure};

/// Runs `$run` (a call of a `run_*_ops` interpreter using `$fetch` and `$hook`) on the structure in
/// `$mem`, relocating according to the case. `$nonempty(&T)` tells whether the structure holds data.
macro_rules! relocating {
    ($c:expr, $mem:expr, $T:ty, $obs:expr, $scratch:ident, $has_drop:expr, $nonempty:expr, |$fetch:ident, $hook:ident| $run:expr) => {{
        let cell = RefCell::new($mem);
        let trk = RefCell::new(Tracker::default());
        let mem_err: RefCell<Option<Failure>> = RefCell::new(None);
        if $c.start {
            if let Err(e) = cell.borrow_mut().relocate() {
                *mem_err.borrow_mut() = Some(e);
            }
        }
        let r = {
            let mut $fetch = || unsafe { &mut *(cell.borrow().base() as *mut $T) };
            let mut $hook = |step: usize| {
                let ne = $nonempty(unsafe { &*(cell.borrow().base() as *const $T) });
                let mut t = trk.borrow_mut();
                if t.relocated_nonempty && ne {
                    // the checks of this step read the whole content through the new address
                    t.returned_after = true;
                }
                if $c.reloc_after(step) && mem_err.borrow().is_none() {
                    match cell.borrow_mut().relocate() {
                        Ok(()) => {
                            if ne {
                                t.relocated_nonempty = true;
                            }
                        }
                        Err(e) => *mem_err.borrow_mut() = Some(e),
                    }
                }
            };
            $run
        };
        let mut m = cell.into_inner();
        let fin = m.finish();
        for cl in &$scratch.classes {
            $obs.class(cl);
        }
        trk.borrow().finish($obs, $c.mem, m.relocations);
        if $has_drop {
            m.drop_in_place();
        }
        drop(m);
        if let Some(e) = mem_err.into_inner() {
            return Err(e);
        }
        r?;
        fin
    }};
}

fn refused(cap: usize, sig: &str, what: &str, e: impl std::fmt::Debug, obs: &mut Obs) -> Result<(), Failure> {
    ensure!(cap == 0, sig, "{what}::init({cap}) failed: {e:?}");
    obs.class("capacity_zero_refused");
    Ok(())
}

fn finish_tracked(family: &str, r: Result<(), Failure>) -> Result<(), Failure> {
    r?;
    tracked::verdict().map_err(|e| Failure::new(format!("{family}.drop_accounting"), e))
}

fn run_vec(c: &Case<VOp>, obs: &mut Obs) -> Result<(), Failure> {
    tracked::reset();
    obs.class("struct.vec");
    type T = RelocatableVec<Tracked>;
    let r = match Mem::<T>::try_new(c.mem, c.cap) {
        Err(e) => refused(c.cap, "vec.relocatable_init", "RelocatableVec", e, obs),
        Ok(mem) => (|| {
            let mut scratch = Obs::default();
            relocating!(c, mem, T, obs, scratch, true, |v: &T| !v.is_empty(), |fetch, hook| run_vec_ops(&mut fetch, c.cap, &c.ops, &mut hook, &mut scratch))
        })(),
    };
    finish_tracked("vec", r)
}

fn run_queue(c: &Case<QOp>, obs: &mut Obs) -> Result<(), Failure> {
    tracked::reset();
    obs.class("struct.queue");
    let known = Known::none();
    let r = if c.cfg % 2 == 0 {
        type T = RelocatableQueue<Tracked>;
        match Mem::<T>::try_new(c.mem, c.cap) {
            Err(e) => refused(c.cap, "queue.relocatable_init", "RelocatableQueue", e, obs),
            Ok(mem) => (|| {
                let mut scratch = Obs::default();
                relocating!(c, mem, T, obs, scratch, true, |q: &T| !q.is_empty(), |fetch, hook| run_queue_ops::<Tracked, T>(&mut fetch, c.cap, &c.ops, &mut hook, &mut scratch, &known))
            })(),
        }
    } else {
        type T = RelocatableQueue<Plain>;
        match Mem::<T>::try_new(c.mem, c.cap) {
            Err(e) => refused(c.cap, "queue.relocatable_init", "RelocatableQueue", e, obs),
            Ok(mem) => (|| {
                let mut scratch = Obs::default();
                relocating!(c, mem, T, obs, scratch, true, |q: &T| !q.is_empty(), |fetch, hook| run_queue_ops::<Plain, T>(&mut fetch, c.cap, &c.ops, &mut hook, &mut scratch, &known))
            })(),
        }
    };
    finish_tracked("queue", r)
}

fn run_slotmap(c: &Case<SOp>, obs: &mut Obs) -> Result<(), Failure> {
    tracked::reset();
    obs.class("struct.slotmap");
    let known = Known::none();
    type T = RelocatableSlotMap<Tracked>;
    let r = match Mem::<T>::try_new(c.mem, c.cap) {
        Err(e) => refused(c.cap, "slotmap.relocatable_init", "RelocatableSlotMap", e, obs),
        Ok(mem) => (|| {
            let mut scratch = Obs::default();
            relocating!(c, mem, T, obs, scratch, true, |s: &T| !s.is_empty(), |fetch, hook| run_slotmap_ops::<Tracked, T>(&mut fetch, c.cap, &c.ops, &mut hook, &mut scratch, &known))
        })(),
    };
    finish_tracked("slotmap", r)
}

fn run_flatmap(c: &Case<FOp>, obs: &mut Obs) -> Result<(), Failure> {
    tracked::reset();
    obs.class("struct.flatmap");
    let known = Known::none();
    type T = RelocatableFlatMap<Tracked, Tracked>;
    let r = match Mem::<T>::try_new(c.mem, c.cap) {
        Err(e) => refused(c.cap, "flatmap.relocatable_init", "RelocatableFlatMap", e, obs),
        Ok(mem) => (|| {
            let mut scratch = Obs::default();
            relocating!(c, mem, T, obs, scratch, true, |s: &T| !s.is_empty(), |fetch, hook| run_flatmap_ops::<Tracked, Tracked, T>(&mut fetch, c.cap, &c.ops, &mut hook, &mut scratch, &known))
        })(),
    };
    finish_tracked("flatmap", r)
}

fn run_string(c: &Case<StrOp>, obs: &mut Obs) -> Result<(), Failure> {
    obs.class("struct.string");
    let known = Known::none();
    type T = RelocatableString;
    let mem = Mem::<T>::try_new(c.mem, c.cap).map_err(|e| Failure::new("string.relocatable_init", format!("RelocatableString::init({}) failed: {e:?}", c.cap)))?;
    let cap = c.cap;
    let mut cmp = |s: &T, other: &[u8]| -> Option<(Ordering, bool)> {
        let ob = Block::<T>::try_new(cap).ok()?;
        ob.get().push_bytes(other).ok()?;
        Some((s.cmp(ob.get()), *s == *ob.get()))
    };
    let mut scratch = Obs::default();
    relocating!(c, mem, T, obs, scratch, false, |s: &T| !s.is_empty(), |fetch, hook| run_string_ops(&mut fetch, c.cap, false, &c.ops, &mut cmp, &mut hook, &mut scratch, &known))
}

fn run_option(c: &Case<OOp>, obs: &mut Obs) -> Result<(), Failure> {
    tracked::reset();
    obs.class("struct.option");
    type T = RelocatableOption<Tracked>;
    let mem = Mem::<T>::raw(c.mem, core::mem::size_of::<T>());
    unsafe { (mem.base() as *mut T).write(RelocatableOption::None) };
    let r = (|| {
        let mut scratch = Obs::default();
        relocating!(c, mem, T, obs, scratch, true, |o: &T| o.is_some(), |fetch, hook| run_option_ops::<Tracked>(&mut fetch, &c.ops, &mut hook, &mut scratch))
    })();
    finish_tracked("option", r)
}

/// the three parts of one family: exhaustive with one relocation point / after every op, random
fn family<O>(
    ctx: &mut Ctx,
    name: &str,
    alphabet: Vec<O>,
    len: usize,
    cfgs: u8,
    caps: &[usize],
    strategy: impl Strategy<Value = O> + 'static,
    random_cases: u64,
    run: fn(&Case<O>, &mut Obs) -> Result<(), Failure>,
) where
    O: Clone + std::fmt::Debug + Serialize + DeserializeOwned + 'static,
{
    let pats = patterns(len);
    let caps_v = caps.to_vec();
    let alpha = &alphabet;
    let pats_r = &pats;
    let cases = (0..cfgs).flat_map(move |cfg| {
        let caps_v = caps_v.clone();
        caps_v.into_iter().flat_map(move |cap| {
            [crate::mem::KIND_COPY, crate::mem::KIND_VIEWS].into_iter().flat_map(move |mem| {
                op_sequences(alpha, len).flat_map(move |ops| pats_r.iter().map(move |(start, reloc)| Case { cfg, cap, mem, start: *start, reloc: reloc.clone(), ops: ops.clone() }))
            })
        })
    });
    ctx.enumerate(
        &format!("{name}.exhaustive"),
        &format!(
            "all op sequences of length {len} over a {}-op alphabet x capacities {caps:?} x {cfgs} configuration(s) x relocation by copy / by second view x {} relocation patterns (after construction, after each prefix, after every op)",
            alphabet.len(),
            pats.len()
        ),
        cases,
        |c, obs| run(c, obs),
    );
    let strat = (0..cfgs, 0usize..=4, 0u8..8, any::<bool>(), 0u8..5, proptest::collection::vec((strategy, any::<u8>()), 0..200)).prop_map(|(cfg, cap, mem, start, density, v)| {
        let mem = crate::mem_kind(mem);
        let (ops, bytes): (Vec<O>, Vec<u8>) = v.into_iter().unzip();
        Case { cfg, cap, mem, start, reloc: mask(mem, density, &bytes), ops }
    });
    ctx.proptest(&format!("{name}.random"), random_cases, strat, |c, obs| run(c, obs));
}

pub fn parts(ctx: &mut Ctx) {
    let len = ctx.scale(5, 6);
    let n = ctx.scale(12_000, 400_000);
    family(ctx, "vec", vop_alphabet(), len, 1, &[1, 2, 3], vop_strategy(), n, run_vec);
    family(ctx, "queue", qop_alphabet(), ctx.scale(6, 7), 2, &[1, 2, 3], qop_strategy(), n, run_queue);
    family(ctx, "slotmap", sop_alphabet(), len, 1, &[1, 2, 3], sop_strategy(), n, run_slotmap);
    family(ctx, "flatmap", fop_alphabet(), len, 1, &[1, 2, 3], fop_strategy(), n, run_flatmap);
    family(ctx, "string", strop_alphabet(), len, 1, &[1, 2, 3], strop_strategy(), n, run_string);
    family(ctx, "option", oop_alphabet(), len, 1, &[1], oop_strategy(), n, run_option);
}
