//! bb `PoolAllocator`, cal `shm_allocator::PoolAllocator` and cal `shm_allocator::BumpAllocator`,
//! observed through segment-relative offsets.
//!
//! Block layout (what `shared_memory/common.rs` builds in a dynamic storage): the allocator object
//! at offset 0, its management memory (the index set's free list) behind it, then the payload
//! region it hands out. The allocator is created once, by the "creating process", with the absolute
//! address of the payload region *at that time* (`new_uninit(.., managed_memory, ..)` + `init`).
//! An opener never re-initialises it (`Builder::open` only computes
//! `payload_start_address = &details + payload_start_offset + allocator.relative_start_address()`),
//! so after a relocation the harness does exactly that: results are `PointerOffset`s (cal) or
//! `ptr - start_address()` (bb; that is how the cal wrapper turns its pointers into offsets), and
//! payload bytes are touched at `block base + payload offset + relative start + offset`.
use crate::driver::{self, Build, Sut};
use crate::mem::Mem;
use core::alloc::Layout;
use core::ptr::NonNull;
use iceoryx2_bb_elementary::bump_allocator::BumpAllocator as MgmtAllocator;
use iceoryx2_bb_elementary_traits::allocator::{Allocate, Deallocate};
use iceoryx2_bb_memory::pool_allocator::PoolAllocator as BbPool;
use iceoryx2_cal::shm_allocator::bump_allocator::{BumpAllocator as CalBump, Config as BumpConfig};
use iceoryx2_cal::shm_allocator::pool_allocator::{Config as PoolConfig, PoolAllocator as CalPool};
use iceoryx2_cal::shm_allocator::{PointerOffset, ShmAllocator};
use proptest::prelude::*;
use serde::{Deserialize, Serialize};
use vcore::Ctx;
use vcore::util::idx;

const HDR: usize = 256;
const MGMT: usize = 256;
pub const BB_POOL: u8 = 0;
pub const CAL_POOL: u8 = 1;
pub const CAL_BUMP: u8 = 2;

/// bucket layouts (size a multiple of the alignment: other layouts are C15's subject)
const BUCKETS: [(usize, usize); 5] = [(16, 8), (64, 64), (8, 8), (32, 4), (24, 8)];

#[derive(Clone, Copy, Debug)]
pub struct Geo {
    bucket: (usize, usize),
    payload_off: usize,
    /// distance from the payload start to the first usable byte (alignment adjustment)
    pad: usize,
    payload_len: usize,
    size: usize,
}

fn geo(kind: u8, cap: usize, cfg: u8) -> Geo {
    if kind == CAL_BUMP {
        let skew = [0usize, 4][cfg as usize % 2];
        let payload_off = HDR + MGMT + skew;
        let payload_len = cap * 24 + [0usize, 5][(cfg as usize / 2) % 2];
        Geo { bucket: (0, 8), payload_off, pad: 0, payload_len, size: payload_off + payload_len + 64 }
    } else {
        let bucket = BUCKETS[cfg as usize % BUCKETS.len()];
        let skew = [8usize, 0][(cfg as usize / BUCKETS.len()) % 2];
        let payload_off = HDR + MGMT + skew;
        let pad = payload_off.next_multiple_of(bucket.1) - payload_off;
        let payload_len = pad + cap * bucket.0 + bucket.0 / 2;
        Geo { bucket, payload_off, pad, payload_len, size: payload_off + payload_len + 64 }
    }
}

#[derive(Clone, Debug, Serialize, Deserialize)]
pub enum AOp {
    /// (request layout selector, marker byte written into the chunk)
    Alloc(u8, u8),
    /// selector among the live chunks
    Dealloc(u16),
}

#[derive(Debug)]
pub enum ACop {
    Alloc { size: usize, align: usize, marker: u8 },
    Dealloc { pos: usize, via_bucket: bool },
}

#[derive(Debug, PartialEq)]
pub enum ARes {
    Alloc(Result<usize, String>),
    Dealloc,
}

#[derive(Clone, Copy, Debug)]
struct Chunk {
    off: usize,
    len: usize,
    marker: u8,
}

pub struct AModel {
    kind: u8,
    cap: usize,
    geo: Geo,
    live: Vec<Chunk>,
    /// bump allocator: used space
    pos: usize,
}

pub struct Local {
    geo: Geo,
    /// absolute address of the payload region in the mapping of the creating "process" (a plain
    /// number, exactly what cal keeps as `base_address`)
    creator_payload: usize,
    live: Vec<Chunk>,
}

pub struct AllocSut<const K: u8>;

unsafe fn relative_start<const K: u8>(base: *mut u8, l: &Local) -> usize {
    unsafe {
        match K {
            BB_POOL => ((*(base as *const BbPool)).start_address() as usize).wrapping_sub(l.creator_payload),
            CAL_POOL => (*(base as *const CalPool)).relative_start_address(),
            _ => (*(base as *const CalBump)).relative_start_address(),
        }
    }
}

/// address of a chunk in the *current* mapping
unsafe fn chunk_ptr<const K: u8>(base: *mut u8, l: &Local, off: usize, len: usize) -> Option<*mut u8> {
    let rel = unsafe { relative_start::<K>(base, l) };
    if rel.checked_add(off)?.checked_add(len)? > l.geo.payload_len {
        return None;
    }
    Some(unsafe { base.add(l.geo.payload_off + rel + off) })
}

fn content_code(bytes: &[u8], marker: u8) -> u64 {
    match bytes.iter().position(|b| *b != marker) {
        None => marker as u64,
        Some(i) => 0x1_0000 + ((i as u64) << 8) + bytes[i] as u64,
    }
}

impl<const K: u8> Sut for AllocSut<K> {
    const NAME: &'static str = match K {
        BB_POOL => "bb_pool_allocator",
        CAL_POOL => "cal_pool_allocator",
        _ => "cal_bump_allocator",
    };
    const CLASS: &'static str = match K {
        BB_POOL => "struct.bb_pool_allocator",
        CAL_POOL => "struct.cal_pool_allocator",
        _ => "struct.cal_bump_allocator",
    };
    const OBSERVES_CONTENT: bool = true;
    type T = u8;
    type Op = AOp;
    type Cop = ACop;
    type Res = ARes;
    type Model = AModel;
    type Local = Local;

    fn build(kind: u8, cap: usize, cfg: u8) -> Build<u8, Local> {
        let g = geo(K, cap, cfg);
        let mem = Mem::<u8>::raw(kind, g.size);
        let base = mem.base();
        let payload = unsafe { base.add(g.payload_off) };
        let mgmt = MgmtAllocator::new(NonNull::new(unsafe { base.add(HDR) }).unwrap(), MGMT);
        let managed = NonNull::slice_from_raw_parts(NonNull::new(payload).unwrap(), g.payload_len);
        let r: Result<(), String> = unsafe {
            match K {
                BB_POOL => {
                    assert!(core::mem::size_of::<BbPool>() <= HDR);
                    let lay = Layout::from_size_align(g.bucket.0, g.bucket.1).unwrap();
                    assert!(BbPool::memory_size(lay, g.payload_len) <= MGMT);
                    let p = base as *mut BbPool;
                    p.write(BbPool::new_uninit(lay, NonNull::new(payload).unwrap(), g.payload_len));
                    (*p).init(&mgmt).map_err(|e| format!("{e:?}"))
                }
                CAL_POOL => {
                    assert!(core::mem::size_of::<CalPool>() <= HDR);
                    let cfg = PoolConfig { bucket_layout: Layout::from_size_align(g.bucket.0, g.bucket.1).unwrap() };
                    assert!(CalPool::management_size(g.payload_len, &cfg) <= MGMT);
                    let p = base as *mut CalPool;
                    p.write(CalPool::new_uninit(128, managed, &cfg));
                    (*p).init(&mgmt).map_err(|e| format!("{e:?}"))
                }
                _ => {
                    assert!(core::mem::size_of::<CalBump>() <= HDR);
                    let p = base as *mut CalBump;
                    p.write(CalBump::new_uninit(128, managed, &BumpConfig::default()));
                    (*p).init(&mgmt).map_err(|e| format!("{e:?}"))
                }
            }
        };
        match r {
            Ok(()) => Build::Ready(mem, Local { geo: g, creator_payload: payload as usize, live: vec![] }),
            Err(e) => Build::Refused(e),
        }
    }

    fn model(cap: usize, cfg: u8) -> AModel {
        AModel { kind: K, cap, geo: geo(K, cap, cfg), live: vec![], pos: 0 }
    }

    fn concretize(op: &AOp, m: &AModel) -> Option<ACop> {
        match op {
            AOp::Alloc(req, marker) => {
                let (bs, ba) = m.geo.bucket;
                let (size, align) = if K == CAL_BUMP {
                    [(1, 1), (8, 8), (24, 8), (3, 2), (100, 4), (0, 1), (8, 16), (5, 1)][*req as usize % 8]
                } else {
                    match req % 6 {
                        0 => (bs, ba),
                        1 => (1, 1),
                        2 => ((bs / 2).max(1), ba.min(2)),
                        3 => (bs - 1, ba),
                        4 => (bs + 1, 1),
                        _ => (1, ba * 2),
                    }
                };
                // markers differ from both fill patterns of the memory (0x5A fresh, 0xA5 poison)
                Some(ACop::Alloc { size, align, marker: 1 + marker % 64 })
            }
            AOp::Dealloc(sel) => {
                if m.live.is_empty() {
                    None
                } else {
                    Some(ACop::Dealloc { pos: idx(*sel, m.live.len()), via_bucket: sel % 2 == 1 })
                }
            }
        }
    }

    unsafe fn apply(base: *mut u8, l: &mut Local, op: &ACop) -> ARes {
        unsafe {
            match op {
                ACop::Alloc { size, align, marker } => {
                    let lay = Layout::from_size_align(*size, *align).unwrap();
                    let r: Result<usize, String> = match K {
                        BB_POOL => {
                            let a = &*(base as *const BbPool);
                            a.allocate(lay).map(|p| (p.as_ptr() as usize).wrapping_sub(a.start_address() as usize)).map_err(|e| format!("{e:?}"))
                        }
                        CAL_POOL => (*(base as *const CalPool)).assume_init().allocate(lay).map(|o| o.offset()).map_err(|e| format!("{e:?}")),
                        _ => (*(base as *const CalBump)).assume_init().allocate(lay).map(|o| o.offset()).map_err(|e| format!("{e:?}")),
                    };
                    if let Ok(off) = r {
                        // the whole bucket belongs to the caller; the bump allocator hands out `size` bytes
                        let len = if K == CAL_BUMP { *size } else { l.geo.bucket.0 };
                        match chunk_ptr::<K>(base, l, off, len) {
                            Some(p) => {
                                std::ptr::write_bytes(p, *marker, len);
                                l.live.push(Chunk { off, len, marker: *marker });
                            }
                            None => return ARes::Alloc(Err(format!("offset {off} (+{len}) lies outside of the payload region of {} bytes", l.geo.payload_len))),
                        }
                    }
                    ARes::Alloc(r)
                }
                ACop::Dealloc { pos, via_bucket } => {
                    let c = l.live[*pos];
                    let lay = Layout::from_size_align(c.len.max(1), 1).unwrap();
                    match K {
                        BB_POOL => {
                            let a = &*(base as *const BbPool);
                            let p = NonNull::new((a.start_address() as usize + c.off) as *mut u8).unwrap();
                            if *via_bucket { a.deallocate_bucket(p) } else { a.deallocate(p, lay) }
                            l.live.remove(*pos);
                        }
                        CAL_POOL => {
                            let a = &*(base as *const CalPool);
                            if *via_bucket { a.deallocate_bucket(PointerOffset::new(c.off)) } else { a.assume_init().deallocate(PointerOffset::new(c.off), lay) }
                            l.live.remove(*pos);
                        }
                        _ => {
                            // the bump allocator's deallocate releases everything
                            (*(base as *const CalBump)).assume_init().deallocate(PointerOffset::new(c.off), lay);
                            l.live.clear();
                        }
                    }
                    ARes::Dealloc
                }
            }
        }
    }

    fn check(m: &mut AModel, op: &ACop, r: &ARes) -> Result<bool, String> {
        match (op, r) {
            (ACop::Alloc { size, align, marker }, ARes::Alloc(res)) => {
                let (bs, ba) = m.geo.bucket;
                if m.kind == CAL_BUMP {
                    let exp: Result<usize, &str> = if *align > 8 {
                        Err("AlignmentFailure")
                    } else if *size == 0 {
                        Err("SizeIsZero")
                    } else {
                        // the base of every mapping is at least 128-aligned
                        let off = (m.geo.payload_off + m.pos).next_multiple_of(*align) - m.geo.payload_off;
                        if off + size > m.geo.payload_len { Err("OutOfMemory") } else { Ok(off) }
                    };
                    let got = res.as_ref().map(|o| *o).map_err(|e| e.as_str());
                    if got != exp {
                        return Err(format!("expected {exp:?}"));
                    }
                    if let Ok(off) = exp {
                        m.pos = off + size;
                        m.live.push(Chunk { off, len: *size, marker: *marker });
                    }
                    return Ok(false);
                }
                let expected_err = if m.kind == BB_POOL {
                    if *size > bs { Some("SizeTooLarge") } else if *align > ba { Some("AlignmentFailure") } else { None }
                } else if *align > ba {
                    Some("AlignmentFailure")
                } else if *size > bs {
                    Some("SizeTooLarge")
                } else {
                    None
                };
                let expected_err = expected_err.or(if m.live.len() == m.cap { Some("OutOfMemory") } else { None });
                match (expected_err, res) {
                    (Some(e), Err(g)) if e == g => Ok(false),
                    (Some(e), other) => Err(format!("expected Err({e}), got {other:?}")),
                    (None, Err(g)) => Err(format!("unexpected error {g} with {} of {} buckets in use", m.live.len(), m.cap)),
                    (None, Ok(off)) => {
                        if off % bs != 0 || off / bs >= m.cap {
                            return Err(format!("offset {off} is not k * {bs} with k < {}", m.cap));
                        }
                        if m.live.iter().any(|c| c.off == *off) {
                            return Err(format!("offset {off} is handed out twice (live {:?})", m.live));
                        }
                        m.live.push(Chunk { off: *off, len: bs, marker: *marker });
                        Ok(false)
                    }
                }
            }
            (ACop::Dealloc { pos, .. }, ARes::Dealloc) => {
                if m.kind == CAL_BUMP {
                    m.live.clear();
                    m.pos = 0;
                } else {
                    m.live.remove(*pos);
                }
                Ok(false)
            }
            _ => Err("result kind does not match the operation".into()),
        }
    }

    unsafe fn observe(base: *mut u8, l: &Local) -> Vec<u64> {
        unsafe {
            let mut v = match K {
                BB_POOL => {
                    let a = &*(base as *const BbPool);
                    vec![a.number_of_buckets() as u64, a.bucket_size() as u64, a.max_alignment() as u64, a.size() as u64]
                }
                CAL_POOL => {
                    let a = &*(base as *const CalPool);
                    vec![a.number_of_buckets() as u64, a.bucket_size() as u64, a.max_alignment() as u64, l.geo.payload_len as u64]
                }
                _ => {
                    let a = &*(base as *const CalBump);
                    vec![0, 0, a.max_alignment() as u64, a.total_space() as u64]
                }
            };
            v.push(relative_start::<K>(base, l) as u64);
            for c in &l.live {
                v.push(c.off as u64);
                v.push(match chunk_ptr::<K>(base, l, c.off, c.len) {
                    Some(p) => content_code(std::slice::from_raw_parts(p, c.len), c.marker),
                    None => u64::MAX,
                });
            }
            v
        }
    }

    fn expect(m: &AModel) -> Vec<u64> {
        let (bs, ba) = m.geo.bucket;
        let mut v = if m.kind == CAL_BUMP { vec![0, 0, 8, m.geo.payload_len as u64] } else { vec![m.cap as u64, bs as u64, ba as u64, m.geo.payload_len as u64] };
        v.push(m.geo.pad as u64);
        for c in &m.live {
            v.push(c.off as u64);
            v.push(c.marker as u64);
        }
        v
    }

    fn nonempty(m: &AModel) -> bool {
        !m.live.is_empty()
    }
}

fn strategy() -> impl Strategy<Value = AOp> {
    prop_oneof![
        5 => (prop_oneof![4 => Just(0u8), 1 => 0u8..8], any::<u8>()).prop_map(|(r, m)| AOp::Alloc(r, m)),
        4 => any::<u16>().prop_map(AOp::Dealloc),
    ]
}

pub fn parts(ctx: &mut Ctx) {
    let len = ctx.scale(5, 6);
    let n = ctx.scale(12_000, 400_000);
    let alpha = vec![AOp::Alloc(0, 1), AOp::Alloc(1, 2), AOp::Alloc(4, 3), AOp::Dealloc(0), AOp::Dealloc(65535)];
    driver::parts_cfg::<AllocSut<BB_POOL>>(ctx, alpha.clone(), len, 2, 10, &[0, 1, 2, 3], &[0, 1, 2, 3, 4], strategy(), n);
    driver::parts_cfg::<AllocSut<CAL_POOL>>(ctx, alpha, len, 2, 10, &[0, 1, 2, 3], &[0, 1, 2, 3, 4], strategy(), n);
    let balpha = vec![AOp::Alloc(0, 1), AOp::Alloc(1, 2), AOp::Alloc(2, 3), AOp::Alloc(6, 4), AOp::Dealloc(0)];
    driver::parts_cfg::<AllocSut<CAL_BUMP>>(ctx, balpha, len, 2, 4, &[0, 1, 2, 3], &[0, 1, 2, 3, 4], strategy(), n);
}
