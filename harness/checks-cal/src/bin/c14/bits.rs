//! RelocatableBitSet (set / reset_next / reset_all) and RelocatableCountingBitSet (set / reset_all)
//! vs set / counter models. Capacities beyond 8 make the bit set span several bytes.
use crate::driver::{self, Build, Sut};
use crate::mem::Mem;
use iceoryx2_bb_lock_free::mpmc::bit_set::RelocatableBitSet;
use iceoryx2_bb_lock_free::mpmc::counting_bit_set::RelocatableCountingBitSet;
use proptest::prelude::*;
use serde::{Deserialize, Serialize};
use std::collections::BTreeSet;
use vcore::Ctx;
use vcore::util::idx;

#[derive(Clone, Debug, Serialize, Deserialize)]
pub enum BOp {
    /// bit selector over 0..capacity (an id beyond the capacity is a contract violation)
    Set(u16),
    ResetNext,
    ResetAll,
}

#[derive(Debug)]
pub enum BCop {
    Set(usize),
    ResetNext,
    ResetAll,
}

#[derive(Debug, PartialEq)]
pub enum BRes {
    Set(bool),
    Next(Option<usize>),
    All(Vec<usize>),
    Count(u64),
    Counts(Vec<(usize, u64)>),
}

pub struct BModel {
    cap: usize,
    bits: BTreeSet<usize>,
}

pub struct BitSetSut;

fn concretize(op: &BOp, cap: usize) -> Option<BCop> {
    match op {
        BOp::Set(i) => {
            if cap == 0 {
                None
            } else {
                Some(BCop::Set(idx(*i, cap)))
            }
        }
        BOp::ResetNext => Some(BCop::ResetNext),
        BOp::ResetAll => Some(BCop::ResetAll),
    }
}

impl Sut for BitSetSut {
    const NAME: &'static str = "bit_set";
    const CLASS: &'static str = "struct.bit_set";
    type T = RelocatableBitSet;
    type Op = BOp;
    type Cop = BCop;
    type Res = BRes;
    type Model = BModel;
    type Local = ();

    fn build(kind: u8, cap: usize, _cfg: u8) -> Build<Self::T, ()> {
        match Mem::<Self::T>::try_new(kind, cap) {
            Ok(m) => Build::Ready(m, ()),
            Err(e) => Build::Refused(format!("{e:?}")),
        }
    }
    fn model(cap: usize, _cfg: u8) -> BModel {
        BModel { cap, bits: BTreeSet::new() }
    }
    fn concretize(op: &BOp, m: &BModel) -> Option<BCop> {
        concretize(op, m.cap)
    }
    unsafe fn apply(base: *mut u8, _l: &mut (), op: &BCop) -> BRes {
        let s = unsafe { &*(base as *const Self::T) };
        match op {
            BCop::Set(i) => BRes::Set(s.set(*i)),
            BCop::ResetNext => BRes::Next(s.reset_next()),
            BCop::ResetAll => {
                let mut v = vec![];
                s.reset_all(|i| v.push(i));
                BRes::All(v)
            }
        }
    }
    fn check(m: &mut BModel, op: &BCop, r: &BRes) -> Result<bool, String> {
        match (op, r) {
            (BCop::Set(i), BRes::Set(fresh)) => {
                let e = m.bits.insert(*i);
                if *fresh != e { Err(format!("expected {e} (true iff the bit was not set)")) } else { Ok(!e) }
            }
            (BCop::ResetNext, BRes::Next(n)) => match n {
                None => {
                    if m.bits.is_empty() {
                        Ok(false)
                    } else {
                        Err(format!("None although the bits {:?} are set", m.bits))
                    }
                }
                Some(i) => {
                    if m.bits.remove(i) {
                        Ok(true)
                    } else {
                        Err(format!("bit {i} was not set (set bits {:?})", m.bits))
                    }
                }
            },
            (BCop::ResetAll, BRes::All(v)) => {
                let mut got = v.clone();
                got.sort();
                let exp: Vec<usize> = m.bits.iter().copied().collect();
                if got != exp {
                    return Err(format!("callback must be called once for each of the set bits {exp:?}"));
                }
                m.bits.clear();
                Ok(!exp.is_empty())
            }
            _ => Err("result kind does not match the operation".into()),
        }
    }
    unsafe fn observe(base: *mut u8, _l: &()) -> Vec<u64> {
        vec![unsafe { &*(base as *const Self::T) }.capacity() as u64]
    }
    fn expect(m: &BModel) -> Vec<u64> {
        vec![m.cap as u64]
    }
    fn nonempty(m: &BModel) -> bool {
        !m.bits.is_empty()
    }
}

pub struct CModel {
    cap: usize,
    counts: Vec<u64>,
}

pub struct CountingBitSetSut;

impl Sut for CountingBitSetSut {
    const NAME: &'static str = "counting_bit_set";
    const CLASS: &'static str = "struct.counting_bit_set";
    type T = RelocatableCountingBitSet;
    type Op = BOp;
    type Cop = BCop;
    type Res = BRes;
    type Model = CModel;
    type Local = ();

    fn build(kind: u8, cap: usize, _cfg: u8) -> Build<Self::T, ()> {
        match Mem::<Self::T>::try_new(kind, cap) {
            Ok(m) => Build::Ready(m, ()),
            Err(e) => Build::Refused(format!("{e:?}")),
        }
    }
    fn model(cap: usize, _cfg: u8) -> CModel {
        CModel { cap, counts: vec![0; cap] }
    }
    fn concretize(op: &BOp, m: &CModel) -> Option<BCop> {
        match op {
            // the counting bit set has no reset_next
            BOp::ResetNext => None,
            _ => concretize(op, m.cap),
        }
    }
    unsafe fn apply(base: *mut u8, _l: &mut (), op: &BCop) -> BRes {
        let s = unsafe { &*(base as *const Self::T) };
        match op {
            BCop::Set(i) => BRes::Count(s.set(*i)),
            BCop::ResetAll => {
                let mut v = vec![];
                s.reset_all(|b| v.push((b.bit(), b.count())));
                BRes::Counts(v)
            }
            BCop::ResetNext => unreachable!(),
        }
    }
    fn check(m: &mut CModel, op: &BCop, r: &BRes) -> Result<bool, String> {
        match (op, r) {
            (BCop::Set(i), BRes::Count(old)) => {
                let e = m.counts[*i];
                m.counts[*i] += 1;
                if *old != e { Err(format!("expected the previous count {e}")) } else { Ok(e > 0) }
            }
            (BCop::ResetAll, BRes::Counts(v)) => {
                let mut got = v.clone();
                got.sort();
                let exp: Vec<(usize, u64)> = m.counts.iter().copied().enumerate().filter(|(_, c)| *c > 0).collect();
                if got != exp {
                    return Err(format!("callback must report {exp:?}"));
                }
                m.counts.iter_mut().for_each(|c| *c = 0);
                Ok(!exp.is_empty())
            }
            _ => Err("result kind does not match the operation".into()),
        }
    }
    unsafe fn observe(base: *mut u8, _l: &()) -> Vec<u64> {
        vec![unsafe { &*(base as *const Self::T) }.capacity() as u64]
    }
    fn expect(m: &CModel) -> Vec<u64> {
        vec![m.cap as u64]
    }
    fn nonempty(m: &CModel) -> bool {
        m.counts.iter().any(|c| *c > 0)
    }
}

fn strategy() -> impl Strategy<Value = BOp> {
    prop_oneof![6 => any::<u16>().prop_map(BOp::Set), 4 => Just(BOp::ResetNext), 1 => Just(BOp::ResetAll)]
}

pub fn parts(ctx: &mut Ctx) {
    let len = ctx.scale(5, 6);
    let n = ctx.scale(12_000, 400_000);
    let alpha = vec![BOp::Set(0), BOp::Set(30000), BOp::Set(65535), BOp::ResetNext, BOp::ResetAll];
    driver::parts::<BitSetSut>(ctx, alpha, len + 1, 1, &[0, 1, 2, 3, 9], &[0, 1, 2, 3, 4, 9, 20], strategy(), n);
    let calpha = vec![BOp::Set(0), BOp::Set(30000), BOp::Set(65535), BOp::ResetAll];
    driver::parts::<CountingBitSetSut>(ctx, calpha, len + 1, 1, &[0, 1, 2, 3], &[0, 1, 2, 3, 4, 9], strategy(), n);
}
