//! The memory a structure under test lives in, and the two ways of presenting the same bytes at
//! a different address:
//!
//! * `KIND_COPY` — `checks_bb::reloc::Block`: the bytes are copied to a fresh heap block, the old
//!   block is filled with 0xA5 and stays allocated. On top of `Block` this module remembers the
//!   previous block and verifies at the next relocation / at the end of the case that it is still
//!   all 0xA5 (a write through a stale absolute pointer lands there).
//! * `KIND_VIEWS` — one `memfd` mapped twice (`MAP_SHARED`) at two addresses; "relocate" switches
//!   the view the next operations go through. Both views stay mapped: that is exactly what two
//!   processes that opened the same segment look like.
//! * `KIND_VIEWS_DECOY` — like `KIND_VIEWS`, but the address range of the view that is *not* in
//!   use is re-mapped (`MAP_FIXED`) to private anonymous memory filled with 0xA5, so that an
//!   absolute address of the other "process" reads poison and a write through it is lost (and
//!   detected: the decoy must still be all 0xA5 when the views are switched back).
//!
//! Layout of every block (same as `Block::try_new`): the header `T` at offset 0, the payload the
//! structure allocates in `init` from `header_size::<T>()` (size of `T` rounded up to 64) on.

use checks_bb::reloc::Block;
use iceoryx2_bb_elementary::bump_allocator::BumpAllocator;
use iceoryx2_bb_elementary_traits::allocator::AllocationError;
use iceoryx2_bb_elementary_traits::relocatable_container::RelocatableContainer;
use std::ptr::NonNull;
use vcore::Failure;

pub const KIND_COPY: u8 = 0;
pub const KIND_VIEWS: u8 = 1;
pub const KIND_VIEWS_DECOY: u8 = 2;

pub const POISON: u8 = 0xA5;
const FRESH: u8 = 0x5A;

pub fn header_size<T>() -> usize {
    core::mem::size_of::<T>().div_ceil(64) * 64
}

fn all_poison(p: *const u8, len: usize) -> Option<usize> {
    let s = unsafe { std::slice::from_raw_parts(p, len) };
    s.iter().position(|b| *b != POISON)
}

/// The two mappings of one memfd. Creating them costs several system calls, so every worker
/// thread creates them once and re-uses them for all its cases (`TwoViews::new` refills the bytes
/// with the "fresh memory" pattern).
struct Mapping {
    fd: i32,
    len: usize,
    views: [*mut u8; 2],
}

const MAPPING_LEN: usize = 8192;

thread_local! {
    static MAPPING: std::cell::RefCell<Option<Mapping>> = const { std::cell::RefCell::new(None) };
}

impl Mapping {
    fn create() -> Self {
        let len = MAPPING_LEN;
        unsafe {
            let fd = libc::memfd_create(c"verif-c14".as_ptr(), libc::MFD_CLOEXEC);
            assert!(fd >= 0, "memfd_create failed: {}", std::io::Error::last_os_error());
            assert!(libc::ftruncate(fd, len as libc::off_t) == 0, "ftruncate failed");
            let map = || {
                let p = libc::mmap(std::ptr::null_mut(), len, libc::PROT_READ | libc::PROT_WRITE, libc::MAP_SHARED, fd, 0);
                assert!(p != libc::MAP_FAILED, "mmap failed: {}", std::io::Error::last_os_error());
                p as *mut u8
            };
            let a = map();
            let b = map();
            assert!(a != b);
            Mapping { fd, len, views: [a, b] }
        }
    }

    fn make_decoy(&self, i: usize, poisoned: usize) {
        unsafe {
            let p = libc::mmap(
                self.views[i] as *mut libc::c_void,
                self.len,
                libc::PROT_READ | libc::PROT_WRITE,
                libc::MAP_PRIVATE | libc::MAP_ANONYMOUS | libc::MAP_FIXED,
                -1,
                0,
            );
            assert!(p as *mut u8 == self.views[i], "mmap(decoy) failed: {}", std::io::Error::last_os_error());
            std::ptr::write_bytes(self.views[i], POISON, poisoned);
        }
    }

    fn map_shared(&self, i: usize) {
        unsafe {
            let p = libc::mmap(
                self.views[i] as *mut libc::c_void,
                self.len,
                libc::PROT_READ | libc::PROT_WRITE,
                libc::MAP_SHARED | libc::MAP_FIXED,
                self.fd,
                0,
            );
            assert!(p as *mut u8 == self.views[i], "mmap(view) failed: {}", std::io::Error::last_os_error());
        }
    }
}

impl Drop for Mapping {
    fn drop(&mut self) {
        unsafe {
            libc::munmap(self.views[0] as *mut libc::c_void, self.len);
            libc::munmap(self.views[1] as *mut libc::c_void, self.len);
            libc::close(self.fd);
        }
    }
}

pub struct TwoViews {
    map: Option<Mapping>,
    /// bytes in use (rounded up to 64); the decoy is poisoned and checked over this range
    used: usize,
    active: usize,
    decoy: bool,
}

impl TwoViews {
    pub fn new(size: usize, decoy: bool) -> Self {
        let used = size.max(1).div_ceil(64) * 64;
        assert!(used <= MAPPING_LEN, "structure of {size} bytes does not fit the mapping");
        let map = MAPPING.with(|m| m.borrow_mut().take()).unwrap_or_else(Mapping::create);
        unsafe { std::ptr::write_bytes(map.views[0], FRESH, used) };
        if decoy {
            map.make_decoy(1, used);
        }
        TwoViews { map: Some(map), used, active: 0, decoy }
    }

    fn map(&self) -> &Mapping {
        self.map.as_ref().unwrap()
    }

    pub fn base(&self) -> *mut u8 {
        self.map().views[self.active]
    }

    fn check_decoy(&self) -> Result<(), Failure> {
        if self.decoy {
            let other = 1 - self.active;
            if let Some(off) = all_poison(self.map().views[other], self.used) {
                return Err(Failure::new(
                    "mem.stale_write_into_other_view",
                    format!("the address range of the view that was not in use was written at offset {off} (an absolute address of the other mapping was used)"),
                ));
            }
        }
        Ok(())
    }

    pub fn switch(&mut self) -> Result<(), Failure> {
        let old = self.active;
        let new = 1 - old;
        if self.decoy {
            self.check_decoy()?;
            self.map().map_shared(new);
            self.map().make_decoy(old, self.used);
        }
        self.active = new;
        Ok(())
    }
}

impl Drop for TwoViews {
    fn drop(&mut self) {
        let map = self.map.take().unwrap();
        if self.decoy {
            map.map_shared(1 - self.active);
        }
        MAPPING.with(|m| *m.borrow_mut() = Some(map));
    }
}

enum Backing<T> {
    Copy { block: Block<T>, previous: Option<*mut u8> },
    Views(TwoViews),
}

pub struct Mem<T> {
    backing: Backing<T>,
    size: usize,
    pub relocations: usize,
}

impl<T: RelocatableContainer> Mem<T> {
    /// `new_uninit(capacity)` at the start of the block, `init` with a bump allocator over the tail
    pub fn try_new(kind: u8, capacity: usize) -> Result<Self, AllocationError> {
        if kind == KIND_COPY {
            let block = Block::<T>::try_new(capacity)?;
            let size = block.size();
            return Ok(Mem { backing: Backing::Copy { block, previous: None }, size, relocations: 0 });
        }
        assert!(core::mem::align_of::<T>() <= 128);
        let payload = T::memory_size(capacity) + 64;
        let size = header_size::<T>() + payload;
        let views = TwoViews::new(size, kind == KIND_VIEWS_DECOY);
        let base = views.base();
        unsafe {
            (base as *mut T).write(T::new_uninit(capacity));
            let alloc = BumpAllocator::new(NonNull::new(base.add(header_size::<T>())).unwrap(), payload);
            (*(base as *mut T)).init(&alloc)?;
        }
        Ok(Mem { backing: Backing::Views(views), size, relocations: 0 })
    }
}

impl<T> Mem<T> {
    /// raw block for structures that are constructed differently
    pub fn raw(kind: u8, size: usize) -> Self {
        let size = size.max(64);
        let backing = if kind == KIND_COPY { Backing::Copy { block: Block::<T>::raw(size), previous: None } } else { Backing::Views(TwoViews::new(size, kind == KIND_VIEWS_DECOY)) };
        Mem { backing, size, relocations: 0 }
    }

    pub fn base(&self) -> *mut u8 {
        match &self.backing {
            Backing::Copy { block, .. } => block.base(),
            Backing::Views(v) => v.base(),
        }
    }

    fn check_previous(&self) -> Result<(), Failure> {
        match &self.backing {
            Backing::Copy { previous: Some(p), .. } => {
                if let Some(off) = all_poison(*p, self.size) {
                    return Err(Failure::new(
                        "mem.stale_write_into_old_block",
                        format!("the block the structure was moved away from was written at offset {off} after the move (an absolute address of the old location was used)"),
                    ));
                }
                Ok(())
            }
            Backing::Copy { .. } => Ok(()),
            Backing::Views(v) => v.check_decoy(),
        }
    }

    /// presents the bytes at a different address
    pub fn relocate(&mut self) -> Result<(), Failure> {
        self.check_previous()?;
        match &mut self.backing {
            Backing::Copy { block, previous } => {
                let old = block.base();
                block.relocate();
                assert!(block.base() != old);
                *previous = Some(old);
            }
            Backing::Views(v) => v.switch()?,
        }
        self.relocations += 1;
        Ok(())
    }

    /// end of case: the abandoned memory must be untouched
    pub fn finish(&self) -> Result<(), Failure> {
        self.check_previous()
    }

    pub fn drop_in_place(&mut self) {
        unsafe { std::ptr::drop_in_place(self.base() as *mut T) };
    }
}
