//! RelocatableIndexQueue and RelocatableSafelyOverflowingIndexQueue vs `VecDeque` (incl. eviction).
use crate::driver::{self, Build, Sut};
use crate::mem::Mem;
use iceoryx2_bb_lock_free::spsc::index_queue::RelocatableIndexQueue;
use iceoryx2_bb_lock_free::spsc::safely_overflowing_index_queue::RelocatableSafelyOverflowingIndexQueue;
use proptest::prelude::*;
use serde::{Deserialize, Serialize};
use std::collections::VecDeque;
use vcore::Ctx;

#[derive(Clone, Debug, Serialize, Deserialize)]
pub enum QOp {
    /// value; even values go through the unsafe `push`, odd ones through an acquired `Producer`
    Push(u8),
    /// selector: even = unsafe `pop`, odd = acquired `Consumer`
    Pop(u8),
}

#[derive(Debug, PartialEq)]
pub enum QRes {
    Pushed(bool),
    Evicted(Option<u64>),
    Popped(Option<u64>),
}

pub struct QModel {
    cap: usize,
    q: VecDeque<u64>,
}

fn value(v: u8) -> u64 {
    // spread over the whole word so that a partially copied / poisoned cell cannot look right
    0x0101_0101_0101_0101u64.wrapping_mul(v as u64 + 1) ^ 0x8000_0000_0000_0000
}

fn strategy() -> impl Strategy<Value = QOp> {
    prop_oneof![5 => (0u8..16).prop_map(QOp::Push), 4 => (0u8..2).prop_map(QOp::Pop)]
}

fn alphabet() -> Vec<QOp> {
    vec![QOp::Push(2), QOp::Push(5), QOp::Pop(0), QOp::Pop(1)]
}

fn expect(m: &QModel) -> Vec<u64> {
    vec![m.q.len() as u64, m.q.is_empty() as u64, (m.q.len() == m.cap) as u64, m.cap as u64]
}

pub struct IndexQueueSut;

impl Sut for IndexQueueSut {
    const NAME: &'static str = "index_queue";
    const CLASS: &'static str = "struct.index_queue";
    type T = RelocatableIndexQueue;
    type Op = QOp;
    type Cop = QOp;
    type Res = QRes;
    type Model = QModel;
    type Local = ();

    fn build(kind: u8, cap: usize, _cfg: u8) -> Build<Self::T, ()> {
        match Mem::<Self::T>::try_new(kind, cap) {
            Ok(m) => Build::Ready(m, ()),
            Err(e) => Build::Refused(format!("{e:?}")),
        }
    }
    fn model(cap: usize, _cfg: u8) -> QModel {
        QModel { cap, q: VecDeque::new() }
    }
    fn concretize(op: &QOp, _m: &QModel) -> Option<QOp> {
        Some(op.clone())
    }
    unsafe fn apply(base: *mut u8, _l: &mut (), op: &QOp) -> QRes {
        let q = unsafe { &*(base as *const Self::T) };
        match op {
            QOp::Push(v) if v % 2 == 0 => QRes::Pushed(unsafe { q.push(value(*v)) }),
            QOp::Push(v) => QRes::Pushed(q.acquire_producer().expect("no other producer exists").push(value(*v))),
            QOp::Pop(s) if s % 2 == 0 => QRes::Popped(unsafe { q.pop() }),
            QOp::Pop(_) => QRes::Popped(q.acquire_consumer().expect("no other consumer exists").pop()),
        }
    }
    fn check(m: &mut QModel, op: &QOp, r: &QRes) -> Result<bool, String> {
        match op {
            QOp::Push(v) => {
                let ok = m.q.len() < m.cap;
                if *r != QRes::Pushed(ok) {
                    return Err(format!("expected Pushed({ok}) with len {} capacity {}", m.q.len(), m.cap));
                }
                if ok {
                    m.q.push_back(value(*v));
                }
                Ok(false)
            }
            QOp::Pop(_) => {
                let e = m.q.pop_front();
                if *r != QRes::Popped(e) {
                    return Err(format!("expected Popped({e:?})"));
                }
                Ok(e.is_some())
            }
        }
    }
    unsafe fn observe(base: *mut u8, _l: &()) -> Vec<u64> {
        let q = unsafe { &*(base as *const Self::T) };
        vec![q.len() as u64, q.is_empty() as u64, q.is_full() as u64, q.capacity() as u64]
    }
    fn expect(m: &QModel) -> Vec<u64> {
        expect(m)
    }
    fn nonempty(m: &QModel) -> bool {
        !m.q.is_empty()
    }
}

pub struct OverflowQueueSut;

impl Sut for OverflowQueueSut {
    const NAME: &'static str = "overflow_queue";
    const CLASS: &'static str = "struct.overflow_queue";
    type T = RelocatableSafelyOverflowingIndexQueue;
    type Op = QOp;
    type Cop = QOp;
    type Res = QRes;
    type Model = QModel;
    type Local = ();

    fn build(kind: u8, cap: usize, _cfg: u8) -> Build<Self::T, ()> {
        match Mem::<Self::T>::try_new(kind, cap) {
            Ok(m) => Build::Ready(m, ()),
            Err(e) => Build::Refused(format!("{e:?}")),
        }
    }
    fn model(cap: usize, _cfg: u8) -> QModel {
        QModel { cap, q: VecDeque::new() }
    }
    fn concretize(op: &QOp, m: &QModel) -> Option<QOp> {
        // capacity 0: nothing can be stored and there is no oldest element; no documented result
        if m.cap == 0 && matches!(op, QOp::Push(_)) { None } else { Some(op.clone()) }
    }
    unsafe fn apply(base: *mut u8, _l: &mut (), op: &QOp) -> QRes {
        let q = unsafe { &*(base as *const Self::T) };
        match op {
            QOp::Push(v) if v % 2 == 0 => QRes::Evicted(unsafe { q.push(value(*v)) }),
            QOp::Push(v) => QRes::Evicted(q.acquire_producer().expect("no other producer exists").push(value(*v))),
            QOp::Pop(s) if s % 2 == 0 => QRes::Popped(unsafe { q.pop() }),
            QOp::Pop(_) => QRes::Popped(q.acquire_consumer().expect("no other consumer exists").pop()),
        }
    }
    fn check(m: &mut QModel, op: &QOp, r: &QRes) -> Result<bool, String> {
        match op {
            QOp::Push(v) => {
                let e = if m.q.len() == m.cap { m.q.pop_front() } else { None };
                if *r != QRes::Evicted(e) {
                    return Err(format!("expected Evicted({e:?}) (the oldest element iff full)"));
                }
                m.q.push_back(value(*v));
                Ok(e.is_some())
            }
            QOp::Pop(_) => {
                let e = m.q.pop_front();
                if *r != QRes::Popped(e) {
                    return Err(format!("expected Popped({e:?})"));
                }
                Ok(e.is_some())
            }
        }
    }
    unsafe fn observe(base: *mut u8, _l: &()) -> Vec<u64> {
        let q = unsafe { &*(base as *const Self::T) };
        vec![q.len() as u64, q.is_empty() as u64, q.is_full() as u64, q.capacity() as u64]
    }
    fn expect(m: &QModel) -> Vec<u64> {
        expect(m)
    }
    fn nonempty(m: &QModel) -> bool {
        !m.q.is_empty()
    }
}

pub fn parts(ctx: &mut Ctx) {
    let len = ctx.scale(5, 6) + 1;
    let n = ctx.scale(12_000, 400_000);
    driver::parts::<IndexQueueSut>(ctx, alphabet(), len, 1, &[0, 1, 2, 3], &[0, 1, 2, 3, 4], strategy(), n);
    driver::parts::<OverflowQueueSut>(ctx, alphabet(), len, 1, &[0, 1, 2, 3], &[0, 1, 2, 3, 4], strategy(), n);
}
