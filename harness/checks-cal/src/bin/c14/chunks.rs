//! cal `RelocatableUsedChunkList` (insert / remove / remove_all) vs a set model.
use crate::driver::{self, Build, Sut};
use crate::mem::Mem;
use iceoryx2_cal::zero_copy_connection::used_chunk_list::RelocatableUsedChunkList;
use proptest::prelude::*;
use serde::{Deserialize, Serialize};
use std::collections::BTreeSet;
use vcore::Ctx;
use vcore::util::idx;

#[derive(Clone, Debug, Serialize, Deserialize)]
pub enum LOp {
    /// selector over 0..capacity (a value beyond the capacity is a contract violation)
    Insert(u16),
    Remove(u16),
    RemoveAll,
}

#[derive(Debug)]
pub enum LCop {
    Insert(usize),
    Remove(usize),
    RemoveAll,
}

#[derive(Debug, PartialEq)]
pub enum LRes {
    Flag(bool),
    All(Vec<usize>),
}

pub struct LModel {
    cap: usize,
    used: BTreeSet<usize>,
}

pub struct UsedChunkListSut;

impl Sut for UsedChunkListSut {
    const NAME: &'static str = "used_chunk_list";
    const CLASS: &'static str = "struct.used_chunk_list";
    type T = RelocatableUsedChunkList;
    type Op = LOp;
    type Cop = LCop;
    type Res = LRes;
    type Model = LModel;
    type Local = ();

    fn build(kind: u8, cap: usize, _cfg: u8) -> Build<Self::T, ()> {
        match Mem::<Self::T>::try_new(kind, cap) {
            Ok(m) => Build::Ready(m, ()),
            Err(e) => Build::Refused(format!("{e:?}")),
        }
    }
    fn model(cap: usize, _cfg: u8) -> LModel {
        LModel { cap, used: BTreeSet::new() }
    }
    fn concretize(op: &LOp, m: &LModel) -> Option<LCop> {
        match op {
            LOp::Insert(i) if m.cap > 0 => Some(LCop::Insert(idx(*i, m.cap))),
            LOp::Remove(i) if m.cap > 0 => Some(LCop::Remove(idx(*i, m.cap))),
            LOp::RemoveAll => Some(LCop::RemoveAll),
            _ => None,
        }
    }
    unsafe fn apply(base: *mut u8, _l: &mut (), op: &LCop) -> LRes {
        let s = unsafe { &*(base as *const Self::T) };
        match op {
            LCop::Insert(i) => LRes::Flag(s.insert(*i)),
            LCop::Remove(i) => LRes::Flag(s.remove(*i)),
            LCop::RemoveAll => {
                let mut v = vec![];
                s.remove_all(|i| v.push(i));
                LRes::All(v)
            }
        }
    }
    fn check(m: &mut LModel, op: &LCop, r: &LRes) -> Result<bool, String> {
        match (op, r) {
            (LCop::Insert(i), LRes::Flag(f)) => {
                let e = m.used.insert(*i);
                if *f != e { Err(format!("expected {e} (true iff the value was not in the list)")) } else { Ok(!e) }
            }
            (LCop::Remove(i), LRes::Flag(f)) => {
                let e = m.used.remove(i);
                if *f != e { Err(format!("expected {e} (true iff the value was in the list)")) } else { Ok(e) }
            }
            (LCop::RemoveAll, LRes::All(v)) => {
                let mut got = v.clone();
                got.sort();
                let exp: Vec<usize> = m.used.iter().copied().collect();
                if got != exp {
                    return Err(format!("callback must be called once for each of {exp:?}"));
                }
                m.used.clear();
                Ok(!exp.is_empty())
            }
            _ => Err("result kind does not match the operation".into()),
        }
    }
    unsafe fn observe(base: *mut u8, _l: &()) -> Vec<u64> {
        vec![unsafe { &*(base as *const Self::T) }.capacity() as u64]
    }
    fn expect(m: &LModel) -> Vec<u64> {
        vec![m.cap as u64]
    }
    fn nonempty(m: &LModel) -> bool {
        !m.used.is_empty()
    }
}

fn strategy() -> impl Strategy<Value = LOp> {
    prop_oneof![6 => any::<u16>().prop_map(LOp::Insert), 5 => any::<u16>().prop_map(LOp::Remove), 1 => Just(LOp::RemoveAll)]
}

pub fn parts(ctx: &mut Ctx) {
    let len = ctx.scale(5, 6);
    let n = ctx.scale(12_000, 400_000);
    let alpha = vec![LOp::Insert(0), LOp::Insert(65535), LOp::Remove(0), LOp::Remove(65535), LOp::RemoveAll];
    driver::parts::<UsedChunkListSut>(ctx, alpha, len + 1, 1, &[0, 1, 2, 3], &[0, 1, 2, 3, 4, 17], strategy(), n);
}
