//! mpmc `Container<u64>` (the port registry): add / remove / recover / get_state / update_state and
//! reads through the element pointer `add` returned (re-based onto the current view) vs a map model.
//!
//! Contracts respected: every handle is removed at most once; after `recover(owner)` the handles of
//! that owner are never passed to `remove` again; a `ContainerState` is only updated by the
//! container that created it. Handles and states are process-local values kept by the harness.
use crate::driver::{self, Build, Sut};
use crate::mem::Mem;
use iceoryx2_bb_lock_free::mpmc::container::{CallbackProgression, Container, ContainerAddFailure, ContainerHandle, ContainerState, OwnerId};
use iceoryx2_bb_lock_free::mpmc::unique_index_set_enums::{ReleaseMode, ReleaseState};
use proptest::prelude::*;
use serde::{Deserialize, Serialize};
use std::collections::BTreeMap;
use vcore::Ctx;
use vcore::util::idx;

const STATES: usize = 2;

#[derive(Clone, Debug, Serialize, Deserialize)]
pub enum COp {
    /// (value, owner)
    Add(u8, u8),
    /// (selector among the removable handles, LockIfLastIndex?)
    Remove(u16, bool),
    /// (owner, predicate: 0 = always, 1 = even values only, LockIfLastIndex?)
    Recover(u8, u8, bool),
    GetState(u8),
    UpdateState(u8),
    /// read the element through the pointer `add` returned, re-based onto the current mapping
    ReadPtr(u16),
}

#[derive(Debug)]
pub enum CCop {
    Add(u64, u64),
    /// position in the handle list
    Remove(usize, bool),
    Recover(u64, u8, bool),
    GetState(usize),
    UpdateState(usize),
    ReadPtr(usize),
}

#[derive(Debug, PartialEq)]
pub enum CRes {
    /// Ok(index, offset of the element pointer from the block base, value read through it)
    /// Err(true) = IsLocked, Err(false) = OutOfSpace
    Added(Result<(usize, usize, u64), bool>),
    Removed(Result<bool, ()>),
    Recovered(bool),
    /// (changed, for_each listing, get(i) for every i)
    State(bool, Vec<(usize, u64)>, Vec<Option<u64>>),
    Read(u64),
}

#[derive(Clone, Copy, Debug)]
struct Entry {
    index: usize,
    owner: u64,
    value: u64,
    removable: bool,
}

pub struct CModel {
    cap: usize,
    /// live entries in the order of their `add` (same order as `Local::handles`)
    entries: Vec<Entry>,
    locked: bool,
    /// per snapshot slot: Some(certainly changed since the last sync?, possibly changed?)
    snap: [Option<(bool, bool)>; STATES],
}

pub struct Local {
    /// (handle, offset of the element pointer from the block base, owner, value)
    handles: Vec<(ContainerHandle, usize, u64, u64)>,
    states: [Option<ContainerState<u64>>; STATES],
}

pub struct ContainerSut;

fn owner(o: u8) -> u64 {
    0x0101_0101_0101_0101u64 * (o as u64 % 3 + 1)
}

fn value(v: u8) -> u64 {
    0x1000_0000_0000_0000 | ((v as u64) << 32) | v as u64
}

fn mode(lock: bool) -> ReleaseMode {
    if lock { ReleaseMode::LockIfLastIndex } else { ReleaseMode::Default }
}

fn listing(st: &ContainerState<u64>, cap: usize) -> (Vec<(usize, u64)>, Vec<Option<u64>>) {
    let mut l = vec![];
    st.for_each(|i, v| {
        l.push((i, *v));
        CallbackProgression::Continue
    });
    (l, (0..cap).map(|i| st.get(i).copied()).collect())
}

impl CModel {
    fn contents(&self) -> Vec<(usize, u64)> {
        let m: BTreeMap<usize, u64> = self.entries.iter().map(|e| (e.index, e.value)).collect();
        m.into_iter().collect()
    }
    fn touched(&mut self, certain: bool) {
        for s in self.snap.iter_mut().flatten() {
            s.0 |= certain;
            s.1 = true;
        }
    }
}

impl Sut for ContainerSut {
    const NAME: &'static str = "container";
    const CLASS: &'static str = "struct.container";
    type T = Container<u64>;
    type Op = COp;
    type Cop = CCop;
    type Res = CRes;
    type Model = CModel;
    type Local = Local;

    fn build(kind: u8, cap: usize, _cfg: u8) -> Build<Self::T, Local> {
        match Mem::<Self::T>::try_new(kind, cap) {
            Ok(m) => Build::Ready(m, Local { handles: vec![], states: [None, None] }),
            Err(e) => Build::Refused(format!("{e:?}")),
        }
    }
    fn model(cap: usize, _cfg: u8) -> CModel {
        CModel { cap, entries: vec![], locked: false, snap: [None; STATES] }
    }
    fn concretize(op: &COp, m: &CModel) -> Option<CCop> {
        match op {
            COp::Add(v, o) => Some(CCop::Add(value(*v), owner(*o))),
            COp::Remove(sel, lock) => {
                let r: Vec<usize> = (0..m.entries.len()).filter(|i| m.entries[*i].removable).collect();
                if r.is_empty() { None } else { Some(CCop::Remove(r[idx(*sel, r.len())], *lock)) }
            }
            COp::Recover(o, p, lock) => Some(CCop::Recover(owner(*o), p % 2, *lock)),
            COp::GetState(s) => Some(CCop::GetState(*s as usize % STATES)),
            COp::UpdateState(s) => {
                let s = *s as usize % STATES;
                m.snap[s].map(|_| CCop::UpdateState(s))
            }
            COp::ReadPtr(sel) => {
                if m.entries.is_empty() {
                    None
                } else {
                    Some(CCop::ReadPtr(idx(*sel, m.entries.len())))
                }
            }
        }
    }
    unsafe fn apply(base: *mut u8, l: &mut Local, op: &CCop) -> CRes {
        let c = unsafe { &*(base as *const Self::T) };
        match op {
            CCop::Add(v, o) => match unsafe { c.add(*v, OwnerId::new(*o).unwrap()) } {
                Ok((ptr, h)) => {
                    let off = (ptr as usize).wrapping_sub(base as usize);
                    l.handles.push((h, off, *o, *v));
                    CRes::Added(Ok((h.index(), off, unsafe { *ptr })))
                }
                Err(ContainerAddFailure::OutOfSpace) => CRes::Added(Err(false)),
                Err(ContainerAddFailure::IsLocked) => CRes::Added(Err(true)),
            },
            CCop::Remove(pos, lock) => {
                let (h, ..) = l.handles.remove(*pos);
                CRes::Removed(unsafe { c.remove(h, mode(*lock)) }.map(|s| s == ReleaseState::Locked).map_err(|_| ()))
            }
            CCop::Recover(o, p, lock) => {
                let p = *p;
                let st = unsafe { c.recover(OwnerId::new(*o).unwrap(), |v| p == 0 || v % 2 == 0, mode(*lock)) };
                // the handles of the entries that had to be recovered are void
                let o = *o;
                l.handles.retain(|(_, _, ho, hv)| !(*ho == o && (p == 0 || hv % 2 == 0)));
                CRes::Recovered(st == ReleaseState::Locked)
            }
            CCop::GetState(s) => {
                let st = unsafe { c.get_state() };
                let (a, b) = listing(&st, c.capacity());
                l.states[*s] = Some(st);
                CRes::State(true, a, b)
            }
            CCop::UpdateState(s) => {
                let st = l.states[*s].as_mut().expect("model and local snapshots agree");
                let changed = unsafe { c.update_state(st) };
                let (a, b) = listing(st, c.capacity());
                CRes::State(changed, a, b)
            }
            CCop::ReadPtr(pos) => {
                let (_, off, ..) = l.handles[*pos];
                CRes::Read(unsafe { *(base.add(off) as *const u64) })
            }
        }
    }
    fn check(m: &mut CModel, op: &CCop, r: &CRes) -> Result<bool, String> {
        match (op, r) {
            (CCop::Add(v, o), CRes::Added(res)) => match res {
                Err(true) => if m.locked { Ok(false) } else { Err("IsLocked on a container that is not locked".into()) },
                Err(false) => if !m.locked && m.entries.len() == m.cap { Ok(false) } else { Err(format!("OutOfSpace with {} of {} elements", m.entries.len(), m.cap)) },
                Ok((index, _off, read)) => {
                    if m.locked || m.entries.len() >= m.cap {
                        return Err(format!("add succeeded with {} of {} elements, locked {}", m.entries.len(), m.cap, m.locked));
                    }
                    if *index >= m.cap || m.entries.iter().any(|e| e.index == *index) {
                        return Err(format!("index {index} is out of range or in use ({:?})", m.entries));
                    }
                    if read != v {
                        return Err(format!("the returned element pointer reads {read:#x}, added {v:#x}"));
                    }
                    m.entries.push(Entry { index: *index, owner: *o, value: *v, removable: true });
                    m.touched(true);
                    Ok(false)
                }
            },
            (CCop::Remove(pos, lock), CRes::Removed(res)) => {
                m.entries.remove(*pos);
                let e = *lock && m.entries.is_empty();
                if *res != Ok(e) {
                    return Err(format!("expected Ok(locked = {e})"));
                }
                if e {
                    m.locked = true;
                }
                m.touched(true);
                Ok(true)
            }
            (CCop::Recover(o, p, lock), CRes::Recovered(locked)) => {
                if m.locked {
                    m.touched(false);
                    return if *locked { Ok(false) } else { Err("recover on a locked container must report Locked".into()) };
                }
                let before = m.entries.len();
                m.entries.retain(|e| !(e.owner == *o && (*p == 0 || e.value % 2 == 0)));
                let recovered = before - m.entries.len();
                // handles of the recovered owner must never be removed again
                m.entries.iter_mut().filter(|e| e.owner == *o).for_each(|e| e.removable = false);
                let e = *lock && recovered > 0 && m.entries.is_empty();
                if *locked != e {
                    return Err(format!("expected Locked == {e} ({recovered} entries recovered, {} left)", m.entries.len()));
                }
                if e {
                    m.locked = true;
                }
                m.touched(recovered > 0);
                Ok(recovered > 0)
            }
            (CCop::GetState(s), CRes::State(_, list, gets)) | (CCop::UpdateState(s), CRes::State(_, list, gets)) => {
                let exp = m.contents();
                if *list != exp {
                    return Err(format!("snapshot lists {list:?}, container holds {exp:?}"));
                }
                let eg: Vec<Option<u64>> = (0..m.cap).map(|i| exp.iter().find(|(k, _)| *k == i).map(|(_, v)| *v)).collect();
                if *gets != eg {
                    return Err(format!("snapshot get(i) = {gets:?}, expected {eg:?}"));
                }
                if let (CCop::UpdateState(_), CRes::State(changed, ..)) = (op, r) {
                    let (certain, possible) = m.snap[*s].unwrap();
                    if certain && !*changed {
                        return Err("update_state returned false although an element was added or removed since the last sync".into());
                    }
                    if !possible && *changed {
                        return Err("update_state returned true although nothing happened since the last sync".into());
                    }
                }
                m.snap[*s] = Some((false, false));
                Ok(!exp.is_empty())
            }
            (CCop::ReadPtr(pos), CRes::Read(v)) => {
                let e = m.entries[*pos].value;
                if *v != e { Err(format!("expected {e:#x}")) } else { Ok(true) }
            }
            _ => Err("result kind does not match the operation".into()),
        }
    }
    unsafe fn observe(base: *mut u8, _l: &Local) -> Vec<u64> {
        let c = unsafe { &*(base as *const Self::T) };
        vec![c.len() as u64, c.is_empty() as u64, c.is_locked() as u64, c.capacity() as u64]
    }
    fn expect(m: &CModel) -> Vec<u64> {
        let n = if m.locked { 0 } else { m.entries.len() };
        vec![n as u64, (n == 0) as u64, m.locked as u64, m.cap as u64]
    }
    fn nonempty(m: &CModel) -> bool {
        !m.entries.is_empty()
    }
}

fn strategy() -> impl Strategy<Value = COp> {
    prop_oneof![
        8 => (0u8..16, 0u8..3).prop_map(|(v, o)| COp::Add(v, o)),
        5 => any::<u16>().prop_map(|s| COp::Remove(s, false)),
        1 => any::<u16>().prop_map(|s| COp::Remove(s, true)),
        1 => (0u8..3, 0u8..2, any::<bool>()).prop_map(|(o, p, l)| COp::Recover(o, p, l && p == 0)),
        2 => (0u8..2).prop_map(COp::GetState),
        3 => (0u8..2).prop_map(COp::UpdateState),
        3 => any::<u16>().prop_map(COp::ReadPtr),
    ]
}

pub fn parts(ctx: &mut Ctx) {
    let len = ctx.scale(5, 6);
    let n = ctx.scale(12_000, 400_000);
    let alpha = vec![COp::Add(1, 0), COp::Add(2, 1), COp::Remove(0, false), COp::Remove(65535, true), COp::Recover(0, 1, false), COp::GetState(0), COp::UpdateState(0), COp::ReadPtr(0)];
    driver::parts::<ContainerSut>(ctx, alpha, len, 1, &[0, 1, 2, 3], &[0, 1, 2, 3, 4], strategy(), n);
}
