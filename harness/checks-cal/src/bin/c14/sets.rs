//! UniqueIndexSet (acquire_raw_index / release_raw_index / scoped acquire) and RobustUniqueIndexSet
//! (acquire / release / recover with owners) vs a set model with the documented release modes.
//!
//! Contracts respected: an index is released exactly once and only after it was acquired
//! (`release_raw_index` is unsafe otherwise). The robust set's `release` is given any index below
//! the capacity with any owner: a mismatch is a documented error value, not a contract violation.
use crate::driver::{self, Build, Sut};
use crate::mem::Mem;
use iceoryx2_bb_lock_free::mpmc::robust_unique_index_set::{OwnerId, RobustUniqueIndexSet};
use iceoryx2_bb_lock_free::mpmc::unique_index_set::UniqueIndexSet;
use iceoryx2_bb_lock_free::mpmc::unique_index_set_enums::{ReleaseMode, ReleaseState, UniqueIndexSetAcquireFailure};
use proptest::prelude::*;
use serde::{Deserialize, Serialize};
use std::collections::BTreeMap;
use vcore::Ctx;
use vcore::util::idx;

fn mode(lock: bool) -> ReleaseMode {
    if lock { ReleaseMode::LockIfLastIndex } else { ReleaseMode::Default }
}

#[derive(Debug, PartialEq, Clone)]
pub enum Acq {
    Index(usize),
    OutOfIndices,
    IsLocked,
}

fn acq<T: TryInto<usize>>(r: Result<T, UniqueIndexSetAcquireFailure>) -> Acq {
    match r {
        Ok(i) => Acq::Index(i.try_into().ok().unwrap()),
        Err(UniqueIndexSetAcquireFailure::OutOfIndices) => Acq::OutOfIndices,
        Err(UniqueIndexSetAcquireFailure::IsLocked) => Acq::IsLocked,
    }
}

// ---- UniqueIndexSet -------------------------------------------------------------------------

#[derive(Clone, Debug, Serialize, Deserialize)]
pub enum UOp {
    Acquire,
    /// `acquire()` and drop of the `UniqueIndex` guard (releases in default mode)
    AcquireScoped,
    /// (selector among the held indices, LockIfLastIndex?)
    Release(u16, bool),
}

#[derive(Debug)]
pub enum UCop {
    Acquire,
    AcquireScoped,
    Release(usize, bool),
}

#[derive(Debug, PartialEq)]
pub enum URes {
    Acq(Acq),
    Released(bool),
}

pub struct UModel {
    cap: usize,
    /// held indices in acquisition order
    held: Vec<usize>,
    locked: bool,
}

pub struct UniqueIndexSetSut;

impl UModel {
    fn expected_acquire(&self, got: &Acq) -> Result<(), String> {
        match got {
            Acq::IsLocked if self.locked => Ok(()),
            Acq::OutOfIndices if !self.locked && self.held.len() == self.cap => Ok(()),
            Acq::Index(i) if !self.locked && self.held.len() < self.cap && *i < self.cap && !self.held.contains(i) => Ok(()),
            _ => Err(format!("not allowed with held {:?}, capacity {}, locked {}", self.held, self.cap, self.locked)),
        }
    }
}

impl Sut for UniqueIndexSetSut {
    const NAME: &'static str = "unique_index_set";
    const CLASS: &'static str = "struct.unique_index_set";
    type T = UniqueIndexSet;
    type Op = UOp;
    type Cop = UCop;
    type Res = URes;
    type Model = UModel;
    type Local = ();

    fn build(kind: u8, cap: usize, _cfg: u8) -> Build<Self::T, ()> {
        match Mem::<Self::T>::try_new(kind, cap) {
            Ok(m) => Build::Ready(m, ()),
            Err(e) => Build::Refused(format!("{e:?}")),
        }
    }
    fn model(cap: usize, _cfg: u8) -> UModel {
        UModel { cap, held: vec![], locked: false }
    }
    fn concretize(op: &UOp, m: &UModel) -> Option<UCop> {
        match op {
            UOp::Acquire => Some(UCop::Acquire),
            UOp::AcquireScoped => Some(UCop::AcquireScoped),
            UOp::Release(sel, lock) => {
                if m.held.is_empty() {
                    None
                } else {
                    Some(UCop::Release(m.held[idx(*sel, m.held.len())], *lock))
                }
            }
        }
    }
    unsafe fn apply(base: *mut u8, _l: &mut (), op: &UCop) -> URes {
        let s = unsafe { &*(base as *const Self::T) };
        match op {
            UCop::Acquire => URes::Acq(acq(unsafe { s.acquire_raw_index() })),
            UCop::AcquireScoped => URes::Acq(acq(unsafe { s.acquire() }.map(|g| g.value()))),
            UCop::Release(i, lock) => URes::Released(unsafe { s.release_raw_index(*i as u32, mode(*lock)) } == ReleaseState::Locked),
        }
    }
    fn check(m: &mut UModel, op: &UCop, r: &URes) -> Result<bool, String> {
        match (op, r) {
            (UCop::Acquire, URes::Acq(a)) => {
                m.expected_acquire(a)?;
                if let Acq::Index(i) = a {
                    m.held.push(*i);
                }
                // the index and the new head come out of the free list stored in the block
                Ok(matches!(a, Acq::Index(_)))
            }
            (UCop::AcquireScoped, URes::Acq(a)) => {
                m.expected_acquire(a)?;
                Ok(matches!(a, Acq::Index(_)))
            }
            (UCop::Release(i, lock), URes::Released(locked)) => {
                let last = m.held.len() == 1;
                m.held.retain(|h| h != i);
                let e = *lock && last;
                if *locked != e {
                    return Err(format!("expected release state Locked == {e}"));
                }
                if e {
                    m.locked = true;
                }
                // the released index was stored in the set's free list while it was held elsewhere;
                // what the set stores and returns are the *free* indices
                Ok(false)
            }
            _ => Err("result kind does not match the operation".into()),
        }
    }
    unsafe fn observe(base: *mut u8, _l: &()) -> Vec<u64> {
        let s = unsafe { &*(base as *const Self::T) };
        vec![s.borrowed_indices() as u64, s.is_locked() as u64, s.capacity() as u64]
    }
    fn expect(m: &UModel) -> Vec<u64> {
        vec![if m.locked { 0 } else { m.held.len() as u64 }, m.locked as u64, m.cap as u64]
    }
    /// the set stores its free list: it holds "data" (links written after init) once something was
    /// acquired or released; use "an index is held" as the non-empty criterion
    fn nonempty(m: &UModel) -> bool {
        !m.held.is_empty()
    }
}

// ---- RobustUniqueIndexSet -------------------------------------------------------------------

#[derive(Clone, Debug, Serialize, Deserialize)]
pub enum ROp {
    /// owner 1..=3
    Acquire(u8),
    /// (index selector over 0..capacity, owner, LockIfLastIndex?); any combination is legal
    Release(u16, u8, bool),
    /// release a held index with its owner (selector among held)
    ReleaseHeld(u16, bool),
    Recover(u8, bool),
}

#[derive(Debug)]
pub enum RCop {
    Acquire(u64),
    Release(usize, u64, bool),
    Recover(u64, bool),
}

#[derive(Debug, PartialEq)]
pub enum RRes {
    Acq(Acq),
    /// Ok(locked) / Err(not owned)
    Released(Result<bool, ()>),
    Recovered(Vec<(u64, usize)>, bool),
}

pub struct RModel {
    cap: usize,
    /// index -> owner
    held: BTreeMap<usize, u64>,
    locked: bool,
}

pub struct RobustSetSut;

fn owner(o: u8) -> u64 {
    // large values: the owner id occupies the whole cell
    0x1111_1111_1111_1111u64 * (o as u64 % 3 + 1)
}

impl Sut for RobustSetSut {
    const NAME: &'static str = "robust_index_set";
    const CLASS: &'static str = "struct.robust_index_set";
    type T = RobustUniqueIndexSet;
    type Op = ROp;
    type Cop = RCop;
    type Res = RRes;
    type Model = RModel;
    type Local = ();

    fn build(kind: u8, cap: usize, _cfg: u8) -> Build<Self::T, ()> {
        match Mem::<Self::T>::try_new(kind, cap) {
            Ok(m) => Build::Ready(m, ()),
            Err(e) => Build::Refused(format!("{e:?}")),
        }
    }
    fn model(cap: usize, _cfg: u8) -> RModel {
        RModel { cap, held: BTreeMap::new(), locked: false }
    }
    fn concretize(op: &ROp, m: &RModel) -> Option<RCop> {
        match op {
            ROp::Acquire(o) => Some(RCop::Acquire(owner(*o))),
            // an index at or beyond the capacity would be an out-of-bounds access, not an error value
            ROp::Release(i, o, lock) => if m.cap == 0 { None } else { Some(RCop::Release(idx(*i, m.cap), owner(*o), *lock)) },
            ROp::ReleaseHeld(sel, lock) => {
                if m.held.is_empty() {
                    None
                } else {
                    let (i, o) = m.held.iter().nth(idx(*sel, m.held.len())).unwrap();
                    Some(RCop::Release(*i, *o, *lock))
                }
            }
            ROp::Recover(o, lock) => Some(RCop::Recover(owner(*o), *lock)),
        }
    }
    unsafe fn apply(base: *mut u8, _l: &mut (), op: &RCop) -> RRes {
        let s = unsafe { &*(base as *const Self::T) };
        match op {
            RCop::Acquire(o) => RRes::Acq(acq(unsafe { s.acquire(OwnerId::new(*o).unwrap()) })),
            RCop::Release(i, o, lock) => RRes::Released(unsafe { s.release(*i, OwnerId::new(*o).unwrap(), mode(*lock)) }.map(|st| st == ReleaseState::Locked).map_err(|_| ())),
            RCop::Recover(o, lock) => {
                let target = OwnerId::new(*o).unwrap();
                let mut got = vec![];
                // OwnerId has no accessor for its value: the callback's owner is compared with the
                // candidates the harness uses
                let st = unsafe {
                    s.recover(mode(*lock), |ow, _| ow == target, |ow, i| {
                        let v = (1..=3u8).map(owner).find(|c| OwnerId::new(*c).unwrap() == ow).unwrap_or(0);
                        got.push((v, i))
                    })
                };
                RRes::Recovered(got, st == ReleaseState::Locked)
            }
        }
    }
    fn check(m: &mut RModel, op: &RCop, r: &RRes) -> Result<bool, String> {
        match (op, r) {
            (RCop::Acquire(o), RRes::Acq(a)) => {
                let ok = match a {
                    Acq::IsLocked => m.locked,
                    Acq::OutOfIndices => !m.locked && m.held.len() == m.cap,
                    Acq::Index(i) => !m.locked && m.held.len() < m.cap && *i < m.cap && !m.held.contains_key(i),
                };
                if !ok {
                    return Err(format!("not allowed with held {:?}, capacity {}, locked {}", m.held, m.cap, m.locked));
                }
                if let Acq::Index(i) = a {
                    m.held.insert(*i, *o);
                }
                Ok(false)
            }
            (RCop::Release(i, o, lock), RRes::Released(res)) => {
                if m.held.get(i) == Some(o) {
                    m.held.remove(i);
                    let e = *lock && m.held.is_empty();
                    if *res != Ok(e) {
                        return Err(format!("expected Ok(locked = {e})"));
                    }
                    if e {
                        m.locked = true;
                    }
                    // the owner id stored in the cell was read and matched
                    Ok(true)
                } else {
                    if *res != Err(()) {
                        return Err(format!("expected IndexIsNotOwnedByProvidedOwner (cell holds {:?})", m.held.get(i)));
                    }
                    Ok(m.held.contains_key(i))
                }
            }
            (RCop::Recover(o, lock), RRes::Recovered(list, locked)) => {
                if m.locked {
                    return if list.is_empty() && *locked { Ok(false) } else { Err("a locked set recovers nothing and reports Locked".into()) };
                }
                let exp: Vec<(u64, usize)> = m.held.iter().filter(|(_, ow)| *ow == o).map(|(i, ow)| (*ow, *i)).collect();
                let mut got = list.clone();
                got.sort_by_key(|(_, i)| *i);
                if got != exp {
                    return Err(format!("expected the indices {exp:?} to be recovered"));
                }
                m.held.retain(|_, ow| ow != o);
                let e = *lock && !exp.is_empty() && m.held.is_empty();
                if *locked != e {
                    return Err(format!("expected Locked == {e}"));
                }
                if e {
                    m.locked = true;
                }
                Ok(!exp.is_empty())
            }
            _ => Err("result kind does not match the operation".into()),
        }
    }
    unsafe fn observe(base: *mut u8, _l: &()) -> Vec<u64> {
        let s = unsafe { &*(base as *const Self::T) };
        vec![s.borrowed_indices() as u64, s.is_locked() as u64, s.capacity() as u64]
    }
    fn expect(m: &RModel) -> Vec<u64> {
        vec![if m.locked { 0 } else { m.held.len() as u64 }, m.locked as u64, m.cap as u64]
    }
    fn nonempty(m: &RModel) -> bool {
        !m.held.is_empty()
    }
}

fn ustrategy() -> impl Strategy<Value = UOp> {
    prop_oneof![
        6 => Just(UOp::Acquire),
        1 => Just(UOp::AcquireScoped),
        5 => any::<u16>().prop_map(|s| UOp::Release(s, false)),
        1 => any::<u16>().prop_map(|s| UOp::Release(s, true)),
    ]
}

fn rstrategy() -> impl Strategy<Value = ROp> {
    prop_oneof![
        8 => (0u8..3).prop_map(ROp::Acquire),
        2 => (any::<u16>(), 0u8..3, any::<bool>()).prop_map(|(i, o, l)| ROp::Release(i, o, l && i % 4 == 0)),
        6 => any::<u16>().prop_map(|s| ROp::ReleaseHeld(s, false)),
        1 => any::<u16>().prop_map(|s| ROp::ReleaseHeld(s, true)),
        2 => (0u8..3).prop_map(|o| ROp::Recover(o, false)),
        1 => (0u8..3, any::<bool>()).prop_map(|(o, l)| ROp::Recover(o, l)),
    ]
}

pub fn parts(ctx: &mut Ctx) {
    let len = ctx.scale(5, 6);
    let n = ctx.scale(12_000, 400_000);
    let ualpha = vec![UOp::Acquire, UOp::AcquireScoped, UOp::Release(0, false), UOp::Release(65535, false), UOp::Release(0, true)];
    driver::parts::<UniqueIndexSetSut>(ctx, ualpha, len + 1, 1, &[0, 1, 2, 3], &[0, 1, 2, 3, 4], ustrategy(), n);
    let ralpha = vec![ROp::Acquire(0), ROp::Acquire(1), ROp::ReleaseHeld(0, false), ROp::ReleaseHeld(65535, false), ROp::ReleaseHeld(0, true), ROp::Release(0, 1, false), ROp::Recover(0, false), ROp::Recover(1, true)];
    driver::parts::<RobustSetSut>(ctx, ralpha, len, 1, &[0, 1, 2, 3], &[0, 1, 2, 3, 4], rstrategy(), n);
}
