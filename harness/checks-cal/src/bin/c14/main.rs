//! C14 — shared-memory data structures are position independent.
//!
//! Metamorphic relation: the sequence of results of an operation history is invariant under
//! `Relocate` steps inserted at arbitrary points (and equals the reference model's). A structure
//! is built the way shared memory does it — header and payload in one block, `new_uninit` +
//! `init` with a bump allocator over the tail — and the block is presented at a different address
//! between operations, in one of three ways (see `mem.rs`): copied to a fresh address with the
//! old block poisoned, or one memfd mapped twice with the operations alternating between the two
//! views (optionally with the unused view's address range replaced by a poisoned decoy).
//!
//! Group 1 (`containers.rs`): RelocatableVec / Queue / SlotMap / FlatMap / String / Option with the
//! interpreters and models of `checks_bb::models` (shared with C16), relocation in the step hook.
//! Group 2 (`driver.rs` + one module per family): the lock-free and cal structures, each with its
//! own op alphabet and model, single-threaded, and a never-relocated twin instance.
extern crate iceoryx2_bb_loggers;

mod allocs;
mod bits;
mod chunks;
mod containers;
mod driver;
mod mem;
mod queues;
mod registry;
mod sets;

use serde::{Deserialize, Serialize};
use vcore::{Ctx, Obs, Spec};

const SPEC: Spec = Spec {
    prop: "C14",
    level: "exploration",
    rule: "operation histories over each relocatable structure x capacity (0..4, bit sets also 9 and 20) x way of relocating (copy to a fresh address + poison the old block; one memfd mapped twice, alternating views; the same with the unused view replaced by a poisoned decoy) x set of relocation points. Bounded-exhaustive: all op sequences of length L over a reduced alphabet, each run once per single relocation point (after construction, after every prefix) and once with a relocation after every op; random: proptest histories up to 200 ops with a random relocation mask of random density. Oracle: every result equals the reference model's (group 1: interpreters shared with C16, full contents after every op, drop accounting; group 2: own models plus a twin instance that is never moved and must return identical results), the abandoned memory (old block / decoy view) is never written. Non-trivial = at least one relocation happened while the structure was non-empty and a later operation returned stored data. Distinct = hash of (structure, configuration, capacity, relocation kind, relocation points, op sequence)",
    assumptions: &[
        "single-threaded histories: the two views are used alternately, never concurrently (concurrency of these structures is C03/C09/C10)",
        "the allocators (bb PoolAllocator, cal PoolAllocator, cal BumpAllocator) keep the creator's absolute start address by design and are never re-initialised by an opener (shared_memory/common.rs open() only derives its own payload start address from the allocator's relative_start_address()); they are exercised exactly like that: allocate/deallocate are observed as offsets relative to start_address() / as PointerOffset, and payload bytes are addressed through the current mapping as block base + payload_start_offset + relative_start_address() + offset. `grow` with ContentPlacement::Back and the bump allocator's copying grow dereference the creator's absolute address and are only ever called by the creating process (sender ports) in iceoryx2; they are not generated",
        "ContainerState / ContainerHandle / acquired indices are process-local values held by the harness, not part of the relocated block",
        "a stale absolute pointer is visible through a wrong result (the old block / decoy view is filled with 0xA5), a write into the abandoned memory (checked at the next relocation and at the end of the case), or a crash of the worker; with both views mapped at once (relocation kind 1) a stale pointer into the other view still works, as it would not in a second process - kinds 0 and 2 are the ones that detect it",
        "push on a SafelyOverflowingIndexQueue of capacity 0 and push_with_overflow on a RelocatableQueue of capacity 0 have no documented result and are not generated; structures whose init refuses capacity 0 (allocation of zero bytes) are counted as refused cleanly",
    ],
    watchdog_quick_s: 1800,
    watchdog_thorough_s: 14400,
};

/// One generated case. `reloc[i]` = present the block at a different address after op `i`.
#[derive(Clone, Debug, Serialize, Deserialize)]
pub struct Case<O> {
    /// structure-specific configuration (element type, bucket layout, skew, ...)
    pub cfg: u8,
    pub cap: usize,
    /// mem::KIND_*
    pub mem: u8,
    /// relocate right after construction (structure still empty)
    pub start: bool,
    pub reloc: Vec<bool>,
    pub ops: Vec<O>,
}

impl<O> Case<O> {
    pub fn reloc_after(&self, step: usize) -> bool {
        self.reloc.get(step).copied().unwrap_or(false)
    }
}

/// The relocation patterns of the bounded-exhaustive parts for a sequence of `len` ops:
/// one relocation right after construction, one after each prefix, and one after every op.
pub fn patterns(len: usize) -> Vec<(bool, Vec<bool>)> {
    let mut v = vec![(true, vec![false; len])];
    for k in 0..len {
        let mut m = vec![false; len];
        m[k] = true;
        v.push((false, m));
    }
    v.push((true, vec![true; len]));
    v
}

/// NT bookkeeping shared by both groups
#[derive(Default)]
pub struct Tracker {
    pub relocated_nonempty: bool,
    pub returned_after: bool,
}

impl Tracker {
    pub fn finish(&self, obs: &mut Obs, mem_kind: u8, relocations: usize) {
        if relocations > 0 {
            obs.class(match mem_kind {
                mem::KIND_COPY => "copied_to_fresh_address",
                mem::KIND_VIEWS => "two_views",
                _ => "two_views_with_decoy",
            });
        }
        if self.relocated_nonempty {
            obs.class("relocated_nonempty");
        }
        if self.relocated_nonempty && self.returned_after {
            obs.class("returned_stored_data_after_relocation");
            obs.nontrivial = true;
        }
    }
}

/// relocation kind of a random history: copy 3/8, two views 4/8, two views with decoy 1/8 (the
/// decoy costs two mmap calls per switch)
pub fn mem_kind(sel: u8) -> u8 {
    match sel % 8 {
        0..=2 => mem::KIND_COPY,
        3..=6 => mem::KIND_VIEWS,
        _ => mem::KIND_VIEWS_DECOY,
    }
}

/// relocation mask of a random history: density selector + one byte per op
pub fn mask(mem_kind: u8, density: u8, bytes: &[u8]) -> Vec<bool> {
    // switching to a decoy view costs two mmap calls: at most every 8th op on average
    let density = if mem_kind == mem::KIND_VIEWS_DECOY { 2 + density % 2 } else { density };
    let threshold: u16 = match density % 5 {
        0 => 256,
        1 => 128,
        2 => 32,
        3 => 8,
        _ => 2,
    };
    bytes.iter().map(|b| (*b as u16) < threshold).collect()
}

fn body(ctx: &mut Ctx) {
    checks_bb::silence_iceoryx_log();
    containers::parts(ctx);
    queues::parts(ctx);
    sets::parts(ctx);
    bits::parts(ctx);
    registry::parts(ctx);
    chunks::parts(ctx);
    allocs::parts(ctx);
}

fn main() {
    vcore::main(SPEC, body);
}
