//! Group 2 driver: a structure with its own op alphabet and model, used single-threaded.
//!
//! Every case builds two instances: the structure under test in relocatable memory (`Mem`) and a
//! twin in a plain block that is never moved. Both receive the same concrete operations; after
//! every operation
//!   1. the results of the two must be identical (the metamorphic relation proper: the result
//!      sequence does not depend on where relocations were inserted),
//!   2. the result must be one the model allows (documented behaviour; where the documentation
//!      leaves a choice — which free index is handed out — the model follows the returned value),
//!   3. the read-only observations (len, is_full, contents read through the current view, ...)
//!      of both must equal the model's.
//! Results never contain addresses, only values and offsets relative to the block base.
use crate::mem::{KIND_COPY, KIND_VIEWS, Mem};
use crate::{Case, Tracker, mask, patterns};
use checks_bb::models::op_sequences;
use proptest::prelude::*;
use serde::Serialize;
use serde::de::DeserializeOwned;
use std::fmt::Debug;
use vcore::{Ctx, Failure, Obs};

pub enum Build<T, L> {
    Ready(Mem<T>, L),
    /// construction refused without side effects (allowed for capacity 0 only)
    Refused(String),
}

pub trait Sut {
    /// part prefix and signature prefix
    const NAME: &'static str;
    const CLASS: &'static str;
    /// type at offset 0 of the block
    type T;
    type Op: Clone + Debug + Serialize + DeserializeOwned + 'static;
    /// a concrete operation that is legal in the current state
    type Cop: Debug;
    type Res: PartialEq + Debug;
    type Model;
    /// process-local companion state (handles, snapshots, creator-side constants)
    type Local;

    fn build(kind: u8, cap: usize, cfg: u8) -> Build<Self::T, Self::Local>;
    fn model(cap: usize, cfg: u8) -> Self::Model;
    /// maps a generated op onto a legal concrete one (None: nothing legal to do in this state)
    fn concretize(op: &Self::Op, m: &Self::Model) -> Option<Self::Cop>;
    /// # Safety: `base` is the current address of a block built by `build`
    unsafe fn apply(base: *mut u8, local: &mut Self::Local, op: &Self::Cop) -> Self::Res;
    /// compares with the model and advances it; Ok(true) = the op returned stored data
    fn check(m: &mut Self::Model, op: &Self::Cop, r: &Self::Res) -> Result<bool, String>;
    /// # Safety: as `apply`
    unsafe fn observe(base: *mut u8, local: &Self::Local) -> Vec<u64>;
    fn expect(m: &Self::Model) -> Vec<u64>;
    fn nonempty(m: &Self::Model) -> bool;
    /// true if a non-empty observation contains stored data (contents are part of `observe`)
    const OBSERVES_CONTENT: bool = false;
}

fn sig<S: Sut>(what: &str) -> String {
    format!("{}.{what}", S::NAME)
}

pub fn run<S: Sut>(c: &Case<S::Op>, obs: &mut Obs) -> Result<(), Failure> {
    obs.class(S::CLASS);
    let (mut mem, mut local) = match S::build(c.mem, c.cap, c.cfg) {
        Build::Ready(m, l) => (m, l),
        Build::Refused(why) => {
            if c.cap != 0 {
                return Err(Failure::new(sig::<S>("init"), format!("construction with capacity {} (cfg {}) failed: {why}", c.cap, c.cfg)));
            }
            obs.class("capacity_zero_refused");
            return Ok(());
        }
    };
    let (twin, mut twin_local) = match S::build(KIND_COPY, c.cap, c.cfg) {
        Build::Ready(m, l) => (m, l),
        Build::Refused(why) => return Err(Failure::new(sig::<S>("init"), format!("second construction failed: {why}"))),
    };
    let mut model = S::model(c.cap, c.cfg);
    let mut trk = Tracker::default();
    if c.start {
        mem.relocate()?;
    }
    let compare_obs = |mem: &Mem<S::T>, local: &S::Local, twin_local: &S::Local, model: &S::Model, at: &str| -> Result<(), Failure> {
        let got = unsafe { S::observe(mem.base(), local) };
        let tw = unsafe { S::observe(twin.base(), twin_local) };
        let exp = S::expect(model);
        if got != tw {
            return Err(Failure::new(sig::<S>("observation_differs_after_relocation"), format!("{at}: observed {got:?}, the instance that was never moved shows {tw:?}")));
        }
        if got != exp {
            return Err(Failure::new(sig::<S>("observation"), format!("{at}: observed {got:?}, model expects {exp:?}")));
        }
        Ok(())
    };
    compare_obs(&mem, &local, &twin_local, &model, "after construction")?;
    for (step, op) in c.ops.iter().enumerate() {
        if let Some(cop) = S::concretize(op, &model) {
            let rt = unsafe { S::apply(twin.base(), &mut twin_local, &cop) };
            let r = unsafe { S::apply(mem.base(), &mut local, &cop) };
            if r != rt {
                return Err(Failure::new(
                    sig::<S>("result_differs_after_relocation"),
                    format!("step {step} {cop:?}: returned {r:?} after {} relocation(s); the instance that was never moved returned {rt:?}", mem.relocations),
                ));
            }
            match S::check(&mut model, &cop, &r) {
                Ok(stored) => {
                    if stored && trk.relocated_nonempty {
                        trk.returned_after = true;
                    }
                }
                Err(m) => return Err(Failure::new(sig::<S>("model"), format!("step {step} {cop:?}: returned {r:?}: {m}"))),
            }
            compare_obs(&mem, &local, &twin_local, &model, &format!("step {step} {cop:?}"))?;
            if S::OBSERVES_CONTENT && trk.relocated_nonempty && S::nonempty(&model) {
                trk.returned_after = true;
            }
        }
        if c.reloc_after(step) {
            mem.relocate()?;
            if S::nonempty(&model) {
                trk.relocated_nonempty = true;
            }
        }
    }
    mem.finish()?;
    trk.finish(obs, c.mem, mem.relocations);
    Ok(())
}

/// exhaustive + random part of one structure
pub fn parts<S: Sut>(ctx: &mut Ctx, alphabet: Vec<S::Op>, len: usize, cfgs: u8, caps: &[usize], random_caps: &[usize], strategy: impl Strategy<Value = S::Op> + 'static, random_cases: u64) {
    parts_cfg::<S>(ctx, alphabet, len, cfgs, cfgs, caps, random_caps, strategy, random_cases)
}

/// `cfgs`: configurations of the exhaustive part (0..cfgs), `random_cfgs`: of the random part
#[allow(clippy::too_many_arguments)]
pub fn parts_cfg<S: Sut>(ctx: &mut Ctx, alphabet: Vec<S::Op>, len: usize, cfgs: u8, random_cfgs: u8, caps: &[usize], random_caps: &[usize], strategy: impl Strategy<Value = S::Op> + 'static, random_cases: u64) {
    let pats = patterns(len);
    let alpha = &alphabet;
    let pats_r = &pats;
    // a capacity the structure refuses is visited by the random part only (one refusal is like another)
    let caps_v: Vec<usize> = caps.iter().copied().filter(|c| matches!(S::build(KIND_COPY, *c, 0), Build::Ready(..))).collect();
    let caps = &caps_v.clone()[..];
    let cases = (0..cfgs).flat_map(move |cfg| {
        let caps_v = caps_v.clone();
        caps_v.into_iter().flat_map(move |cap| {
            [KIND_COPY, KIND_VIEWS].into_iter().flat_map(move |mem| {
                op_sequences(alpha, len).flat_map(move |ops| pats_r.iter().map(move |(start, reloc)| Case { cfg, cap, mem, start: *start, reloc: reloc.clone(), ops: ops.clone() }))
            })
        })
    });
    ctx.enumerate(
        &format!("{}.exhaustive", S::NAME),
        &format!(
            "all op sequences of length {len} over a {}-op alphabet x capacities {caps:?} x {cfgs} configuration(s) x relocation by copy / by second view x {} relocation patterns (after construction, after each prefix, after every op)",
            alphabet.len(),
            pats.len()
        ),
        cases,
        |c, obs| run::<S>(c, obs),
    );
    let rc = random_caps.to_vec();
    let strat = (0..random_cfgs, 0..rc.len(), 0u8..8, any::<bool>(), 0u8..5, proptest::collection::vec((strategy, any::<u8>()), 0..200)).prop_map(move |(cfg, ci, mem, start, density, v)| {
        let mem = crate::mem_kind(mem);
        let (ops, bytes): (Vec<S::Op>, Vec<u8>) = v.into_iter().unzip();
        Case { cfg, cap: rc[ci], mem, start, reloc: mask(mem, density, &bytes), ops }
    });
    ctx.proptest(&format!("{}.random", S::NAME), random_cases, strat, |c, obs| run::<S>(c, obs));
}
