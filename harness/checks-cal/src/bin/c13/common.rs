//! Parameters, builders and names shared by the sequential and the concurrent part.
use iceoryx2_cal::named_concept::*;
use iceoryx2_cal::zero_copy_connection::*;
use serde::{Deserialize, Serialize};
use std::sync::atomic::{AtomicU64, Ordering};

pub type Pl = iceoryx2_cal::zero_copy_connection::process_local::Connection;
pub type Shm = iceoryx2_cal::zero_copy_connection::posix_shared_memory::Connection;

pub const SAMPLE: usize = 16;

#[derive(Clone, Copy, Debug, Serialize, Deserialize, PartialEq, Eq, Hash)]
pub struct Params {
    pub buffer: usize,
    pub borrow: usize,
    pub overflow: bool,
    pub samples: usize,
    pub segments: u8,
    pub channels: usize,
}

pub const BASES: [Params; 3] = [
    Params { buffer: 2, borrow: 2, overflow: false, samples: 8, segments: 1, channels: 1 },
    Params { buffer: 1, borrow: 1, overflow: true, samples: 4, segments: 2, channels: 2 },
    Params { buffer: 5, borrow: 3, overflow: false, samples: 16, segments: 3, channels: 1 },
];

/// base for the concurrent part: the buffer takes every probe offset that can be sent
pub const CONC_BASE: Params = Params { buffer: 14, borrow: 2, overflow: false, samples: 32, segments: 1, channels: 1 };

pub const NVAR: u8 = 7;

/// 0 = the base itself, 1..=6 = the base with exactly one field changed
pub fn variant(b: Params, var: u8) -> Params {
    let mut p = b;
    match var {
        1 => p.buffer += 1,
        2 => p.borrow += 1,
        3 => p.overflow = !p.overflow,
        4 => p.samples += 3,
        5 => p.segments += 1,
        6 => p.channels += 1,
        _ => {}
    }
    p
}

/// the `Incompatible*` errors that name a field in which `mine` differs from `theirs`
pub fn mismatch_errors(mine: &Params, theirs: &Params) -> Vec<ZeroCopyCreationError> {
    let mut v = vec![];
    if mine.buffer != theirs.buffer {
        v.push(ZeroCopyCreationError::IncompatibleBufferSize);
    }
    if mine.borrow != theirs.borrow {
        v.push(ZeroCopyCreationError::IncompatibleMaxBorrowedSamplesPerChannelSetting);
    }
    if mine.overflow != theirs.overflow {
        v.push(ZeroCopyCreationError::IncompatibleOverflowSetting);
    }
    if mine.samples != theirs.samples {
        v.push(ZeroCopyCreationError::IncompatibleNumberOfSamples);
    }
    if mine.segments != theirs.segments {
        v.push(ZeroCopyCreationError::IncompatibleNumberOfSegments);
    }
    if mine.channels != theirs.channels {
        v.push(ZeroCopyCreationError::IncompatibleNumberOfChannels);
    }
    v
}

pub fn is_incompatible(e: ZeroCopyCreationError) -> bool {
    matches!(
        e,
        ZeroCopyCreationError::IncompatibleBufferSize
            | ZeroCopyCreationError::IncompatibleMaxBorrowedSamplesPerChannelSetting
            | ZeroCopyCreationError::IncompatibleOverflowSetting
            | ZeroCopyCreationError::IncompatibleNumberOfSamples
            | ZeroCopyCreationError::IncompatibleNumberOfSegments
            | ZeroCopyCreationError::IncompatibleNumberOfChannels
    )
}

pub fn builder<S: ZeroCopyConnection>(name: &FileName, cfg: &S::Configuration, p: &Params) -> S::Builder {
    S::Builder::new(name)
        .config(cfg)
        .buffer_size(p.buffer)
        .receiver_max_borrowed_chunks_per_channel(p.borrow)
        .enable_safe_overflow(p.overflow)
        .number_of_chunks_per_segment(p.samples)
        .max_supported_shared_memory_segments(p.segments)
        .number_of_channels(p.channels)
}

static COUNTER: AtomicU64 = AtomicU64::new(0);

/// per-process prefix of everything this check creates (shows up in /dev/shm names)
pub fn prefix_str() -> String {
    format!("c13v{}_", std::process::id())
}

pub fn config<S: ZeroCopyConnection>() -> S::Configuration {
    S::Configuration::default().prefix(&FileName::new(prefix_str().as_bytes()).unwrap())
}

/// a connection name that was not used before in this process
pub fn fresh_name() -> (FileName, String) {
    let s = format!("n{}", COUNTER.fetch_add(1, Ordering::Relaxed));
    (FileName::new(s.as_bytes()).unwrap(), s)
}

pub fn check_details<P: ZeroCopyPortDetails>(port: &P, p: &Params) -> Result<(), String> {
    if port.buffer_size() != p.buffer
        || port.max_borrowed_chunks() != p.borrow
        || port.has_enabled_safe_overflow() != p.overflow
        || port.max_supported_shared_memory_segments() != p.segments
        || port.number_of_channels() != p.channels
    {
        return Err(format!(
            "port reports buffer {} borrow {} overflow {} segments {} channels {}, the connection was created with {:?}",
            port.buffer_size(),
            port.max_borrowed_chunks(),
            port.has_enabled_safe_overflow(),
            port.max_supported_shared_memory_segments(),
            port.number_of_channels(),
            p
        ));
    }
    Ok(())
}
