//! Interposition of `pthread_mutex_lock` / `pthread_mutex_unlock` (DESIGN §3.2 "pthread mutexes").
//!
//! `dynamic_storage::process_local` serialises create / open / drop / does_exist with a process
//! wide pthread mutex whose critical section contains hooked atomics (= yield points of the
//! controlled scheduler). A registered thread that is preempted inside it while another
//! registered thread calls `lock()` would block in the kernel *holding the scheduler's baton*.
//! The definitions below live in the executable and therefore win over libc's:
//!
//! * a thread that is not registered with the scheduler is forwarded to the real function;
//! * a registered thread uses `trylock`; when the mutex is busy it parks in
//!   `sched::block_until(mutex is not held by a registered thread)`. "Held" is harness-side
//!   bookkeeping (a small table of mutex addresses) maintained by these two functions, so the
//!   predicate never touches the pthread mutex itself (the scheduler evaluates predicates on
//!   other threads, and a robust / error-checking mutex must be unlocked by its locker).
//! * in weak-memory mode the scheduler knows nothing about the happens-before edge of a mutex;
//!   an acq-rel RMW on a hooked dummy atomic inside the critical section (after lock, before
//!   unlock) gives the view model exactly that edge.
use iceoryx2_pal_concurrency_sync::atomic::{AtomicU64 as HookedU64, Ordering as HookedOrdering};
use std::ffi::c_int;
use std::sync::atomic::{AtomicU64, AtomicUsize, Ordering};
use vcore::sched;

type LockFn = unsafe extern "C" fn(*mut libc::pthread_mutex_t) -> c_int;

static REAL_LOCK: AtomicUsize = AtomicUsize::new(0);
static REAL_UNLOCK: AtomicUsize = AtomicUsize::new(0);
const SLOTS: usize = 16;
static HELD: [AtomicUsize; SLOTS] = [const { AtomicUsize::new(0) }; SLOTS];
static EDGE: HookedU64 = HookedU64::new(0);
/// statistics: lock calls of registered threads, and how many of them found the mutex busy
pub static LOCKS: AtomicU64 = AtomicU64::new(0);
pub static CONTENDED: AtomicU64 = AtomicU64::new(0);
/// set per case: the happens-before edge RMW is only needed (and only costs yield points) in weak-memory mode
pub static WEAK: std::sync::atomic::AtomicBool = std::sync::atomic::AtomicBool::new(false);

fn edge() {
    if WEAK.load(Ordering::Relaxed) {
        EDGE.fetch_add(1, HookedOrdering::AcqRel);
    }
}

fn real(slot: &AtomicUsize, name: &'static [u8]) -> LockFn {
    let mut p = slot.load(Ordering::Relaxed);
    if p == 0 {
        p = unsafe { libc::dlsym(libc::RTLD_NEXT, name.as_ptr() as *const libc::c_char) } as usize;
        if p == 0 {
            unsafe { libc::abort() };
        }
        slot.store(p, Ordering::Relaxed);
    }
    unsafe { std::mem::transmute::<usize, LockFn>(p) }
}

fn is_held(m: usize) -> bool {
    HELD.iter().any(|s| s.load(Ordering::SeqCst) == m)
}

fn mark(m: usize) {
    for s in &HELD {
        if s.compare_exchange(0, m, Ordering::SeqCst, Ordering::SeqCst).is_ok() {
            return;
        }
    }
    // more mutexes held at once than slots: cannot happen with the code under test
    unsafe { libc::abort() };
}

fn unmark(m: usize) {
    for s in &HELD {
        if s.compare_exchange(m, 0, Ordering::SeqCst, Ordering::SeqCst).is_ok() {
            return;
        }
    }
}

#[unsafe(no_mangle)]
pub unsafe extern "C" fn pthread_mutex_lock(m: *mut libc::pthread_mutex_t) -> c_int {
    if !sched::is_registered() {
        return unsafe { real(&REAL_LOCK, b"pthread_mutex_lock\0")(m) };
    }
    LOCKS.fetch_add(1, Ordering::Relaxed);
    let addr = m as usize;
    let mut counted = false;
    loop {
        let r = unsafe { libc::pthread_mutex_trylock(m) };
        if r != libc::EBUSY {
            if r == 0 || r == libc::EOWNERDEAD {
                mark(addr);
                edge();
            }
            return r;
        }
        if !counted {
            counted = true;
            CONTENDED.fetch_add(1, Ordering::Relaxed);
        }
        // busy. Held by a registered (preempted) thread: park until it unlocks. Otherwise an
        // unregistered thread has it (cannot happen while a schedule runs) or the run was
        // abandoned (deadlock declared / budget exhausted, threads run freely): use the kernel.
        if is_held(addr) && sched::block_until(&|| !is_held(addr)) {
            continue;
        }
        let r = unsafe { real(&REAL_LOCK, b"pthread_mutex_lock\0")(m) };
        if r == 0 || r == libc::EOWNERDEAD {
            mark(addr);
            edge();
        }
        return r;
    }
}

/// forgets stale bookkeeping (call between cases, from the unregistered main thread)
pub fn reset() {
    for s in &HELD {
        s.store(0, Ordering::SeqCst);
    }
}

#[unsafe(no_mangle)]
pub unsafe extern "C" fn pthread_mutex_unlock(m: *mut libc::pthread_mutex_t) -> c_int {
    let registered = sched::is_registered();
    if registered && is_held(m as usize) {
        edge();
    }
    let r = unsafe { real(&REAL_UNLOCK, b"pthread_mutex_unlock\0")(m) };
    if is_held(m as usize) {
        unmark(m as usize);
    }
    r
}
