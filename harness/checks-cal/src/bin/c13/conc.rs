//! Concurrent part: 2..3 threads attach / detach fixed roles on one process_local connection
//! name under the controlled scheduler; the schedule (preemption list, stale choices) is input.
use crate::common::*;
use crate::mtx;
use iceoryx2_bb_elementary_traits::testing::abandonable::Abandonable;
use iceoryx2_cal::named_concept::*;
use iceoryx2_cal::shm_allocator::PointerOffset;
use iceoryx2_cal::zero_copy_connection::*;
use serde::{Deserialize, Serialize};
use std::sync::Mutex;
use std::sync::atomic::{AtomicU64, Ordering};
use vcore::sched::{self, OTHER, Schedule};
use vcore::{Ctx, Failure, Obs, ensure};

type PlSender = <Pl as ZeroCopyConnection>::Sender;
type PlReceiver = <Pl as ZeroCopyConnection>::Receiver;
type PlCfg = <Pl as NamedConceptMgmt>::Configuration;

#[derive(Clone, Copy, Debug, Serialize, Deserialize, Hash, PartialEq, Eq)]
pub enum TOp {
    /// attach the thread's role if it holds nothing; an Ok attach is probed at once
    Create,
    /// detach by dropping the holder
    Drop,
    /// the holder "dies" (abandon) and the thread removes its role forcefully
    AbandonRemove,
    /// `does_exist` while holding
    Check,
}

#[derive(Clone, Debug, Serialize, Deserialize, Hash, PartialEq, Eq)]
pub struct Prog {
    /// 0 sender, 1 receiver
    pub role: u8,
    /// parameter variant (0 = base)
    pub var: u8,
    pub ops: Vec<TOp>,
}

#[derive(Clone, Debug, Serialize, Deserialize, Hash)]
pub struct ConcCase {
    pub threads: Vec<Prog>,
    /// probe every fresh port with try_send / receive+release (false: fewer yield points)
    #[serde(default = "yes")]
    pub probe: bool,
    pub sched: Schedule,
}

fn yes() -> bool {
    true
}

enum Holder {
    S(PlSender),
    R(PlReceiver),
}

#[derive(Clone, Debug)]
enum Ev {
    AttachBegin(usize),
    AttachEnd(usize, Result<(), ZeroCopyCreationError>),
    /// thread, forced
    DetachBegin(usize, bool),
    DetachEnd(usize, Option<ZeroCopyPortRemoveError>),
    /// `does_exist` observed by a thread that holds its role at that moment
    Exists(usize, bool),
    Sent(usize, u64),
    Received(usize, u64),
    Released(usize, u64),
    Reclaimed(usize, u64),
    /// a probe of a freshly attached port failed
    Problem(usize, &'static str, String),
}

struct Env<'a> {
    name: FileName,
    cfg: PlCfg,
    log: Mutex<Vec<Ev>>,
    next: AtomicU64,
    left: Mutex<Vec<Option<Holder>>>,
    case: &'a ConcCase,
}

impl Env<'_> {
    fn push(&self, e: Ev) {
        self.log.lock().unwrap().push(e);
    }

    fn exists_check(&self, t: usize) {
        match Pl::does_exist_cfg(&self.name, &self.cfg) {
            Ok(v) => self.push(Ev::Exists(t, v)),
            Err(e) => self.push(Ev::Problem(t, "conc.does_exist", format!("does_exist failed: {e:?}"))),
        }
    }

    /// oracle (3): an attach that returned Ok is usable
    fn probe(&self, t: usize, h: &Holder) {
        self.exists_check(t);
        if !self.case.probe {
            return;
        }
        let id = ChannelId::new(0);
        match h {
            Holder::S(s) => {
                let v = self.next.fetch_add(1, Ordering::SeqCst);
                self.push(Ev::Sent(t, v));
                match s.try_send(PointerOffset::new(v as usize * SAMPLE), SAMPLE, id) {
                    Ok(None) => {}
                    other => self.push(Ev::Problem(t, "conc.unusable_after_attach", format!("try_send of offset {v} on a fresh sender -> {other:?}"))),
                }
                match s.reclaim(id) {
                    Ok(None) => {}
                    Ok(Some(p)) => self.push(Ev::Reclaimed(t, (p.offset() / SAMPLE) as u64)),
                    Err(e) => self.push(Ev::Problem(t, "conc.unusable_after_attach", format!("reclaim on a fresh sender -> {e:?}"))),
                }
            }
            Holder::R(r) => match r.receive(id) {
                Ok(None) => {}
                Ok(Some(p)) => {
                    let v = (p.offset() / SAMPLE) as u64;
                    self.push(Ev::Received(t, v));
                    match r.release(p, id) {
                        Ok(()) => self.push(Ev::Released(t, v)),
                        Err(e) => self.push(Ev::Problem(t, "conc.unusable_after_attach", format!("release of offset {v} -> {e:?}"))),
                    }
                }
                Err(e) => self.push(Ev::Problem(t, "conc.unusable_after_attach", format!("receive on a fresh receiver -> {e:?}"))),
            },
        }
    }

    fn thread(&self, t: usize) {
        let prog = &self.case.threads[t];
        let params = variant(CONC_BASE, prog.var);
        let mut own: Option<Holder> = None;
        for op in &prog.ops {
            match op {
                TOp::Create => {
                    if own.is_some() {
                        continue;
                    }
                    self.push(Ev::AttachBegin(t));
                    sched::op_begin();
                    let r = if prog.role == 0 {
                        builder::<Pl>(&self.name, &self.cfg, &params).create_sender().map(Holder::S)
                    } else {
                        builder::<Pl>(&self.name, &self.cfg, &params).create_receiver().map(Holder::R)
                    };
                    sched::op_end();
                    self.push(Ev::AttachEnd(t, r.as_ref().map(|_| ()).map_err(|e| *e)));
                    if let Ok(h) = r {
                        self.probe(t, &h);
                        own = Some(h);
                    }
                }
                TOp::Drop => {
                    if let Some(h) = own.take() {
                        self.exists_check(t);
                        self.push(Ev::DetachBegin(t, false));
                        sched::op_begin();
                        drop(h);
                        sched::op_end();
                        self.push(Ev::DetachEnd(t, None));
                    }
                }
                TOp::AbandonRemove => {
                    if let Some(h) = own.take() {
                        self.exists_check(t);
                        self.push(Ev::DetachBegin(t, true));
                        sched::op_begin();
                        let r = match h {
                            Holder::S(s) => {
                                s.abandon();
                                unsafe { Pl::remove_sender(&self.name, &self.cfg) }
                            }
                            Holder::R(r) => {
                                r.abandon();
                                unsafe { Pl::remove_receiver(&self.name, &self.cfg) }
                            }
                        };
                        sched::op_end();
                        self.push(Ev::DetachEnd(t, r.err()));
                    }
                }
                TOp::Check => {
                    if own.is_some() {
                        self.exists_check(t);
                    }
                }
            }
        }
        self.left.lock().unwrap()[t] = own;
    }
}

#[derive(Clone, Debug)]
struct Attach {
    t: usize,
    begin: usize,
    end: usize,
    res: Result<(), ZeroCopyCreationError>,
    /// (begin, end, forced) of the detach that ended this holder, log indices
    detach: Option<(usize, usize, bool)>,
}

const INF: usize = usize::MAX;

fn overlap(a: (usize, usize), b: (usize, usize)) -> bool {
    a.0 < b.1 && b.0 < a.1
}

struct Judged {
    nontrivial: bool,
    classes: Vec<&'static str>,
}

/// signatures that mean "a live holder lost its storage" (what DESIGN §6 row 7 leads to)
const STORAGE_GONE: [&str; 5] = ["conc.holder_on_removed_storage", "conc.two_live_same_role", "conc.split_brain", "conc.forced_remove_failed", "conc.attach_beside_live_holder"];

fn judge(c: &ConcCase, env: &Env, log: &[Ev], info: &sched::RunInfo) -> Result<Judged, Failure> {
    let nt = c.threads.len();
    let role = |t: usize| c.threads[t].role;
    let params = |t: usize| variant(CONC_BASE, c.threads[t].var);
    let dump = || format!("log {:?}", log);
    let mut classes: Vec<&'static str> = vec![];
    // ---- intervals ------------------------------------------------------------------------
    let mut attaches: Vec<Attach> = vec![];
    let mut open_attach: Vec<Option<usize>> = vec![None; nt]; // index into attaches of the thread's live holder
    let mut pending: Vec<Option<usize>> = vec![None; nt];
    let mut detach_begin: Vec<Option<(usize, bool)>> = vec![None; nt];
    for (i, e) in log.iter().enumerate() {
        match e {
            Ev::AttachBegin(t) => pending[*t] = Some(i),
            Ev::AttachEnd(t, res) => {
                let b = pending[*t].take().unwrap();
                attaches.push(Attach { t: *t, begin: b, end: i, res: *res, detach: None });
                if res.is_ok() {
                    open_attach[*t] = Some(attaches.len() - 1);
                }
            }
            Ev::DetachBegin(t, forced) => detach_begin[*t] = Some((i, *forced)),
            Ev::DetachEnd(t, err) => {
                let (b, forced) = detach_begin[*t].take().unwrap();
                let a = open_attach[*t].take().unwrap();
                attaches[a].detach = Some((b, i, forced));
                if let Some(e) = err {
                    return Err(Failure::new("conc.forced_remove_failed", format!("thread {t}: forced removal of its own abandoned role -> {e:?}: {}", dump())));
                }
            }
            Ev::Problem(t, sig, msg) => return Err(Failure::new(*sig, format!("thread {t}: {msg}: {}", dump()))),
            _ => {}
        }
    }
    // ---- (2) a live holder always sees its connection --------------------------------------
    for e in log {
        if let Ev::Exists(t, false) = e {
            return Err(Failure::new("conc.holder_on_removed_storage", format!("thread {t} holds its role but does_exist is false: {}", dump())));
        }
    }
    // ---- (1) never two live holders of one role ---------------------------------------------
    let mut live: [Vec<usize>; 2] = [vec![], vec![]];
    for e in log {
        match e {
            Ev::AttachEnd(t, Ok(())) => {
                live[role(*t) as usize].push(*t);
                let l = &live[role(*t) as usize];
                ensure!(l.len() <= 1, "conc.two_live_same_role", "threads {l:?} hold the {} role at the same time: {}", if role(*t) == 0 { "sender" } else { "receiver" }, dump());
            }
            Ev::DetachBegin(t, _) => live[role(*t) as usize].retain(|x| x != t),
            _ => {}
        }
    }
    // ---- attach outcomes ------------------------------------------------------------------------
    // occupied(h) = the role bit of holder h is certainly set; maybe(h) = it may be set
    let occupied = |h: &Attach| (h.end, h.detach.map(|d| d.0).unwrap_or(INF));
    let whole = |a: &Attach| (a.begin, if a.res.is_ok() { a.detach.map(|d| d.1).unwrap_or(INF) } else { a.end });
    let mut nontrivial = false;
    for a in &attaches {
        let span = (a.begin, a.end);
        let same_role_holders = attaches.iter().filter(|h| h.t != a.t && h.res.is_ok() && role(h.t) == role(a.t));
        let covered = same_role_holders.clone().any(|h| occupied(h).0 < a.begin && a.end < occupied(h).1);
        // the role bit may be set by a holder from the begin of its attach to the end of its detach, and
        // by a same-role attach that is refused later (mismatch) from its begin to its end. A C11-stale
        // (relaxed) load of the state byte may additionally show any earlier value: with stale reads
        // in the run "overlapping" weakens to "began before the attach ended".
        let stale = info.stale_reads > 0;
        let touched = attaches.iter().any(|o| o.t != a.t && role(o.t) == role(a.t) && (overlap(whole(o), span) || (stale && o.begin < a.end)));
        let others_overlap = attaches.iter().any(|o| o.t != a.t && (overlap((o.begin, o.end), span) || o.detach.map(|d| overlap((d.0, d.1), span)).unwrap_or(false) || (stale && o.begin < a.end)));
        match a.res {
            Ok(()) => {
                ensure!(!covered, "conc.attach_beside_live_holder", "thread {} attached although the role was held throughout: {}", a.t, dump());
            }
            Err(ZeroCopyCreationError::AnotherInstanceIsAlreadyConnected) => {
                ensure!(touched, "conc.spurious_already_connected", "thread {} was refused as 'already connected' although nobody could hold the role: {}", a.t, dump());
                classes.push("refused_already_connected");
            }
            Err(e) => {
                // (which refusal wins when the role is held and the parameters mismatch is not specified)
                ensure!(!covered || is_incompatible(e), "conc.wrong_refusal", "thread {} was refused with {e:?} while the role was held throughout (AnotherInstanceIsAlreadyConnected expected): {}", a.t, dump());
                if e == ZeroCopyCreationError::IsBeingCleanedUp || e == ZeroCopyCreationError::InitializationNotYetFinalized {
                    ensure!(others_overlap, "conc.spurious_cleanup_refusal", "thread {} was refused with {e:?} although no other operation overlapped the attach: {}", a.t, dump());
                    classes.push("refused_being_cleaned_up");
                } else if is_incompatible(e) {
                    let justified = attaches.iter().any(|o| o.t != a.t && overlap(whole(o), span) && mismatch_errors(&params(a.t), &params(o.t)).contains(&e));
                    ensure!(justified, "conc.spurious_incompatible", "thread {} ({:?}) was refused with {e:?} although no connection with differing parameters could exist: {}", a.t, params(a.t), dump());
                    classes.push("refused_incompatible");
                } else {
                    return Err(Failure::new("conc.attach_error", format!("thread {} failed to attach with {e:?}: {}", a.t, dump())));
                }
            }
        }
        // NT rule: the attach overlapped a detach of the other role
        for o in &attaches {
            if let Some(d) = o.detach {
                if o.t != a.t && overlap((d.0, d.1), span) {
                    if role(o.t) != role(a.t) {
                        nontrivial = true;
                        classes.push("attach_overlaps_detach_of_other_role");
                        if a.res.is_ok() {
                            classes.push("attach_ok_while_other_role_detaches");
                        }
                    } else {
                        classes.push("attach_overlaps_detach_of_same_role");
                    }
                    if d.2 {
                        classes.push("attach_overlaps_forced_removal");
                    }
                }
            }
            if o.t != a.t && overlap((o.begin, o.end), span) {
                classes.push(if role(o.t) == role(a.t) { "attach_overlaps_attach_same_role" } else { "attach_overlaps_attach_other_role" });
            }
        }
    }
    // ---- probe traffic: nothing invented, nothing twice -----------------------------------
    let mut sent: Vec<u64> = vec![];
    let mut received: Vec<u64> = vec![];
    let mut released: Vec<u64> = vec![];
    let mut reclaimed: Vec<u64> = vec![];
    for e in log {
        match e {
            Ev::Sent(_, v) => sent.push(*v),
            Ev::Received(t, v) => {
                ensure!(sent.contains(v), "conc.probe_traffic", "thread {t} received offset {v} that nobody sent: {}", dump());
                ensure!(!received.contains(v), "conc.probe_traffic", "offset {v} received twice: {}", dump());
                received.push(*v);
                classes.push("probe_offset_delivered");
            }
            Ev::Released(_, v) => released.push(*v),
            Ev::Reclaimed(t, v) => {
                ensure!(released.contains(v) && !reclaimed.contains(v), "conc.probe_traffic", "thread {t} reclaimed offset {v} (released {released:?}, reclaimed {reclaimed:?}): {}", dump());
                reclaimed.push(*v);
            }
            _ => {}
        }
    }
    // ---- quiescence -----------------------------------------------------------------------------
    let mut left = std::mem::take(&mut *env.left.lock().unwrap());
    let holders: Vec<usize> = (0..nt).filter(|t| left[*t].is_some()).collect();
    let exists = Pl::does_exist_cfg(&env.name, &env.cfg).map_err(|e| Failure::new("conc.does_exist", format!("{e:?}")))?;
    if !holders.is_empty() {
        classes.push("holders_left_at_quiescence");
        ensure!(exists, "conc.holder_on_removed_storage", "at quiescence threads {holders:?} hold their roles but does_exist is false: {}", dump());
    } else {
        ensure!(!exists, "conc.leftover_storage", "at quiescence nobody holds a role but the connection still exists: {}", dump());
    }
    let mut snd: Option<PlSender> = None;
    let mut rcv: Option<PlReceiver> = None;
    for t in 0..nt {
        match left[t].take() {
            Some(Holder::S(s)) => {
                ensure!(snd.is_none(), "conc.two_live_same_role", "two senders left at quiescence: {}", dump());
                snd = Some(s);
            }
            Some(Holder::R(r)) => {
                ensure!(rcv.is_none(), "conc.two_live_same_role", "two receivers left at quiescence: {}", dump());
                rcv = Some(r);
            }
            None => {}
        }
    }
    let id = ChannelId::new(0);
    match (&snd, &rcv) {
        (Some(s), Some(r)) => {
            ensure!(s.is_connected() && r.is_connected(), "conc.split_brain", "sender and receiver are both attached but is_connected is {} / {}: {}", s.is_connected(), r.is_connected(), dump());
            let v = env.next.fetch_add(1, Ordering::SeqCst);
            let x = s.try_send(PointerOffset::new(v as usize * SAMPLE), SAMPLE, id);
            ensure!(matches!(x, Ok(None)), "conc.unusable_after_attach", "try_send at quiescence -> {x:?}: {}", dump());
            let mut found = false;
            for _ in 0..40 {
                match r.receive(id) {
                    Ok(Some(p)) => {
                        let got = (p.offset() / SAMPLE) as u64;
                        ensure!(got == v || (sent.contains(&got) && !received.contains(&got)), "conc.probe_traffic", "receiver got offset {got} at quiescence (sent {sent:?}, received before {received:?}): {}", dump());
                        received.push(got);
                        let rel = r.release(p, id);
                        ensure!(rel.is_ok(), "conc.unusable_after_attach", "release at quiescence -> {rel:?}: {}", dump());
                        if got == v {
                            found = true;
                            break;
                        }
                    }
                    Ok(None) => break,
                    Err(e) => return Err(Failure::new("conc.unusable_after_attach", format!("receive at quiescence -> {e:?}: {}", dump()))),
                }
            }
            ensure!(found, "conc.split_brain", "the attached receiver does not get what the attached sender sends: {}", dump());
            classes.push("round_trip_at_quiescence");
        }
        (Some(s), None) => ensure!(!s.is_connected(), "conc.is_connected", "lone sender reports is_connected: {}", dump()),
        (None, Some(r)) => ensure!(!r.is_connected(), "conc.is_connected", "lone receiver reports is_connected: {}", dump()),
        (None, None) => {}
    }
    let both = snd.is_some() && rcv.is_some();
    drop(snd);
    if both {
        let e = Pl::does_exist_cfg(&env.name, &env.cfg).map_err(|e| Failure::new("conc.does_exist", format!("{e:?}")))?;
        ensure!(e, "conc.holder_on_removed_storage", "the connection vanished when the sender detached although the receiver is still attached: {}", dump());
        ensure!(!rcv.as_ref().unwrap().is_connected(), "conc.is_connected", "receiver reports is_connected after the sender detached: {}", dump());
    }
    drop(rcv);
    let e = Pl::does_exist_cfg(&env.name, &env.cfg).map_err(|e| Failure::new("conc.does_exist", format!("{e:?}")))?;
    ensure!(!e, "conc.leftover_storage", "the connection still exists after the last holder detached: {}", dump());
    if info.stale_reads > 0 {
        classes.push("with_stale_read");
    }
    if attaches.iter().any(|a| a.detach.map(|d| d.2).unwrap_or(false)) {
        classes.push("forced_removal");
    }
    Ok(Judged { nontrivial, classes })
}

/// DESIGN §6 row 7: a failed attach (which drops its storage handle) raced with another attach
fn failed_attach_raced(log: &[Ev]) -> bool {
    let mut begun: Vec<usize> = vec![];
    let mut pending: Vec<(usize, usize)> = vec![]; // (thread, begin)
    let mut spans: Vec<(usize, usize, usize, bool)> = vec![]; // thread, begin, end, failed
    for (i, e) in log.iter().enumerate() {
        match e {
            Ev::AttachBegin(t) => {
                begun.push(*t);
                pending.push((*t, i));
            }
            Ev::AttachEnd(t, r) => {
                let k = pending.iter().position(|p| p.0 == *t).unwrap();
                let (_, b) = pending.remove(k);
                spans.push((*t, b, i, matches!(r, Err(ZeroCopyCreationError::AnotherInstanceIsAlreadyConnected | ZeroCopyCreationError::IsBeingCleanedUp))));
            }
            _ => {}
        }
    }
    spans.iter().any(|f| f.3 && spans.iter().any(|o| o.0 != f.0 && overlap((o.1, o.2), (f.1, f.2))))
}

pub fn run_conc(c: &ConcCase, obs: &mut Obs) -> Result<sched::RunInfo, Failure> {
    ensure!((2..=3).contains(&c.threads.len()), "conc.case", "2..3 threads expected");
    mtx::reset();
    mtx::WEAK.store(c.sched.weak, Ordering::SeqCst);
    let (name, _) = fresh_name();
    let env = Env { name, cfg: config::<Pl>(), log: Mutex::new(vec![]), next: AtomicU64::new(1), left: Mutex::new((0..c.threads.len()).map(|_| None).collect()), case: c };
    let contended_before = mtx::CONTENDED.load(Ordering::Relaxed);
    let info = {
        let e = &env;
        let bodies: Vec<Box<dyn FnOnce() + Send + '_>> = (0..c.threads.len()).map(|t| Box::new(move || e.thread(t)) as Box<dyn FnOnce() + Send + '_>).collect();
        sched::run(bodies, &c.sched)
    };
    let cleanup = |env: &Env| {
        for h in env.left.lock().unwrap().iter_mut() {
            drop(h.take());
        }
        let _ = unsafe { Pl::remove_cfg(&env.name, &env.cfg) };
    };
    if !info.panics.is_empty() {
        cleanup(&env);
        return Err(Failure::new("conc.panic", format!("thread panicked: {:?}", info.panics)));
    }
    if info.deadlock {
        cleanup(&env);
        return Err(Failure::new("conc.deadlock", format!("deadlock, blocked {:?}", info.blocked)));
    }
    if info.budget_exhausted {
        cleanup(&env);
        obs.discarded = true;
        return Ok(info);
    }
    let log = std::mem::take(&mut *env.log.lock().unwrap());
    let r = judge(c, &env, &log, &info);
    cleanup(&env);
    match r {
        Ok(j) => {
            obs.nontrivial = j.nontrivial;
            for cl in j.classes {
                obs.class(cl);
            }
            if info.preempt_inside {
                obs.class("preempted_inside_attach_or_detach");
            }
            if mtx::CONTENDED.load(Ordering::Relaxed) > contended_before {
                obs.class("storage_mutex_contended");
            }
            if c.threads.len() == 3 {
                obs.class("three_threads");
            }
            Ok(info)
        }
        Err(f) => {
            if STORAGE_GONE.contains(&f.signature.as_str()) && failed_attach_raced(&log) {
                return Err(Failure::new(
                    "conc.storage_removed_by_failed_racing_attach",
                    format!("[a failed attach raced with another attach; the failing creator drops the storage with ownership] {}", f.message),
                ));
            }
            Err(f)
        }
    }
}

// Env holds raw handles only inside Mutexes / is shared by reference between the scheduled threads
unsafe impl Sync for Env<'_> {}
unsafe impl Send for Holder {}

fn conc_shrinks(c: &ConcCase) -> Vec<ConcCase> {
    let mut out = vec![];
    for s in sched::shrink_schedule(&c.sched) {
        out.push(ConcCase { sched: s, ..c.clone() });
    }
    if c.probe {
        out.push(ConcCase { probe: false, ..c.clone() });
    }
    if c.threads.len() > 2 {
        for i in 0..c.threads.len() {
            let mut n = c.clone();
            n.threads.remove(i);
            // preemption targets refer to thread ids: drop the schedule entries of the removed thread
            n.sched.preempt.retain(|p| p.1 as usize != i);
            for p in n.sched.preempt.iter_mut() {
                if p.1 as usize > i && p.1 != OTHER as u8 {
                    p.1 -= 1;
                }
            }
            out.push(n);
        }
    }
    for t in 0..c.threads.len() {
        for i in (0..c.threads[t].ops.len()).rev() {
            let mut n = c.clone();
            n.threads[t].ops.remove(i);
            out.push(n);
        }
        if c.threads[t].var != 0 {
            let mut n = c.clone();
            n.threads[t].var = 0;
            out.push(n);
        }
    }
    out
}

fn exec_conc(ctx: &mut Ctx, part: &str, c: &ConcCase) -> bool {
    let key = vcore::rng::hash_str(&format!("{c:?}"));
    let mut obs = Obs::default();
    let r = Ctx::guarded(|| run_conc(c, &mut obs).map(|_| ()));
    ctx.record(part, key, &obs, || serde_json::to_value(c).unwrap());
    if let Err(f) = r {
        if ctx.is_open_finding(&f.signature) {
            ctx.violation(part, &f, serde_json::to_value(c).unwrap());
            return true;
        }
        let sig = f.signature.clone();
        let min = vcore::shrink::greedy(
            c.clone(),
            conc_shrinks,
            |cand| matches!(Ctx::guarded(|| run_conc(cand, &mut Obs::default()).map(|_| ())), Err(ff) if ff.signature == sig),
            300,
        );
        let fin = Ctx::guarded(|| run_conc(&min, &mut Obs::default()).map(|_| ())).err().unwrap_or(f);
        ctx.violation(part, &fin, serde_json::to_value(&min).unwrap());
        return false;
    }
    true
}

fn prog(role: u8, var: u8, ops: &[TOp]) -> Prog {
    Prog { role, var, ops: ops.to_vec() }
}

/// the tiny programs whose preemption lists are enumerated exhaustively: (threads, probes, bound)
fn tiny_programs(thorough: bool) -> Vec<(Vec<Prog>, bool, usize)> {
    use TOp::*;
    // quick: two preemptions for the two core programs, one for the others;
    // thorough: two for all two-thread programs (three preemptions over ~250 yield points would be
    // 2.6 million schedules per program: left to the random part)
    let rest = if thorough { 2 } else { 1 };
    let mut v = vec![
        // the DESIGN program: sender and receiver come and go
        (vec![prog(0, 0, &[Create, Drop]), prog(1, 0, &[Create, Drop])], true, 2),
        // same role on both threads (DESIGN §6 row 7 lives here)
        (vec![prog(0, 0, &[Create, Drop]), prog(0, 0, &[Create, Drop])], false, 2),
        (vec![prog(0, 0, &[Create, Drop]), prog(0, 0, &[Create, Drop])], true, rest),
        (vec![prog(1, 0, &[Create, Drop]), prog(0, 0, &[Create, Drop])], true, rest),
        (vec![prog(1, 0, &[Create, Check, Drop]), prog(1, 0, &[Create])], true, rest),
        // forced removal on behalf of a dead peer against an attach of the other role
        (vec![prog(0, 0, &[Create, AbandonRemove]), prog(1, 0, &[Create, Drop])], true, rest),
        (vec![prog(1, 0, &[Create, AbandonRemove]), prog(0, 0, &[Create])], true, rest),
        // the holder stays until quiescence
        (vec![prog(0, 0, &[Create]), prog(1, 0, &[Create, Drop, Create])], true, rest),
        // re-attach after the teardown
        (vec![prog(0, 0, &[Create, Drop, Create]), prog(1, 0, &[Create, Drop])], true, rest),
        // mismatching parameters against attach / detach
        (vec![prog(0, 0, &[Create, Drop]), prog(1, 1, &[Create, Drop])], true, rest),
        (vec![prog(0, 3, &[Create]), prog(1, 0, &[Create, Drop])], true, rest),
        // three threads: two of one role, one of the other
        (vec![prog(0, 0, &[Create, Drop]), prog(1, 0, &[Create, Drop]), prog(0, 0, &[Create])], true, 1),
        (vec![prog(1, 0, &[Create, AbandonRemove]), prog(0, 0, &[Create, Drop]), prog(1, 0, &[Create])], false, 1),
    ];
    if thorough {
        v.push((vec![prog(0, 0, &[Create, Drop, Create, Drop]), prog(1, 0, &[Create, Drop, Create])], false, 2));
        v.push((vec![prog(1, 2, &[Create, AbandonRemove]), prog(0, 0, &[Create, Drop, Create])], true, 2));
    }
    v
}

fn random_case(rng: &mut vcore::rng::SplitMix, maxp: u64, weak: bool) -> ConcCase {
    let n = if rng.chance(2, 3) { 3 } else { 2 };
    let mut threads = vec![];
    let mut est = 0u32;
    for t in 0..n {
        // at least one sender and one receiver
        let role = if t < 2 { t as u8 } else { rng.below(2) as u8 };
        let var = if rng.chance(1, 6) { rng.range(1, (NVAR - 1) as u64) as u8 } else { 0 };
        let len = rng.range(1, 4);
        let mut ops = vec![TOp::Create];
        est += 50;
        for _ in 1..len {
            let op = match rng.below(8) {
                0..=2 => TOp::Create,
                3..=5 => TOp::Drop,
                6 => TOp::AbandonRemove,
                _ => TOp::Check,
            };
            est += match op {
                TOp::Create => 50,
                TOp::Drop => 20,
                TOp::AbandonRemove => 40,
                TOp::Check => 8,
            };
            ops.push(op);
        }
        threads.push(Prog { role, var, ops });
    }
    // two of three cases start the threads in another order than sender, receiver
    if rng.chance(1, 2) {
        threads.swap(0, 1);
    }
    let np = rng.range(0, maxp) as usize;
    let preempt = if n == 2 {
        sched::random_preemptions(rng, est, 1, np).into_iter().map(|(y, _)| (y, OTHER as u8)).collect()
    } else {
        sched::random_preemptions(rng, est, n as u8, np)
    };
    let stale = if weak { (0..rng.range(1, 10)).map(|_| if rng.chance(1, 2) { rng.range(1, 3) as u8 } else { 0 }).collect() } else { vec![] };
    ConcCase { threads, probe: !rng.chance(1, 5), sched: Schedule { preempt, stale, weak } }
}

pub fn conc_parts(ctx: &mut Ctx) {
    for part in ["conc.exhaustive", "conc.random", "conc.weak"] {
        if let Some(c) = ctx.replay_case::<ConcCase>(part) {
            exec_conc(ctx, part, &c);
            return;
        }
    }
    if ctx.replay.is_some() {
        return;
    }
    // the lazily initialised process-wide storage map and its mutex: first touched here, by an
    // unregistered thread
    let _ = Pl::does_exist_cfg(&fresh_name().0, &config::<Pl>());
    if ctx.part_enabled("conc.exhaustive") {
        let mut i = 0u64;
        let mut ok = true;
        let mut dims = vec![];
        'outer: for (threads, probe, b) in tiny_programs(!ctx.quick()) {
            let base = ConcCase { threads: threads.clone(), probe, sched: Schedule::default() };
            let y = match run_conc(&base, &mut Obs::default()) {
                Ok(info) => info.yields,
                Err(_) => {
                    ok &= exec_conc(ctx, "conc.exhaustive", &base);
                    if !ok {
                        break 'outer;
                    }
                    continue;
                }
            };
            let n = threads.len();
            dims.push(format!("{:?}{} <= {b} preemptions over {y} yield points", threads.iter().map(|p| format!("{}{}:{:?}", if p.role == 0 { "S" } else { "R" }, p.var, p.ops)).collect::<Vec<_>>(), if probe { "" } else { " (no probes)" }));
            if std::env::var("C13_STATS").is_ok() && ctx.worker == 0 {
                eprintln!("program {}", dims.last().unwrap());
            }
            let lists = if n == 2 { sched::enumerate_preemptions(y + 2, 1, b) } else { sched::enumerate_preemptions(y + 2, n as u8, b) };
            for l in lists {
                i += 1;
                if !ctx.mine(i) {
                    continue;
                }
                let preempt = if n == 2 { l.iter().map(|(a, _)| (*a, OTHER as u8)).collect() } else { l.clone() };
                let c = ConcCase { threads: threads.clone(), probe, sched: Schedule { preempt, ..Default::default() } };
                if !exec_conc(ctx, "conc.exhaustive", &c) {
                    ok = false;
                    break 'outer;
                }
            }
        }
        if ok {
            ctx.mark_exhaustive(format!("conc.exhaustive: all preemption lists up to the stated bound for the tiny programs {}", dims.join("; ")));
        }
    }
    for (part, weak) in [("conc.random", false), ("conc.weak", true)] {
        if !ctx.part_enabled(part) {
            continue;
        }
        let total = if weak { ctx.scale(10_000u64, 200_000) } else { ctx.scale(30_000u64, 600_000) };
        let n = ctx.share(total);
        let mut rng = ctx.rng(part);
        let maxp = ctx.scale(3, 5);
        for _ in 0..n {
            let c = random_case(&mut rng, maxp, weak);
            if !exec_conc(ctx, part, &c) {
                break;
            }
        }
    }
}
