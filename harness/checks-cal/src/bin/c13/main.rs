extern crate iceoryx2_bb_loggers;
fn main() {}
