//! C13 — connection lifecycle: one sender, one receiver, removed once by the last.
//!
//! Sequential histories (vhist) on `zero_copy_connection::process_local` and
//! `::posix_shared_memory`, and concurrent attach / detach / forced-removal programs of 2..3
//! threads on one `process_local` connection name under the controlled scheduler (vsched).
//! The process-wide pthread mutex of `dynamic_storage::process_local` is interposed (`mtx.rs`)
//! so that a registered thread never blocks in the kernel while it holds the baton.
extern crate iceoryx2_bb_loggers;

use vcore::sched;
use vcore::{Ctx, Spec};

mod common;
mod conc;
mod mtx;
mod seq;

const SPEC: Spec = Spec {
    prop: "C13",
    level: "exploration",
    rule: "sequential case = (storage kind, base parameter set, history <= 12 of create sender/receiver with equal or one-field-mismatching parameters | drop | abandon (dead peer) | forced removal of an abandoned role | round trip): all legal histories up to the stated length over a reduced alphabet + proptest random; concurrent case = (2..3 per-thread programs over create / drop / abandon+forced removal / does_exist of a fixed role on one process_local connection name, schedule): all preemption lists up to the stated bound over the atomic accesses of the real code for the tiny programs, PCT-style random lists and weak-memory stale-read choices beyond; oracle = at most one live holder per role, same-role attach beside a live holder refused as AnotherInstanceIsAlreadyConnected, does_exist true for every live holder and false after the last detach, removal observed exactly once, Ok attach usable (is_connected, offset round trip), mismatch -> matching Incompatible* error with the attached side undisturbed, racing failures only IsBeingCleanedUp / InitializationNotYetFinalized; non-trivial = (concurrent) an attach overlapped a detach of the other role, (sequential) the history contains a mismatch refusal and a re-creation after the last detach; distinct = hash of the whole case",
    assumptions: &[
        "schedules are explored at the granularity of atomic accesses; the pthread mutex of dynamic_storage::process_local is replaced by trylock + scheduler parking for scheduled threads (same mutual exclusion, acquisition order decided by the schedule)",
        "the concurrent part runs on process_local storage only: the posix_shared_memory variant is covered sequentially (its races are between processes and out of reach of the in-process scheduler)",
        "forced removal is issued only for a role whose holder was abandoned (its safety contract) or when no connection exists (conformance test removing_port_from_non_existing_connection_leads_to_error)",
        "weak-memory mode under-approximates C11 and gets the mutex happens-before edge from an acq-rel RMW on a dummy atomic inside the critical section",
    ],
    watchdog_quick_s: 900,
    watchdog_thorough_s: 10800,
};

fn cleanup_shm() {
    // nothing of this process may stay in /dev/shm
    for n in vcore::util::shm_entries_containing(&common::prefix_str()) {
        let _ = std::fs::remove_file(format!("/dev/shm/{n}"));
    }
    // objects of workers of earlier runs that were killed in the middle of a case (watchdog)
    for n in vcore::util::shm_entries_containing("c13v") {
        let pid: String = n.trim_start_matches("c13v").chars().take_while(|c| c.is_ascii_digit()).collect();
        if n.starts_with("c13v") && !pid.is_empty() && !std::path::Path::new(&format!("/proc/{pid}")).exists() {
            let _ = std::fs::remove_file(format!("/dev/shm/{n}"));
        }
    }
}

fn body(ctx: &mut Ctx) {
    iceoryx2_log::set_log_level(iceoryx2_log::LogLevel::Fatal);
    sched::install();
    ctx.pin_to_one_cpu();
    cleanup_shm();
    seq::seq_parts(ctx);
    let leftovers = vcore::util::shm_entries_containing(&common::prefix_str());
    if !leftovers.is_empty() && ctx.violation_count() == 0 {
        ctx.violation("seq.random", &vcore::Failure::new("seq.leftover_shm", format!("shared memory objects left behind: {leftovers:?}")), serde_json::Value::Null);
    }
    cleanup_shm();
    conc::conc_parts(ctx);
    if std::env::var("C13_STATS").is_ok() {
        eprintln!("mutex: {} lock calls by scheduled threads, {} contended", mtx::LOCKS.load(std::sync::atomic::Ordering::Relaxed), mtx::CONTENDED.load(std::sync::atomic::Ordering::Relaxed));
    }
}

fn main() {
    vcore::main(SPEC, body);
}
