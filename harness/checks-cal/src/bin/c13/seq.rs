//! Sequential histories (vhist) on process_local and posix_shared_memory connections.
use crate::common::*;
use iceoryx2_bb_elementary_traits::testing::abandonable::Abandonable;
use iceoryx2_cal::named_concept::*;
use iceoryx2_cal::shm_allocator::PointerOffset;
use iceoryx2_cal::zero_copy_connection::*;
use proptest::prelude::*;
use serde::{Deserialize, Serialize};
use vcore::{Ctx, Failure, Obs, ensure};

#[derive(Clone, Copy, Debug, Serialize, Deserialize, PartialEq, Eq, Hash)]
pub enum Op {
    CreateSender(u8),
    CreateReceiver(u8),
    DropSender,
    DropReceiver,
    /// the holder "dies": `Abandonable::abandon` leaves its role registered
    AbandonSender,
    AbandonReceiver,
    /// forced removal; generated only for a role whose holder was abandoned, or when nothing exists
    RemoveSender,
    RemoveReceiver,
    RoundTrip,
}

#[derive(Clone, Debug, Serialize, Deserialize)]
pub struct SeqCase {
    /// 0 process_local, 1 posix_shared_memory
    pub storage: u8,
    pub base: u8,
    pub ops: Vec<Op>,
}

#[derive(Clone, Copy, PartialEq, Eq, Debug)]
enum H {
    None,
    Live,
    Abandoned,
}

#[derive(Clone, Debug)]
struct Model {
    storage: Option<Params>,
    s: H,
    r: H,
    removals: u32,
}

impl Model {
    fn any(&self) -> bool {
        self.s != H::None || self.r != H::None
    }
    /// would the operation do something defined (attach attempts always do)?
    fn legal(&self, op: &Op) -> bool {
        match op {
            Op::CreateSender(_) | Op::CreateReceiver(_) => true,
            Op::DropSender | Op::AbandonSender => self.s == H::Live,
            Op::DropReceiver | Op::AbandonReceiver => self.r == H::Live,
            Op::RemoveSender => self.s == H::Abandoned || self.storage.is_none(),
            Op::RemoveReceiver => self.r == H::Abandoned || self.storage.is_none(),
            Op::RoundTrip => self.s == H::Live && self.r == H::Live,
        }
    }
    fn detach(&mut self, sender: bool) {
        if sender {
            self.s = H::None;
        } else {
            self.r = H::None;
        }
        if !self.any() {
            self.storage = None;
            self.removals += 1;
        }
    }
    /// model transition only (used by the enumerator)
    fn apply(&mut self, op: &Op, base: &Params) {
        match op {
            Op::CreateSender(v) | Op::CreateReceiver(v) => {
                let sender = matches!(op, Op::CreateSender(_));
                let h = if sender { self.s } else { self.r };
                let p = variant(*base, *v);
                if h == H::None && self.storage.map(|sp| sp == p).unwrap_or(true) {
                    self.storage = Some(p);
                    if sender {
                        self.s = H::Live;
                    } else {
                        self.r = H::Live;
                    }
                }
            }
            Op::DropSender => self.detach(true),
            Op::DropReceiver => self.detach(false),
            Op::AbandonSender => self.s = H::Abandoned,
            Op::AbandonReceiver => self.r = H::Abandoned,
            Op::RemoveSender => {
                if self.s == H::Abandoned {
                    self.detach(true)
                }
            }
            Op::RemoveReceiver => {
                if self.r == H::Abandoned {
                    self.detach(false)
                }
            }
            Op::RoundTrip => {}
        }
    }
}

struct World<S: ZeroCopyConnection> {
    name: FileName,
    name_str: String,
    cfg: S::Configuration,
    is_shm: bool,
    sender: Option<S::Sender>,
    receiver: Option<S::Receiver>,
    m: Model,
    removals_seen: u32,
    existed: bool,
    next_offset: usize,
}

impl<S: ZeroCopyConnection> World<S> {
    fn shm_count(&self) -> usize {
        // object name = prefix + type hash (base64url) + '_' + name + suffix
        let tail = format!("_{}.", self.name_str);
        vcore::util::shm_entries_containing(&prefix_str()).iter().filter(|n| n.contains(&tail)).count()
    }

    /// oracle (2) and the standing parts of (3)/(4) after every step
    fn observe(&mut self, step: usize, op: &Op) -> Result<(), Failure> {
        let exists = S::does_exist_cfg(&self.name, &self.cfg).map_err(|e| Failure::new("seq.does_exist", format!("does_exist failed: {e:?}")))?;
        ensure!(
            exists == self.m.any(),
            "seq.does_exist",
            "after step {step} ({op:?}): does_exist = {exists}, but sender is {:?} and receiver is {:?}",
            self.m.s,
            self.m.r
        );
        if self.is_shm {
            let n = self.shm_count();
            ensure!(n == exists as usize, "seq.does_exist", "after step {step} ({op:?}): {n} shared memory objects for the connection while does_exist = {exists}");
        }
        if self.existed && !exists {
            self.removals_seen += 1;
        }
        self.existed = exists;
        ensure!(self.removals_seen == self.m.removals, "seq.removed_once", "after step {step} ({op:?}): storage removal observed {} times, {} expected", self.removals_seen, self.m.removals);
        let listed = S::list_cfg(&self.cfg).map_err(|e| Failure::new("seq.does_exist", format!("list failed: {e:?}")))?;
        ensure!(listed.contains(&self.name) == exists, "seq.does_exist", "after step {step} ({op:?}): list_cfg {} the connection while does_exist = {exists}", if exists { "omits" } else { "contains" });
        if let (Some(s), Some(p)) = (&self.sender, &self.m.storage) {
            ensure!(s.is_connected() == (self.m.r != H::None), "seq.is_connected", "after step {step} ({op:?}): sender.is_connected() = {} with receiver {:?}", s.is_connected(), self.m.r);
            check_details(s, p).map_err(|e| Failure::new("seq.port_details", format!("after step {step} ({op:?}): sender: {e}")))?;
        }
        if let (Some(r), Some(p)) = (&self.receiver, &self.m.storage) {
            ensure!(r.is_connected() == (self.m.s != H::None), "seq.is_connected", "after step {step} ({op:?}): receiver.is_connected() = {} with sender {:?}", r.is_connected(), self.m.s);
            check_details(r, p).map_err(|e| Failure::new("seq.port_details", format!("after step {step} ({op:?}): receiver: {e}")))?;
        }
        Ok(())
    }

    fn round_trip(&mut self, why: &str) -> Result<(), Failure> {
        let (Some(s), Some(r)) = (&self.sender, &self.receiver) else { return Ok(()) };
        let p = self.m.storage.unwrap();
        let id = ChannelId::new(0);
        let off = PointerOffset::new((self.next_offset % p.samples.min(4)) * SAMPLE);
        self.next_offset += 1;
        let sent = s.try_send(off, SAMPLE, id);
        ensure!(matches!(sent, Ok(None)), "seq.round_trip", "{why}: try_send -> {sent:?}");
        let got = r.receive(id);
        ensure!(matches!(got, Ok(Some(x)) if x == off), "seq.round_trip", "{why}: receive -> {got:?}, sent {off:?}");
        let rel = r.release(off, id);
        ensure!(rel.is_ok(), "seq.round_trip", "{why}: release -> {rel:?}");
        let back = s.reclaim(id);
        ensure!(matches!(back, Ok(Some(x)) if x == off), "seq.round_trip", "{why}: reclaim -> {back:?}, released {off:?}");
        let none = s.reclaim(id);
        ensure!(matches!(none, Ok(None)), "seq.round_trip", "{why}: second reclaim -> {none:?}");
        let empty = r.receive(id);
        ensure!(matches!(empty, Ok(None)), "seq.round_trip", "{why}: receive on the drained connection -> {empty:?}");
        Ok(())
    }

    fn attach(&mut self, sender: bool, p: Params, obs: &mut Obs) -> Result<(), Failure> {
        let h = if sender { self.m.s } else { self.m.r };
        let what = if sender { "create_sender" } else { "create_receiver" };
        let res: Result<(), ZeroCopyCreationError> = if sender {
            builder::<S>(&self.name, &self.cfg, &p).create_sender().map(|x| {
                // a second Ok for an occupied role is reported below; keep the first handle
                if self.sender.is_none() {
                    self.sender = Some(x)
                }
            })
        } else {
            builder::<S>(&self.name, &self.cfg, &p).create_receiver().map(|x| {
                if self.receiver.is_none() {
                    self.receiver = Some(x)
                }
            })
        };
        if h != H::None {
            // which refusal wins when the role is held *and* the parameters mismatch is not specified
            let mut allowed = vec![ZeroCopyCreationError::AnotherInstanceIsAlreadyConnected];
            if let Some(sp) = self.m.storage {
                allowed.extend(mismatch_errors(&p, &sp));
            }
            ensure!(
                matches!(res, Err(e) if allowed.contains(&e)),
                "seq.second_same_role",
                "{what} with the role held ({h:?}) -> {res:?}, expected one of {allowed:?}"
            );
            obs.class("second_same_role_refused");
            if h == H::Abandoned {
                obs.class("attach_refused_by_dead_peer_role");
            }
            return self.round_trip("after a refused second attach");
        }
        if let Some(sp) = self.m.storage {
            if sp != p {
                let allowed = mismatch_errors(&p, &sp);
                match res {
                    Err(e) if allowed.contains(&e) => {}
                    _ => return Err(Failure::new("seq.mismatch", format!("{what} with {p:?} on a connection created with {sp:?} -> {res:?}, expected one of {allowed:?}"))),
                }
                obs.class("mismatch_refused");
                return self.round_trip("after a refused mismatching attach");
            }
        }
        ensure!(res.is_ok(), "seq.attach", "{what} with {p:?} (storage {:?}, sender {:?}, receiver {:?}) -> {res:?}", self.m.storage, self.m.s, self.m.r);
        if self.m.storage.is_none() {
            self.m.storage = Some(p);
            if self.m.removals > 0 {
                obs.class("recreated_after_last_detach");
            }
        } else {
            obs.class("attached_to_existing");
        }
        if sender {
            self.m.s = H::Live;
        } else {
            self.m.r = H::Live;
        }
        Ok(())
    }

    fn step(&mut self, i: usize, op: &Op, base: &Params, obs: &mut Obs) -> Result<(), Failure> {
        if !self.m.legal(op) {
            obs.class("skipped_op");
            return Ok(());
        }
        match op {
            Op::CreateSender(v) => self.attach(true, variant(*base, *v), obs)?,
            Op::CreateReceiver(v) => self.attach(false, variant(*base, *v), obs)?,
            Op::DropSender => {
                drop(self.sender.take());
                self.m.detach(true);
            }
            Op::DropReceiver => {
                drop(self.receiver.take());
                self.m.detach(false);
            }
            Op::AbandonSender => {
                self.sender.take().unwrap().abandon();
                self.m.s = H::Abandoned;
                obs.class("abandoned");
            }
            Op::AbandonReceiver => {
                self.receiver.take().unwrap().abandon();
                self.m.r = H::Abandoned;
                obs.class("abandoned");
            }
            Op::RemoveSender | Op::RemoveReceiver => {
                let sender = matches!(op, Op::RemoveSender);
                let h = if sender { self.m.s } else { self.m.r };
                let res = unsafe { if sender { S::remove_sender(&self.name, &self.cfg) } else { S::remove_receiver(&self.name, &self.cfg) } };
                if h == H::Abandoned {
                    ensure!(res.is_ok(), "seq.forced_remove", "forced removal of the abandoned {} -> {res:?}", if sender { "sender" } else { "receiver" });
                    self.m.detach(sender);
                    obs.class("forced_removal");
                    if !self.m.any() {
                        obs.class("forced_removal_was_last");
                    }
                } else {
                    ensure!(res == Err(ZeroCopyPortRemoveError::DoesNotExist), "seq.forced_remove", "forced removal on a non-existing connection -> {res:?}");
                    obs.class("forced_removal_nothing_there");
                }
            }
            Op::RoundTrip => {
                self.round_trip("round trip")?;
                obs.class("round_trip");
            }
        }
        self.observe(i, op)
    }
}

fn run_seq_on<S: ZeroCopyConnection>(c: &SeqCase, is_shm: bool, obs: &mut Obs) -> Result<(), Failure> {
    let (name, name_str) = fresh_name();
    let base = BASES[c.base as usize % BASES.len()];
    let mut w = World::<S> {
        name,
        name_str,
        cfg: config::<S>(),
        is_shm,
        sender: None,
        receiver: None,
        m: Model { storage: None, s: H::None, r: H::None, removals: 0 },
        removals_seen: 0,
        existed: false,
        next_offset: 0,
    };
    let mut r = Ok(());
    let mut mismatches = 0;
    let mut recreations = 0;
    for (i, op) in c.ops.iter().enumerate() {
        let before = w.m.storage.is_none() && w.m.removals > 0;
        let mut o = Obs::default();
        r = w.step(i, op, &base, &mut o);
        for cl in &o.classes {
            obs.class(cl);
        }
        if o.classes.contains(&"mismatch_refused") {
            mismatches += 1;
        }
        if before && w.m.storage.is_some() {
            recreations += 1;
        }
        if r.is_err() {
            break;
        }
    }
    // clean up whatever the history left behind (also after a failure: nothing may stay in /dev/shm)
    let end = (|| -> Result<(), Failure> {
        if let Some(s) = w.sender.take() {
            drop(s);
            w.m.detach(true);
            w.observe(c.ops.len(), &Op::DropSender)?;
        }
        if let Some(rc) = w.receiver.take() {
            drop(rc);
            w.m.detach(false);
            w.observe(c.ops.len(), &Op::DropReceiver)?;
        }
        if w.m.s == H::Abandoned {
            let res = unsafe { S::remove_sender(&w.name, &w.cfg) };
            ensure!(res.is_ok(), "seq.forced_remove", "final forced removal of the abandoned sender -> {res:?}");
            w.m.detach(true);
            w.observe(c.ops.len(), &Op::RemoveSender)?;
        }
        if w.m.r == H::Abandoned {
            let res = unsafe { S::remove_receiver(&w.name, &w.cfg) };
            ensure!(res.is_ok(), "seq.forced_remove", "final forced removal of the abandoned receiver -> {res:?}");
            w.m.detach(false);
            w.observe(c.ops.len(), &Op::RemoveReceiver)?;
        }
        Ok(())
    })();
    // last resort so that a failing case leaves nothing behind
    if r.is_err() || end.is_err() {
        drop(w.sender.take());
        drop(w.receiver.take());
        let _ = unsafe { S::remove_cfg(&w.name, &w.cfg) };
    }
    r?;
    end?;
    ensure!(!w.m.any() && w.m.storage.is_none(), "seq.model", "harness model inconsistent at the end");
    obs.nontrivial = mismatches > 0 && recreations > 0;
    Ok(())
}

pub fn run_seq(c: &SeqCase, obs: &mut Obs) -> Result<(), Failure> {
    if c.storage == 0 {
        obs.class("storage_process_local");
        run_seq_on::<Pl>(c, false, obs)
    } else {
        obs.class("storage_posix_shm");
        run_seq_on::<Shm>(c, true, obs)
    }
}

/// all legal histories up to `max_len` over the reduced alphabet, small to large
fn enumerate_histories(max_len: usize) -> Vec<Vec<Op>> {
    let alphabet = [
        Op::CreateSender(0),
        Op::CreateSender(1),
        Op::CreateReceiver(0),
        Op::CreateReceiver(3),
        Op::DropSender,
        Op::DropReceiver,
        Op::AbandonSender,
        Op::AbandonReceiver,
        Op::RemoveSender,
        Op::RemoveReceiver,
        Op::RoundTrip,
    ];
    let base = BASES[0];
    let mut out: Vec<Vec<Op>> = vec![];
    let mut frontier: Vec<(Vec<Op>, Model)> = vec![(vec![], Model { storage: None, s: H::None, r: H::None, removals: 0 })];
    for _ in 0..max_len {
        let mut next = vec![];
        for (h, m) in &frontier {
            for op in &alphabet {
                if !m.legal(op) {
                    continue;
                }
                // a forced removal with nothing there is interesting once, as first step
                if matches!(op, Op::RemoveSender | Op::RemoveReceiver) && m.storage.is_none() && !h.is_empty() {
                    continue;
                }
                let mut m2 = m.clone();
                m2.apply(op, &base);
                let mut h2 = h.clone();
                h2.push(*op);
                out.push(h2.clone());
                next.push((h2, m2));
            }
        }
        frontier = next;
    }
    out
}

fn op_strategy() -> impl Strategy<Value = Op> {
    let var = (0u8..(2 * NVAR)).prop_map(|x| if x < NVAR { x } else { 0 });
    prop_oneof![
        4 => var.clone().prop_map(Op::CreateSender),
        4 => var.prop_map(Op::CreateReceiver),
        2 => Just(Op::DropSender),
        2 => Just(Op::DropReceiver),
        1 => Just(Op::AbandonSender),
        1 => Just(Op::AbandonReceiver),
        2 => Just(Op::RemoveSender),
        2 => Just(Op::RemoveReceiver),
        2 => Just(Op::RoundTrip),
    ]
}

pub fn seq_parts(ctx: &mut Ctx) {
    let len = ctx.scale(5, 6);
    let cases = if ctx.part_enabled("seq.exhaustive") && ctx.replay.is_none() {
        let hs = enumerate_histories(len);
        let mut v = Vec::with_capacity(hs.len() * 2);
        for h in hs {
            for storage in 0..2u8 {
                // posix shared memory: one step shorter (every step is a handful of system calls)
                if storage == 1 && h.len() >= len {
                    continue;
                }
                v.push(SeqCase { storage, base: 0, ops: h.clone() });
            }
        }
        v
    } else {
        vec![]
    };
    ctx.enumerate(
        "seq.exhaustive",
        &format!("all legal histories of <= {len} operations (posix shm: <= {}) over create sender/receiver with equal or one mismatching parameter set, drop, abandon, forced removal, round trip", len - 1),
        cases.into_iter(),
        run_seq,
    );
    let strat = (0u8..2, 0u8..BASES.len() as u8, proptest::collection::vec(op_strategy(), 1..=12)).prop_map(|(storage, base, ops)| SeqCase { storage, base, ops });
    ctx.proptest("seq.random", ctx.scale(24_000, 400_000), strat, run_seq);
}
