//! Part (2): `resizable_shared_memory::dynamic` (creator + one view) against the table model
//! addressed by (segment id, offset).

use crate::model::*;
use crate::raw::{shm_config, unique_name};
use core::alloc::Layout;
use iceoryx2_bb_elementary::allocation_strategy::AllocationStrategy;
use iceoryx2_bb_elementary_traits::allocator::*;
use iceoryx2_bb_posix::file::AccessMode;
use iceoryx2_cal::named_concept::*;
use iceoryx2_cal::resizable_shared_memory::dynamic::DynamicMemory;
use iceoryx2_cal::resizable_shared_memory::*;
use iceoryx2_cal::shared_memory::{SharedMemory, ShmPointer};
use iceoryx2_cal::shm_allocator::pool_allocator::PoolAllocator;
use proptest::prelude::*;
use serde::{Deserialize, Serialize};
use std::collections::BTreeMap;
use vcore::util::idx;
use vcore::{Failure, Obs, ensure, fail};

#[derive(Clone, Debug, Serialize, Deserialize)]
pub enum DOp {
    Alloc { size: u16, align: u8 },
    Dealloc(u16),
    /// the view registers (and translates) the offset of a live chunk it does not hold yet
    Register(u16),
    Unregister(u16),
    Grow { which: u16, size: u16, align: u8, back: bool },
}

#[derive(Clone, Debug, Serialize, Deserialize)]
pub struct DynCase {
    pub posix: bool,
    /// 0 Static, 1 BestFit, 2 PowerOfTwo
    pub strategy: u8,
    pub hint_size: u16,
    pub hint_align_log2: u8,
    pub hint_chunks: u8,
    pub view_read_only: bool,
    pub ops: Vec<DOp>,
}

const MAX_REQ: usize = 161;

/// `restrict`: the findings that let a resizable memory burn all 255 reallocations are open
/// (alignment >= 16, hinted size not a multiple of the alignment). Such a case costs seconds, so
/// with BestFit / PowerOfTwo these shapes are then generated in 3 % of the cases only (the Static
/// strategy, where the defect is cheap to observe, keeps the full range).
pub fn case_strategy(max_ops: usize, restrict: bool) -> impl Strategy<Value = DynCase> {
    let op = prop_oneof![
        6 => (any::<u16>(), any::<u8>()).prop_map(|(size, align)| DOp::Alloc { size, align }),
        3 => any::<u16>().prop_map(DOp::Dealloc),
        4 => any::<u16>().prop_map(DOp::Register),
        3 => any::<u16>().prop_map(DOp::Unregister),
        2 => (any::<u16>(), any::<u16>(), any::<u8>(), any::<bool>()).prop_map(|(which, size, align, back)| DOp::Grow { which, size, align, back }),
    ];
    (
        any::<bool>(),
        prop_oneof![2 => Just(0u8), 3 => Just(1u8), 3 => Just(2u8)],
        any::<u8>(),
        // two of three hints are multiples of the alignment (what the ports pass), the rest arbitrary
        (0u8..3, 1u16..=8, prop_oneof![3 => 1u16..=16, 1 => 1u16..=64]),
        any::<u16>(),
        1u8..=4,
        any::<bool>(),
        proptest::collection::vec(op, 0..max_ops),
    )
        .prop_map(move |(posix, strategy, awkward_sel, (mode, k, raw), align_sel, hint_chunks, view_read_only, ops)| {
            let awkward_allowed = !restrict || strategy == 0 || awkward_sel < 8;
            let hint_align_log2 = idx(align_sel, if awkward_allowed { 7 } else { 4 }) as u8;
            let ha = 1u16 << hint_align_log2;
            let hint_size = if mode == 2 && awkward_allowed { raw } else { ha * k.min((128 / ha).max(1)) };
            DynCase { posix, strategy, hint_size, hint_align_log2, hint_chunks, view_read_only, ops }
        })
}

fn req_align(sel: u8, hint_align_log2: u8) -> usize {
    let r = sel as usize;
    if r < 200 { 1usize << (r * (hint_align_log2 as usize + 1) / 200) } else { 1usize << ((r - 200) * 7 / 56) }
}

struct Chunk {
    ptr: ShmPointer,
    size: usize,
    align: usize,
    seed: u32,
    /// address under which the view sees the chunk while it is registered
    view_addr: Option<usize>,
}

fn seg(p: &ShmPointer) -> u8 {
    p.offset.segment_id().value()
}

struct Run<'a, M: ResizableSharedMemoryForPoolAllocator<S>, S: SharedMemory<PoolAllocator>> {
    c: &'a DynCase,
    known: &'a Known,
    sut: &'a M,
    view: &'a M::View,
    live: Vec<Chunk>,
    /// creator: segment of the youngest allocation
    current: u8,
    /// view: registered offsets per mapped segment, and the most recently mapped segment
    view_mapped: BTreeMap<u8, usize>,
    view_current: Option<u8>,
    ever_registered: bool,
    next_seed: u32,
    held_across_growth: bool,
    /// requests above this alignment are left out (open lost-bucket finding, see `case_strategy`)
    cap_req_align: usize,
    /// largest alignment the segments had to support so far
    max_align: usize,
    /// the reallocation budget was burnt by a recorded finding: the case ends
    dead: bool,
    _s: core::marker::PhantomData<S>,
}

fn layout(size: usize, align: usize) -> Layout {
    Layout::from_size_align(size, align).expect("generated layouts are valid")
}

impl<M: ResizableSharedMemoryForPoolAllocator<S>, S: SharedMemory<PoolAllocator>> Run<'_, M, S> {
    fn case_json(&self) -> serde_json::Value {
        serde_json::to_value(self.c).unwrap()
    }

    fn validate(&mut self, what: &str, p: &ShmPointer, size: usize, align: usize, except: Option<usize>) -> Result<(), Failure> {
        let addr = p.data_ptr as usize;
        let s = seg(p);
        for (i, o) in self.live.iter().enumerate() {
            if Some(i) == except {
                continue;
            }
            let oaddr = o.ptr.data_ptr as usize;
            if size > 0 && o.size > 0 && addr < oaddr + o.size && oaddr < addr + size {
                fail!("alloc.overlap", "{what}: [{addr:#x}, +{size}) ({:?}) overlaps the live chunk [{oaddr:#x}, +{}) ({:?})", p.offset, o.size, o.ptr.offset);
            }
            if seg(&o.ptr) == s {
                let (a, b) = (p.offset.offset(), o.ptr.offset.offset());
                if size > 0 && o.size > 0 && a < b + o.size && b < a + size {
                    fail!("alloc.overlap", "{what}: offsets {:?} (+{size}) and {:?} (+{}) overlap", p.offset, o.ptr.offset, o.size);
                }
                ensure!(
                    addr.wrapping_sub(a) == oaddr.wrapping_sub(b),
                    "dynamic.inconsistent_translation",
                    "{what}: chunks of segment {s} are translated with different base addresses ({:#x} vs {:#x})",
                    addr.wrapping_sub(a),
                    oaddr.wrapping_sub(b)
                );
            }
        }
        let bucket = self.sut.bucket_size(p.offset.segment_id());
        ensure!(size <= bucket, "alloc.out_of_bounds", "{what}: {size} bytes were allocated from segment {s} whose buckets have {bucket} bytes");
        if addr % align != 0 {
            let (hs, ha) = (self.c.hint_size as usize, 1usize << self.c.hint_align_log2);
            let base = addr - p.offset.offset();
            if hs % ha != 0 && bucket == hs && align <= ha && base % ha == 0 && p.offset.offset() % hs == 0 {
                let j = self.case_json();
                self.known.observed(SIG_POOL_MISALIGNED, format!("{what}: chunk {:?} of the hinted bucket layout ({hs}, {ha}) is not aligned to {align}", p.offset), || j)?;
            } else {
                return Err(misaligned(&format!("{what} -> {:?} (bucket size {bucket})", p.offset), addr, align));
            }
        }
        Ok(())
    }

    fn creator_segments(&self) -> Vec<u8> {
        let mut v: Vec<u8> = self.live.iter().map(|c| seg(&c.ptr)).collect();
        v.push(self.current);
        v.sort();
        v.dedup();
        v
    }

    /// segment bookkeeping first (so that released memory is never touched), then the canaries
    fn invariant(&mut self, step: &str, obs: &mut Obs) -> Result<(), Failure> {
        let expected = self.creator_segments();
        let active = self.sut.number_of_active_segments();
        ensure!(
            active >= expected.len(),
            "dynamic.segment_released_while_chunks_live",
            "{step}: the creator has {active} active segments but live chunks / the current segment need {expected:?}"
        );
        ensure!(active == expected.len(), "dynamic.segment_not_released", "{step}: the creator has {active} active segments, expected exactly {expected:?}");
        let vactive = self.view.number_of_active_segments();
        let needed = self.view_mapped.iter().filter(|(_, n)| **n > 0).count();
        ensure!(
            vactive >= needed,
            "view.segment_released_while_registered",
            "{step}: the view has {vactive} active segments but offsets are registered in {needed} segments ({:?})",
            self.view_mapped
        );
        ensure!(vactive == self.view_mapped.len(), "view.segment_not_released", "{step}: the view has {vactive} active segments, the model {:?}", self.view_mapped);
        if expected.len() >= 3 {
            obs.class("three_or_more_segments_alive");
        }
        for c in &self.live {
            ensure!(mapped(c.ptr.data_ptr as usize, c.size), "dynamic.live_chunk_unmapped", "{step}: the memory of the live chunk {:?} is not mapped any more", c.ptr.offset);
            if let Some(v) = c.view_addr {
                ensure!(mapped(v, c.size), "view.data_not_readable", "{step}: the view's memory of the registered chunk {:?} is not mapped any more", c.ptr.offset);
            }
            if let Some(i) = unsafe { verify_pattern(c.ptr.data_ptr as usize, c.size, c.seed, 0) } {
                fail!("alloc.canary_damaged", "{step}: byte {i} of the live chunk {:?} (+{}) changed", c.ptr.offset, c.size);
            }
            if let Some(v) = c.view_addr {
                if let Some(i) = unsafe { verify_pattern(v, c.size, c.seed, 0) } {
                    fail!("view.data_not_readable", "{step}: byte {i} of chunk {:?} (+{}) read through the view differs from what was written", c.ptr.offset, c.size);
                }
            }
        }
        Ok(())
    }

    fn note_growth(&mut self, new_seg: u8, obs: &mut Obs) {
        if new_seg != self.current {
            obs.class("segment_growth");
            if self.live.iter().any(|c| c.view_addr.is_some()) {
                self.held_across_growth = true;
                obs.class("registered_chunk_held_across_growth");
            }
            if !self.live.is_empty() {
                obs.class("live_chunk_across_growth");
            }
            self.current = new_seg;
        }
    }

    fn alloc(&mut self, step: usize, size: usize, align: usize, obs: &mut Obs) -> Result<(), Failure> {
        let what = format!("step {step}: allocate({size}, {align})");
        let (hs, ha) = (self.c.hint_size as usize, 1usize << self.c.hint_align_log2);
        if align > self.cap_req_align {
            self.known.excluded(SIG_DYN_LOST_BUCKET);
            obs.class("excluded_request_alignment_16_plus");
            return Ok(());
        }
        match self.sut.allocate(layout(size, align)) {
            Ok(p) => {
                self.validate(&what, &p, size, align, None)?;
                ensure!(seg(&p) >= self.current, "dynamic.segment_id", "{what} returned {:?} although segment {} was already in use", p.offset, self.current);
                if self.c.strategy == 0 {
                    ensure!(seg(&p) == 0 && size <= hs && align <= ha, "alloc.memory_for_unsatisfiable_request", "{what} with the Static strategy and hint ({hs}, {ha}) returned {:?}", p.offset);
                }
                self.note_growth(seg(&p), obs);
                self.max_align = self.max_align.max(align);
                self.next_seed += 1;
                unsafe { write_canary(p.data_ptr as usize, size, self.next_seed) };
                self.live.push(Chunk { ptr: p, size, align, seed: self.next_seed, view_addr: None });
            }
            Err(e) => {
                ensure!(e == AllocationError::OutOfMemory, "alloc.wrong_error", "{what} failed with {e:?}; documented: OutOfMemory");
                if self.c.strategy != 0 {
                    return self.out_of_memory_despite_resizing(&what, align);
                }
                let fits = size <= hs && align <= ha && self.live.len() < self.c.hint_chunks as usize;
                if fits {
                    // the hinted number of chunks of the hinted layout does not fit
                    let j = self.case_json();
                    let msg = format!("{what} failed with {e:?} with {} live chunks; hint: {} chunks of ({hs}, {ha}), Static", self.live.len(), self.c.hint_chunks);
                    if hs % ha != 0 {
                        self.known.observed(SIG_HINT_NONMULT, msg, || j)?;
                    } else if ha >= 16 {
                        self.known.observed(SIG_DYN_LOST_BUCKET, msg, || j)?;
                    } else {
                        fail!("alloc.refused_satisfiable_request", "{msg}");
                    }
                }
                obs.class("static_out_of_memory");
            }
        }
        Ok(())
    }

    /// BestFit / PowerOfTwo must never report OutOfMemory within 255 reallocations. Two recorded
    /// findings make every resized segment one bucket short; then the case ends here.
    fn out_of_memory_despite_resizing(&mut self, what: &str, align: usize) -> Result<(), Failure> {
        let (hs, ha) = (self.c.hint_size as usize, 1usize << self.c.hint_align_log2);
        let amax = self.max_align.max(align);
        let j = self.case_json();
        let msg = format!("{what} failed with OutOfMemory although the strategy allows resizing (hint {} x ({hs}, {ha}), largest alignment so far {amax}, segment {} was in use, {} live chunks)", self.c.hint_chunks, self.current, self.live.len());
        self.dead = true;
        if amax >= 16 {
            self.known.observed(SIG_DYN_LOST_BUCKET, msg, || j)
        } else if hs % ha != 0 {
            self.known.observed(SIG_HINT_NONMULT, msg, || j)
        } else {
            Err(Failure::new("dynamic.out_of_memory_despite_resizing", msg))
        }
    }

    fn grow(&mut self, step: usize, i: usize, nsize: usize, nalign: usize, back: bool, obs: &mut Obs) -> Result<(), Failure> {
        let (optr, osize, oalign, oseed) = {
            let c = &self.live[i];
            (c.ptr, c.size, c.align, c.seed)
        };
        let what = format!("step {step}: grow({:?} ({osize}, {oalign}) -> ({nsize}, {nalign}), back={back})", optr.offset);
        if seg(&optr) != self.current {
            obs.class("grow_of_chunk_in_old_segment");
            if self.known.is_open(SIG_DYN_GROW_OLD_SEGMENT) {
                self.known.excluded(SIG_DYN_GROW_OLD_SEGMENT);
                return Ok(());
            }
        }
        let placement = if back { ContentPlacement::Back } else { ContentPlacement::Front };
        let r = unsafe { self.sut.grow(optr, layout(osize, oalign), layout(nsize, nalign), placement) };
        match r {
            Ok(p) => {
                let old_segment = seg(&optr) != self.current;
                let current = self.current;
                let mut checks = || -> Result<(), Failure> {
                    ensure!(nsize >= osize, "grow.memory_for_unsatisfiable_request", "{what} succeeded although the size decreases");
                    self.validate(&what, &p, nsize, nalign, Some(i))?;
                    let addr = p.data_ptr as usize;
                    let kept_at = if back { addr + (nsize - osize) } else { addr };
                    if let Some(k) = unsafe { verify_pattern(kept_at, osize, oseed, 0) } {
                        fail!("grow.content_lost", "{what}: byte {k} of the old content is wrong in the grown chunk {:?}", p.offset);
                    }
                    Ok(())
                };
                if let Err(f) = checks() {
                    if old_segment && f.signature != SIG_POOL_MISALIGNED {
                        // exactly the recorded situation: the chunk lives in an older segment
                        return Err(Failure::new(
                            SIG_DYN_GROW_OLD_SEGMENT,
                            format!("{} [{}] (the chunk lives in segment {}, the current segment is {current})", f.message, f.signature, seg(&optr)),
                        ));
                    }
                    return Err(f);
                }
                let addr = p.data_ptr as usize;
                obs.class(if seg(&p) != seg(&optr) { "grow_across_segments" } else { "grow_same_segment" });
                self.note_growth(seg(&p).max(self.current), obs);
                self.next_seed += 1;
                unsafe { write_canary(addr, nsize, self.next_seed) };
                let c = &mut self.live[i];
                (c.ptr, c.size, c.align, c.seed) = (p, nsize, nalign, self.next_seed);
                if old_segment {
                    // a correct implementation moved the chunk into the current segment and gave
                    // the old one back: the segment bookkeeping must agree with the model
                    if let Err(f) = self.invariant(&what, obs) {
                        return Err(Failure::new(
                            SIG_DYN_GROW_OLD_SEGMENT,
                            format!("{} [{}] (the chunk lived in segment {}, the current segment was {current})", f.message, f.signature, seg(&optr)),
                        ));
                    }
                }
            }
            Err(AllocationGrowError::OutOfMemory) if self.c.strategy != 0 && nsize >= osize && nalign <= oalign => {
                return self.out_of_memory_despite_resizing(&what, nalign);
            }
            Err(e) => {
                let mut allowed = vec![];
                if nsize < osize {
                    allowed.push(AllocationGrowError::GrowWouldShrink);
                }
                if self.c.strategy == 0 {
                    // no resizing: whatever the single segment cannot do stays impossible
                    allowed.push(AllocationGrowError::OutOfMemory);
                    allowed.push(AllocationGrowError::AlignmentFailure);
                }
                // alignment beyond the bucket alignment of the current segment is refused by the
                // pool allocator's grow (documented error of Grow); the bucket alignment of later
                // segments is not observable, so this error is accepted whenever the alignment grows
                if nalign > oalign {
                    allowed.push(AllocationGrowError::AlignmentFailure);
                }
                ensure!(allowed.contains(&e), "grow.wrong_error", "{what} failed with {e:?}; acceptable here: {allowed:?}");
                obs.class("grow_refused");
            }
        }
        Ok(())
    }

    fn register(&mut self, step: usize, i: usize, obs: &mut Obs) -> Result<(), Failure> {
        let (p, size) = (self.live[i].ptr, self.live[i].size);
        let s = seg(&p);
        let r = unsafe { self.view.register_and_translate_offset(p.offset) };
        let v = match r {
            Ok(v) => v as usize,
            Err(e) => fail!("view.register_failed", "step {step}: register_and_translate_offset({:?}) of a live chunk failed with {e:?}", p.offset),
        };
        self.ever_registered = true;
        // model of the mapping rules stated by the conformance tests
        if let Some(n) = self.view_mapped.get_mut(&s) {
            *n += 1;
        } else {
            self.view_mapped.insert(s, 1);
            if let Some(old) = self.view_current.replace(s) {
                if self.view_mapped.get(&old) == Some(&0) {
                    self.view_mapped.remove(&old);
                }
            }
        }
        if v != p.data_ptr as usize {
            obs.class("view_maps_at_other_address");
        }
        let _ = size;
        self.live[i].view_addr = Some(v);
        obs.class("view_register");
        Ok(())
    }

    fn unregister(&mut self, i: usize, obs: &mut Obs) {
        let p = self.live[i].ptr;
        let s = seg(&p);
        unsafe { self.view.unregister_offset(p.offset) };
        self.live[i].view_addr = None;
        let n = self.view_mapped.get_mut(&s).expect("registered chunk has a mapped segment");
        *n -= 1;
        if *n == 0 && self.view_current != Some(s) {
            self.view_mapped.remove(&s);
        }
        obs.class("view_unregister");
    }
}

fn pick(live: &[Chunk], sel: u16, registered: bool) -> Option<usize> {
    let cand: Vec<usize> = live.iter().enumerate().filter(|(_, c)| c.view_addr.is_some() == registered).map(|(i, _)| i).collect();
    if cand.is_empty() { None } else { Some(cand[idx(sel, cand.len())]) }
}

fn run<M: ResizableSharedMemoryForPoolAllocator<S>, S: SharedMemory<PoolAllocator>>(c: &DynCase, known: &Known, obs: &mut Obs) -> Result<(), Failure>
where
    M: NamedConceptMgmt<Configuration = <S as NamedConceptMgmt>::Configuration>,
{
    let name = unique_name();
    let cfg = shm_config::<S>();
    let strategy = [AllocationStrategy::Static, AllocationStrategy::BestFit, AllocationStrategy::PowerOfTwo][c.strategy as usize];
    let (hs, ha) = (c.hint_size as usize, 1usize << c.hint_align_log2);
    if ha >= 16 && hs < ha && known.is_open(SIG_POOL_UNDERFLOW) {
        // a segment of one bucket (first or resized) would be shorter than its alignment padding:
        // recorded underflow panic inside the storage initializer; left out while that finding is open
        known.excluded(SIG_POOL_UNDERFLOW);
        obs.class("excluded_segment_smaller_than_alignment");
        return Ok(());
    }
    let sut = M::MemoryBuilder::new(&name)
        .config(&cfg)
        .max_chunk_layout_hint(layout(hs, ha))
        .max_number_of_chunks_hint(c.hint_chunks as usize)
        .allocation_strategy(strategy)
        .create();
    let sut = match sut {
        Ok(s) => s,
        Err(e) => fail!("dynamic.create", "creating the resizable memory with hint ({hs}, {ha}) x {} failed: {e:?}", c.hint_chunks),
    };
    let view = M::ViewBuilder::new(&name).config(&cfg).open(if c.view_read_only { AccessMode::Read } else { AccessMode::ReadWrite });
    let view = match view {
        Ok(v) => v,
        Err(e) => fail!("view.open", "opening the view failed: {e:?}"),
    };
    ensure!(sut.number_of_active_segments() == 1, "dynamic.segment_not_released", "{} active segments after creation", sut.number_of_active_segments());
    ensure!(sut.allocation_strategy() == strategy, "dynamic.allocation_strategy", "allocation_strategy() = {:?}", sut.allocation_strategy());
    let mut r = Run::<M, S> {
        c,
        known,
        sut: &sut,
        view: &view,
        live: vec![],
        current: 0,
        view_mapped: BTreeMap::new(),
        view_current: None,
        ever_registered: false,
        next_seed: 0,
        held_across_growth: false,
        cap_req_align: if known.is_open(SIG_DYN_LOST_BUCKET) && c.strategy != 0 && ha <= 8 && hs % ha == 0 { 8 } else { usize::MAX },
        max_align: ha,
        dead: false,
        _s: core::marker::PhantomData,
    };
    obs.class(["strategy_static", "strategy_best_fit", "strategy_power_of_two"][c.strategy as usize]);
    obs.class(if c.posix { "shm_posix" } else { "shm_process_local" });
    if hs % ha != 0 {
        obs.class("hint_size_not_multiple_of_alignment");
    }
    for (step, op) in c.ops.iter().enumerate() {
        match op {
            DOp::Alloc { size, align } => r.alloc(step, idx(*size, MAX_REQ), req_align(*align, c.hint_align_log2), obs)?,
            DOp::Dealloc(w) => {
                if let Some(i) = pick(&r.live, *w, false) {
                    let ch = r.live.remove(i);
                    unsafe { r.sut.deallocate(ch.ptr, layout(ch.size, ch.align)) };
                    obs.class("deallocate");
                }
            }
            DOp::Register(w) => {
                if let Some(i) = pick(&r.live, *w, false) {
                    r.register(step, i, obs)?;
                }
            }
            DOp::Unregister(w) => {
                if let Some(i) = pick(&r.live, *w, true) {
                    r.unregister(i, obs);
                }
            }
            DOp::Grow { which, size, align, back } => {
                if let Some(i) = pick(&r.live, *which, false) {
                    r.grow(step, i, idx(*size, MAX_REQ), req_align(*align, c.hint_align_log2), *back, obs)?;
                }
            }
        }
        if r.dead {
            obs.class("ended_by_recorded_out_of_memory");
            return Ok(());
        }
        r.invariant(&format!("after step {step} {op:?}"), obs)?;
    }
    // release everything: first the view, then the creator
    while let Some(i) = pick(&r.live, 0, true) {
        r.unregister(i, obs);
        r.invariant("final unregistration", obs)?;
    }
    let v = r.view.number_of_active_segments();
    ensure!(v == r.ever_registered as usize, "view.segment_not_released", "after unregistering everything the view has {v} active segments");
    while let Some(ch) = r.live.pop() {
        unsafe { r.sut.deallocate(ch.ptr, layout(ch.size, ch.align)) };
        r.invariant("final deallocation", obs)?;
    }
    let a = r.sut.number_of_active_segments();
    ensure!(a == 1, "dynamic.segment_not_released", "after deallocating everything the creator has {a} active segments");
    obs.nontrivial = r.held_across_growth;
    Ok(())
}

pub fn run_case(c: &DynCase, known: &Known, obs: &mut Obs) -> Result<(), Failure> {
    type Pl = iceoryx2_cal::shared_memory::process_local::Memory<PoolAllocator>;
    type Px = iceoryx2_cal::shared_memory::posix::Memory<PoolAllocator>;
    if c.posix { run::<DynamicMemory<PoolAllocator, Px>, Px>(c, known, obs) } else { run::<DynamicMemory<PoolAllocator, Pl>, Pl>(c, known, obs) }
}
