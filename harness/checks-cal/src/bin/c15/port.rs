//! Part (3): growth of a publisher's data segment seen through the public iceoryx2 API, with
//! a subscriber holding samples across reallocations.

use crate::model::*;
use iceoryx2::config::Config;
use iceoryx2::port::LoanError;
use iceoryx2::prelude::*;
use iceoryx2::sample::Sample;
use iceoryx2_bb_container::semantic_string::SemanticString;
use iceoryx2_bb_system_types::file_name::FileName;
use iceoryx2_bb_system_types::path::Path;
use proptest::prelude::*;
use serde::{Deserialize, Serialize};
use std::sync::atomic::{AtomicU64, Ordering};
use vcore::util::idx;
use vcore::{Failure, Obs, ensure, fail};

#[derive(Clone, Debug, Serialize, Deserialize)]
pub enum POp {
    /// `grow` < 192: longer than everything sent before (`sel` picks by how much); otherwise a length up to the longest so far
    Send { grow: u8, sel: u16 },
    Receive,
    Release(u16),
}

#[derive(Clone, Debug, Serialize, Deserialize)]
pub struct PortCase {
    pub ipc: bool,
    /// 1 BestFit, 2 PowerOfTwo
    pub strategy: u8,
    pub initial_max_slice_len: u8,
    pub payload_align_log2: u8,
    pub max_borrow: u8,
    pub buffer: u8,
    pub ops: Vec<POp>,
}

const MAX_LEN: usize = 8192;

pub fn case_strategy(max_ops: usize) -> impl Strategy<Value = PortCase> {
    let op = prop_oneof![
        5 => (any::<u8>(), any::<u16>()).prop_map(|(grow, sel)| POp::Send { grow, sel }),
        4 => Just(POp::Receive),
        2 => any::<u16>().prop_map(POp::Release),
    ];
    (any::<bool>(), 1u8..=2, 1u8..=4, prop_oneof![3 => 0u8..=3, 1 => 4u8..=6], 1u8..=4, 1u8..=4, proptest::collection::vec(op, 1..max_ops)).prop_map(
        |(ipc, strategy, initial_max_slice_len, payload_align_log2, max_borrow, buffer, ops)| PortCase {
            ipc,
            strategy,
            initial_max_slice_len,
            payload_align_log2,
            max_borrow,
            buffer,
            ops,
        },
    )
}

static COUNTER: AtomicU64 = AtomicU64::new(0);

pub struct Domain {
    pub config: Config,
    root: std::path::PathBuf,
    prefix: String,
}

impl Domain {
    pub fn new() -> Domain {
        let n = COUNTER.fetch_add(1, Ordering::Relaxed);
        let prefix = format!("c15p{}x{}_", std::process::id(), n);
        let root = vcore::util::run_dir().join(format!("dom{n}"));
        std::fs::create_dir_all(&root).expect("create domain root");
        let mut config = Config::default();
        config.global.set_root_path(&Path::new(root.to_str().unwrap().as_bytes()).expect("valid root path"));
        config.global.prefix = FileName::new(prefix.as_bytes()).expect("valid prefix");
        Domain { config, root, prefix }
    }

    pub fn cleanup(&self) {
        unsafe {
            let _ = iceoryx2::testing::remove_global_mgmt_segment::<ipc::Service>(&self.config);
            let _ = iceoryx2::testing::remove_global_mgmt_segment::<local::Service>(&self.config);
        }
        for n in vcore::util::shm_entries_containing(&self.prefix) {
            let _ = std::fs::remove_file(format!("/dev/shm/{n}"));
        }
        let _ = std::fs::remove_dir_all(&self.root);
    }
}

/// a sample the subscriber holds; address and length are remembered from the moment it was
/// received because `Sample::payload()` itself reads the chunk header in shared memory
struct Held<S: Service> {
    seq: usize,
    addr: usize,
    len: usize,
    sample: Sample<S, [u8], ()>,
}

impl<S: Service> Held<S> {
    fn verify(&self, sent: &[usize], when: &str) -> Result<(), Failure> {
        ensure!(
            mapped(self.addr - 128, self.len + 128),
            "port.held_sample_unmapped",
            "{when}: the memory of the held sample {} [{:#x}, +{}) is not mapped any more",
            self.seq,
            self.addr,
            self.len
        );
        let p = self.sample.payload();
        ensure!(p.as_ptr() as usize == self.addr, "port.payload_moved", "{when}: the payload of the held sample {} moved from {:#x} to {:p}", self.seq, self.addr, p.as_ptr());
        verify(p, self.seq, sent[self.seq], when)
    }
}

fn pattern(seq: usize, i: usize) -> u8 {
    if i == 0 { seq as u8 } else { canary(seq as u32 + 77, i) }
}

fn verify(payload: &[u8], seq: usize, len: usize, when: &str) -> Result<(), Failure> {
    ensure!(
        mapped(payload.as_ptr() as usize, payload.len()),
        "port.held_sample_unmapped",
        "{when}: the memory of sample {seq} [{:p}, +{}) is not mapped any more",
        payload.as_ptr(),
        payload.len()
    );
    ensure!(payload.len() == len, "port.payload_len", "{when}: sample {seq} has {} bytes, {len} were sent", payload.len());
    for (i, b) in payload.iter().enumerate() {
        let b = unsafe { (b as *const u8).read_volatile() };
        ensure!(b == pattern(seq, i), "port.payload_corrupted", "{when}: byte {i} of sample {seq} ({len} bytes) is {b:#x}, sent {:#x}", pattern(seq, i));
    }
    Ok(())
}

fn run<S: Service>(c: &PortCase, dom: &Domain, known: &Known, obs: &mut Obs) -> Result<(), Failure> {
    let case_json = || serde_json::to_value(c).unwrap();
    let setup = |e: String| Failure::new("port.setup", e);
    let node = NodeBuilder::new().config(&dom.config).create::<S>().map_err(|e| setup(format!("node: {e:?}")))?;
    let name: ServiceName = "c15/growth".try_into().unwrap();
    let palign = 1usize << c.payload_align_log2;
    let mut b = node
        .service_builder(&name)
        .publish_subscribe::<[u8]>()
        .max_publishers(1)
        .max_subscribers(1)
        .history_size(0)
        .subscriber_max_buffer_size(c.buffer as usize)
        .subscriber_max_borrowed_samples(c.max_borrow as usize)
        .enable_safe_overflow(true);
    if palign > 1 {
        b = b.payload_alignment(Alignment::new(palign).expect("power of two"));
    }
    let service = b.create().map_err(|e| setup(format!("service: {e:?}")))?;
    let strategy = if c.strategy == 1 { AllocationStrategy::BestFit } else { AllocationStrategy::PowerOfTwo };
    let publisher = service
        .publisher_builder()
        .initial_max_slice_len(c.initial_max_slice_len as usize)
        .allocation_strategy(strategy)
        .max_loaned_samples(1)
        .create()
        .map_err(|e| setup(format!("publisher: {e:?}")))?;
    let subscriber = service.subscriber_builder().create().map_err(|e| setup(format!("subscriber: {e:?}")))?;
    obs.class(if c.ipc { "service_ipc" } else { "service_local" });
    obs.class(if c.strategy == 1 { "port_best_fit" } else { "port_power_of_two" });

    // model
    let mut sent: Vec<usize> = vec![]; // length per sequence number
    let mut last_received: Option<usize> = None;
    let mut held: Vec<Held<S>> = vec![];
    let mut longest = c.initial_max_slice_len as usize;
    let mut reallocations_with_held = 0usize;
    let mut reallocations = 0usize;

    for (step, op) in c.ops.iter().enumerate() {
        match op {
            POp::Send { grow, sel } => {
                if sent.len() >= 250 {
                    continue;
                }
                let len = if *grow < 192 && longest < MAX_LEN { longest + 1 + idx(*sel, 3 * longest + 64) } else { 1 + idx(*sel, longest) };
                let seq = sent.len();
                // a reallocation is certain when the chunk cannot fit the largest bucket so far
                let certain = if c.strategy == 1 { len >= longest + 64 } else { len >= 2 * (longest + 192) };
                let mut sample = match publisher.loan_slice(len) {
                    Ok(s) => s,
                    Err(LoanError::OutOfMemory) if palign >= 16 => {
                        // recorded: segments lose a bucket to the alignment padding, resizing never compensates
                        obs.class("ended_by_recorded_out_of_memory");
                        return known.observed(
                            SIG_DYN_LOST_BUCKET,
                            format!("step {step}: loan_slice({len}) failed with OutOfMemory: payload alignment {palign}, buffer {}, max borrow {}, {} samples held, strategy {strategy:?}", c.buffer, c.max_borrow, held.len()),
                            case_json,
                        );
                    }
                    Err(e) => fail!("port.loan_failed_within_limits", "step {step}: loan_slice({len}) failed with {e:?} ({} samples held, buffer {}, max borrow {})", held.len(), c.buffer, c.max_borrow),
                };
                {
                    let p = sample.payload_mut();
                    ensure!(p.len() == len, "port.payload_len", "step {step}: loaned slice has {} elements, {len} requested", p.len());
                    ensure!(p.as_ptr() as usize % palign == 0, "alloc.misaligned", "step {step}: loaned payload at {:p} is not aligned to {palign}", p.as_ptr());
                    let (a, n) = (p.as_ptr() as usize, p.len());
                    for h in &held {
                        let (hseq, ha, hn) = (h.seq, h.addr, h.len);
                        // (different mappings of the same memory cannot be compared in the ipc variant)
                        ensure!(!(a < ha + hn && ha < a + n) || c.ipc, "alloc.overlap", "step {step}: loaned payload [{a:#x}, +{n}) overlaps held sample {hseq} [{ha:#x}, +{hn})");
                    }
                    for (i, b) in p.iter_mut().enumerate() {
                        *b = pattern(seq, i);
                    }
                }
                match sample.send() {
                    Ok(1) => {}
                    r => fail!("port.send", "step {step}: send of sample {seq} returned {r:?}, one subscriber is connected"),
                }
                sent.push(len);
                if len > longest {
                    obs.class("longer_than_everything_before");
                }
                if certain {
                    reallocations += 1;
                    if !held.is_empty() {
                        reallocations_with_held += 1;
                        obs.class("sample_held_across_reallocation");
                    }
                }
                longest = longest.max(len);
            }
            POp::Receive => {
                if held.len() >= c.max_borrow as usize {
                    continue;
                }
                let pending = sent.len() > last_received.map(|l| l + 1).unwrap_or(0);
                match subscriber.receive() {
                    Ok(Some(s)) => {
                        let p = s.payload();
                        ensure!(mapped(p.as_ptr() as usize, p.len()), "port.held_sample_unmapped", "step {step}: the received sample points to unmapped memory [{:p}, +{})", p.as_ptr(), p.len());
                        ensure!(!p.is_empty(), "port.payload_len", "step {step}: received an empty slice");
                        let seq = p[0] as usize;
                        ensure!(seq < sent.len(), "port.payload_corrupted", "step {step}: received a sample tagged {seq}, only {} were sent", sent.len());
                        ensure!(last_received.map(|l| seq > l).unwrap_or(true), "port.received_twice_or_reordered", "step {step}: received sample {seq} after sample {last_received:?}");
                        verify(p, seq, sent[seq], &format!("step {step}: receive"))?;
                        ensure!(p.as_ptr() as usize % palign == 0, "alloc.misaligned", "step {step}: received payload at {:p} is not aligned to {palign}", p.as_ptr());
                        for h in &held {
                            let (hseq, a, n, ha, hn) = (h.seq, p.as_ptr() as usize, p.len(), h.addr, h.len);
                            ensure!(!(a < ha + hn && ha < a + n), "alloc.overlap", "step {step}: sample {seq} [{a:#x}, +{n}) overlaps held sample {hseq} [{ha:#x}, +{hn})");
                        }
                        last_received = Some(seq);
                        let (addr, len) = (p.as_ptr() as usize, p.len());
                        held.push(Held { seq, addr, len, sample: s });
                        obs.class("received");
                    }
                    Ok(None) => {
                        ensure!(!pending, "port.sample_lost", "step {step}: receive returned nothing although sample {} was sent and not received", sent.len() - 1);
                    }
                    Err(e) => fail!("port.receive", "step {step}: receive failed with {e:?}"),
                }
            }
            POp::Release(w) => {
                if !held.is_empty() {
                    let i = idx(*w, held.len());
                    let h = held.remove(i);
                    h.verify(&sent, &format!("step {step}: before release"))?;
                    drop(h);
                    obs.class("released");
                }
            }
        }
        for h in &held {
            h.verify(&sent, &format!("after step {step} {op:?}: held sample"))?;
        }
        if held.len() == c.max_borrow as usize {
            obs.class("holding_max_borrow");
        }
    }
    // drain: what is still pending must be intact as well
    while held.len() < c.max_borrow as usize {
        match subscriber.receive() {
            Ok(Some(s)) => {
                let p = s.payload();
                ensure!(mapped(p.as_ptr() as usize, p.len()), "port.held_sample_unmapped", "drain: the received sample points to unmapped memory [{:p}, +{})", p.as_ptr(), p.len());
                let seq = p.first().copied().unwrap_or(255) as usize;
                ensure!(seq < sent.len() && last_received.map(|l| seq > l).unwrap_or(true), "port.received_twice_or_reordered", "drain: received sample {seq} after {last_received:?}");
                verify(p, seq, sent[seq], "drain")?;
                last_received = Some(seq);
                let (addr, len) = (p.as_ptr() as usize, p.len());
                held.push(Held { seq, addr, len, sample: s });
            }
            Ok(None) => break,
            Err(e) => fail!("port.receive", "drain: receive failed with {e:?}"),
        }
    }
    for h in &held {
        h.verify(&sent, "end: held sample")?;
    }
    if reallocations > 0 {
        obs.class("reallocated");
    }
    if reallocations >= 5 {
        obs.class("five_or_more_reallocations");
    }
    obs.nontrivial = reallocations_with_held > 0;
    drop(held);
    drop(subscriber);
    drop(publisher);
    Ok(())
}

pub fn run_case(c: &PortCase, known: &Known, obs: &mut Obs) -> Result<(), Failure> {
    let dom = Domain::new();
    let r = std::panic::catch_unwind(std::panic::AssertUnwindSafe(|| if c.ipc { run::<ipc::Service>(c, &dom, known, obs) } else { run::<local::Service>(c, &dom, known, obs) }));
    dom.cleanup();
    match r {
        Ok(r) => r,
        Err(e) => std::panic::resume_unwind(e),
    }
}

/// The documented limit: after `max_number_of_reallocations` an allocation that needs another
/// segment fails (LoanError::OutOfMemory) — it must not do anything else.
#[derive(Clone, Debug, Serialize, Deserialize)]
pub struct LimitCase {
    pub ipc: bool,
    pub step: u16,
}

pub fn run_limit_case(c: &LimitCase, known: &Known, obs: &mut Obs) -> Result<(), Failure> {
    fn go<S: Service>(c: &LimitCase, dom: &Domain, obs: &mut Obs) -> Result<(), Failure> {
        let setup = |e: String| Failure::new("port.setup", e);
        let node = NodeBuilder::new().config(&dom.config).create::<S>().map_err(|e| setup(format!("node: {e:?}")))?;
        let name: ServiceName = "c15/limit".try_into().unwrap();
        let service = node.service_builder(&name).publish_subscribe::<[u8]>().max_publishers(1).max_subscribers(1).create().map_err(|e| setup(format!("service: {e:?}")))?;
        let publisher = service.publisher_builder().initial_max_slice_len(1).allocation_strategy(AllocationStrategy::BestFit).create().map_err(|e| setup(format!("publisher: {e:?}")))?;
        let subscriber = service.subscriber_builder().create().map_err(|e| setup(format!("subscriber: {e:?}")))?;
        let mut refused = None;
        for n in 0..300usize {
            let len = 1 + (n + 1) * c.step as usize;
            match publisher.loan_slice(len) {
                Ok(mut s) => {
                    for (i, b) in s.payload_mut().iter_mut().enumerate() {
                        *b = pattern(n % 251, i);
                    }
                    ensure!(s.send() == Ok(1), "port.send", "send {n} failed");
                    let r = subscriber.receive().map_err(|e| Failure::new("port.receive", format!("{e:?}")))?;
                    let Some(r) = r else { fail!("port.sample_lost", "sample {n} was not received") };
                    verify(r.payload(), n % 251, len, &format!("reallocation {n}"))?;
                }
                Err(LoanError::OutOfMemory) => {
                    refused = Some(n);
                    break;
                }
                Err(e) => fail!("port.loan_failed_within_limits", "loan {n} ({len} bytes) failed with {e:?}"),
            }
        }
        match refused {
            Some(n) => {
                ensure!(n >= 200, "port.loan_failed_within_limits", "OutOfMemory already at reallocation {n}");
                obs.class("reallocation_limit_reported_as_out_of_memory");
            }
            None => obs.class("no_reallocation_limit_reached"),
        }
        obs.nontrivial = true;
        Ok(())
    }
    let dom = Domain::new();
    let r = std::panic::catch_unwind(std::panic::AssertUnwindSafe(|| if c.ipc { go::<ipc::Service>(c, &dom, obs) } else { go::<local::Service>(c, &dom, obs) }));
    dom.cleanup();
    match r {
        Ok(r) => r,
        Err(e) => {
            let m = vcore::util::panic_message(&e);
            if m.contains("index out of bounds: the len is 255 but the index is 255") {
                obs.class("panic_at_segment_id_255");
                obs.nontrivial = true;
                return known.observed(SIG_PORT_SEGMENT_255, format!("loan_slice() that needs the 255th reallocation: {m}"), || serde_json::to_value(c).unwrap());
            }
            std::panic::resume_unwind(e)
        }
    }
}
