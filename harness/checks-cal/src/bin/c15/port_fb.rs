//! Part (4): loans that grow while they are being built — the `Flatbuffer<T>` payload API.
//!
//! A publisher with `AllocationStrategy::BestFit | PowerOfTwo` loans flatbuffer samples
//! (`loan_flatbuffer`), appends tables to them through the `FlatBufferBuilder` that lives on
//! iceoryx2's resizable memory (every push that does not fit makes the chunk grow, for these
//! strategies into a chunk of a new, larger data segment: `ChunkMutSharedState::grow` ->
//! `Sender::grow` -> `DataSegment::grow`), finishes and sends them, while one or two subscribers
//! hold received samples. Several loans are built at the same time.
//!
//! Oracle (C02 + C15): the bytes seen through a held sample never change and always decode to
//! what was sent under that tag; the used part of a loan keeps its content when the loan grows
//! and when *another* loan grows; loans and held samples never overlap; the serialized bytes at
//! the subscriber equal the bytes the publisher saw before sending; the user header written at
//! loan time survives every move of the chunk; delivery is in order, exactly once, loss only by
//! the documented overflow; within the limits no loan fails; at the end the publisher can loan
//! `max_loaned_samples` samples again and deliver.

use crate::model::*;
use crate::port::Domain;
use flatbuffers::WIPOffset;
use iceoryx2::port::LoanError;
use iceoryx2::port::publisher::Publisher;
use iceoryx2::port::subscriber::Subscriber;
use iceoryx2::port::update_connections::UpdateConnections;
use iceoryx2::prelude::*;
use iceoryx2::sample::Sample;
use iceoryx2::sample_mut_uninit::SampleMutUninit;
use iceoryx2::service::header::publish_subscribe::Header;
use iceoryx2_bb_container::semantic_string::SemanticString;
use iceoryx2_bb_system_types::file_path::FilePath;
use proptest::prelude::*;
use serde::{Deserialize, Serialize};
use std::collections::VecDeque;
use vcore::util::idx;
use vcore::{Failure, Obs, ensure, fail};

#[path = "/repo/examples/rust/flatbuffer_publish_subscribe/unbounded_data_generated.rs"]
#[allow(clippy::all, dead_code, unused_imports, mismatched_lifetime_syntaxes)]
#[rustfmt::skip]
mod unbounded_data_generated;
use unbounded_data_generated::example::{Entry, EntryArgs, UnboundedData, UnboundedDataArgs};

const SCHEMA: &str = "/repo/examples/rust/flatbuffer_publish_subscribe/unbounded_data.fbs";

type Fb = Flatbuffer<UnboundedData<'static>>;

const MAGIC: u64 = 0x1CE0_12F2_C15F_B001;

/// user header: `magic` is written by `Default` when the chunk is loaned, i.e. before any
/// growth, and has to travel with the chunk; `tag` is set right before sending
#[derive(Debug, Clone, Copy, PartialEq, Eq, ZeroCopySend)]
#[repr(C)]
pub struct Uh {
    magic: u64,
    tag: u64,
}

impl Default for Uh {
    fn default() -> Self {
        Uh { magic: MAGIC, tag: u64::MAX }
    }
}

#[derive(Clone, Debug, Serialize, Deserialize)]
pub enum FOp {
    /// `loan_flatbuffer` (at `max_loaned_samples` live loans: must be refused with ExceedsMaxLoans)
    Begin,
    /// `n` more `Entry` tables into the builder of the selected live loan; `beyond`: first as many
    /// as it takes to reach the largest number of entries any loan had so far (then the `n` more
    /// need memory that no chunk of this publisher had before)
    Append { loan: u16, n: u16, beyond: bool },
    /// title string, vector of the entry offsets, root table, `assume_init`, then `send` (or drop)
    Finish { loan: u16, send: bool },
    /// drop the unfinished loan
    DropLoan { loan: u16 },
    /// `sub` odd: the second subscriber if it is there
    Receive { sub: u8 },
    Release { sub: u8, k: u16 },
    /// second subscriber: created + `publisher.update_connections()` if absent, otherwise its samples
    /// are released, it is dropped and the publisher updates its connections
    JoinOrLeave,
}

#[derive(Clone, Debug, Serialize, Deserialize)]
pub struct FbCase {
    pub ipc: bool,
    /// 1 BestFit, 2 PowerOfTwo
    pub strategy: u8,
    pub initial_reserved_memory: u32,
    pub max_loans: u8,
    pub buffer: u8,
    pub max_borrow: u8,
    pub history: u8,
    /// max_subscribers 2 and `JoinOrLeave` enabled
    pub second_sub: bool,
    pub ops: Vec<FOp>,
}

pub fn case_strategy(ipc: bool, max_ops: usize) -> impl Strategy<Value = FbCase> {
    let n = prop_oneof![4 => 1u16..=4, 4 => 5u16..=24, 1 => 25u16..=120];
    let op = prop_oneof![
        3 => Just(FOp::Begin),
        8 => (any::<u16>(), n, prop_oneof![3 => Just(false), 2 => Just(true)]).prop_map(|(loan, n, beyond)| FOp::Append { loan, n, beyond }),
        6 => (any::<u16>(), prop_oneof![9 => Just(true), 1 => Just(false)]).prop_map(|(loan, send)| FOp::Finish { loan, send }),
        1 => any::<u16>().prop_map(|loan| FOp::DropLoan { loan }),
        6 => (0u8..=1).prop_map(|sub| FOp::Receive { sub }),
        2 => (0u8..=1, any::<u16>()).prop_map(|(sub, k)| FOp::Release { sub, k }),
        1 => Just(FOp::JoinOrLeave),
    ];
    let initial = prop_oneof![3 => 1u32..=48, 3 => 49u32..=400, 2 => 401u32..=2048, 1 => 2049u32..=16384];
    (1u8..=2, initial, 1u8..=3, 1u8..=4, 1u8..=4, 0u8..=2, any::<bool>(), proptest::collection::vec(op, 1..max_ops)).prop_map(
        move |(strategy, initial_reserved_memory, max_loans, buffer, max_borrow, history, second_sub, ops)| FbCase {
            ipc,
            strategy,
            initial_reserved_memory,
            max_loans,
            buffer,
            max_borrow,
            history,
            second_sub,
            ops,
        },
    )
}

/// `payload_bytes()` of a sample whose loan grew is longer than the serialized data: it reaches
/// past the end of the chunk by the length of the headers
pub const SIG_FB_PAYLOAD_LEN: &str = "fb.payload_bytes_of_grown_sample_reach_past_chunk_by_header_length";

/// The chunk size the sender hands to the connection for a sample whose loan grew is the
/// layout of the last growth plus the header length, not the bucket size of its segment; the
/// connection derives chunk indices of that segment from it.
pub const SIG_FB_SAMPLE_SIZE: &str = "fb.grown_sample_sent_with_wrong_chunk_size_breaks_connection_chunk_index";

/// sink for observations of the findings of this part (same contract as `model::Known`)
pub struct FbKnown {
    open: Vec<&'static str>,
    hits: std::cell::RefCell<std::collections::BTreeMap<&'static str, (u64, String, serde_json::Value)>>,
    excluded: std::cell::RefCell<std::collections::BTreeMap<&'static str, u64>>,
}

impl FbKnown {
    pub fn new(ctx: &vcore::Ctx) -> FbKnown {
        FbKnown { open: [SIG_FB_PAYLOAD_LEN, SIG_FB_SAMPLE_SIZE].into_iter().filter(|s| ctx.is_open_finding(s)).collect(), hits: Default::default(), excluded: Default::default() }
    }

    fn is_open(&self, sig: &str) -> bool {
        self.open.iter().any(|s| *s == sig)
    }

    fn observed(&self, sig: &'static str, msg: String, case: impl FnOnce() -> serde_json::Value) -> Result<(), Failure> {
        if !self.is_open(sig) {
            return Err(Failure::new(sig, msg));
        }
        self.hits.borrow_mut().entry(sig).or_insert_with(|| (0, msg, case())).0 += 1;
        Ok(())
    }

    fn excluded(&self, sig: &'static str) {
        *self.excluded.borrow_mut().entry(sig).or_default() += 1;
    }

    pub fn flush(&self, ctx: &mut vcore::Ctx, part: &str) {
        for (sig, n) in std::mem::take(&mut *self.excluded.borrow_mut()) {
            for _ in 0..n {
                ctx.count_excluded(sig);
            }
        }
        for (sig, (n, msg, case)) in std::mem::take(&mut *self.hits.borrow_mut()) {
            let f = Failure::new(sig, msg);
            for _ in 0..n {
                ctx.violation(part, &f, case.clone());
            }
        }
    }
}

const MAX_ENTRIES_PER_LOAN: usize = 400;
const MAX_SENT: usize = 200;
/// the documented limit is 256 reallocations per port; the generator stays clear of it (and of
/// the recorded panic at reallocation 255) with an upper estimate of the reallocations it caused
const REALLOCATION_BUDGET: usize = 180;

fn title_of(tag: u32, n: usize) -> String {
    format!("t{tag}n{n}")
}

fn parse_title(t: &str) -> Option<(u32, usize)> {
    let r = t.strip_prefix('t')?;
    let (a, b) = r.split_once('n')?;
    Some((a.parse().ok()?, b.parse().ok()?))
}

// never the default value 0: every entry has both fields, the size of a table is constant
fn d1(tag: u32, i: usize) -> i32 {
    (((tag as i32) << 12) | (i as i32 & 0xfff)) + 1
}

fn d2(tag: u32, i: usize) -> u64 {
    (((tag as u64) << 32) | i as u64).wrapping_mul(0x9E37_79B9_7F4A_7C15) | 1
}

/// upper bounds of what the builder needs: a table of (u64, i32) is 16 bytes + alignment, its
/// vtable (8 bytes) is written temporarily even when it is deduplicated
fn need_append(n: usize) -> usize {
    32 * n + 64
}

fn need_finish(n: usize) -> usize {
    4 * n + 192
}

fn read_shm(ptr: *const u8, len: usize, sig: &'static str, what: &str) -> Result<Vec<u8>, Failure> {
    ensure!(mapped(ptr as usize, len), sig, "{what}: [{ptr:p}, +{len}) is not mapped");
    let mut v = vec![0u8; len];
    unsafe { core::ptr::copy_nonoverlapping(ptr, v.as_mut_ptr(), len) };
    Ok(v)
}

/// decoded content against the model of tag `tag`
fn check_root(root: UnboundedData<'_>, tag: u32, n: usize, sig: &'static str, what: &str) -> Result<(), Failure> {
    let want = title_of(tag, n);
    ensure!(root.title() == Some(want.as_str()), sig, "{what}: title is {:?}, sent {want:?}", root.title());
    let Some(e) = root.entries() else { fail!(sig, "{what}: the entries vector of sample {tag} is missing") };
    ensure!(e.len() == n, sig, "{what}: sample {tag} has {} entries, {n} were sent", e.len());
    for i in 0..n {
        let x = e.get(i);
        ensure!(x.data_1() == d1(tag, i) && x.data_2() == d2(tag, i), sig, "{what}: entry {i} of sample {tag} is ({}, {}), sent ({}, {})", x.data_1(), x.data_2(), d1(tag, i), d2(tag, i));
    }
    Ok(())
}

fn check_bytes(bytes: &[u8], tag: u32, n: usize, sig: &'static str, what: &str) -> Result<(), Failure> {
    match flatbuffers::root::<UnboundedData>(bytes) {
        Ok(r) => check_root(r, tag, n, sig, what),
        Err(e) => fail!(sig, "{what}: the {} bytes of sample {tag} are no valid flatbuffer: {e:?}", bytes.len()),
    }
}

struct Loan<S: Service> {
    tag: u32,
    sample: SampleMutUninit<S, Fb, Uh>,
    entries: Vec<WIPOffset<Entry<'static>>>,
    /// end address of the builder's buffer; the used part is `[end - copy.len(), end)`
    end: usize,
    /// the used part as it was after the last op on this loan
    copy: Vec<u8>,
    /// bounds of the payload capacity of the chunk (not observable through the API)
    lb: usize,
    ub: usize,
    /// segment generation in which the chunk was obtained
    epoch: u32,
    grew: u32,
}

impl<S: Service> Loan<S> {
    fn observe(&mut self, what: &str) -> Result<(usize, Vec<u8>), Failure> {
        let d = self.sample.flatbuffer_builder().unfinished_data();
        let (p, n) = (d.as_ptr(), d.len());
        Ok((p as usize + n, read_shm(p, n, "fb.loan_unmapped", what)?))
    }

    fn used(&self) -> (usize, usize) {
        (self.end - self.copy.len(), self.copy.len())
    }

    /// nothing but an op on this loan may change its buffer
    fn verify_untouched(&mut self, what: &str) -> Result<(), Failure> {
        let tag = self.tag;
        let (end, now) = self.observe(what)?;
        ensure!(end == self.end, "fb.loan_moved_by_foreign_op", "{what}: the buffer of the loan {tag} ended at {:#x}, now at {end:#x}", self.end);
        ensure!(now == self.copy, "fb.loan_changed_by_foreign_op", "{what}: the {} used bytes of the loan {tag} changed (first difference at {:?})", self.copy.len(), first_diff(&now, &self.copy));
        Ok(())
    }
}

fn first_diff(a: &[u8], b: &[u8]) -> Option<usize> {
    if a.len() != b.len() {
        return Some(a.len().min(b.len()));
    }
    (0..a.len()).find(|i| a[*i] != b[*i])
}

struct Held<S: Service> {
    pos: usize,
    tag: u32,
    addr: usize,
    bytes: Vec<u8>,
    /// length of `payload_bytes()` (= `bytes.len()` + the excess of the recorded finding)
    full_len: usize,
    sample: Sample<S, Fb, Uh>,
}

struct SentInfo {
    tag: u32,
    n: usize,
    /// the serialized data as the publisher saw them before sending
    bytes: Vec<u8>,
    /// bytes by which `payload_bytes()` was longer than that (recorded finding; otherwise 0)
    excess: usize,
    grew: u32,
}

impl<S: Service> Held<S> {
    fn verify(&self, sent: &[SentInfo], what: &str) -> Result<(), Failure> {
        let (tag, len) = (self.tag, self.bytes.len());
        ensure!(mapped(self.addr, len), "port.held_sample_unmapped", "{what}: the memory of the held sample {tag} [{:#x}, +{len}) is not mapped any more", self.addr);
        let p = self.sample.payload_bytes();
        ensure!(p.as_ptr() as usize == self.addr && p.len() == self.full_len, "port.payload_moved", "{what}: the payload of the held sample {tag} was [{:#x}, +{}), now [{:p}, +{}]", self.addr, self.full_len, p.as_ptr(), p.len());
        let now = read_shm(p.as_ptr(), len, "port.held_sample_unmapped", what)?;
        if let Some(i) = first_diff(&now, &self.bytes) {
            fail!("port.payload_corrupted", "{what}: byte {i} of the held sample {tag} ({len} bytes at {:#x}) changed from {:#x} to {:#x}", self.addr, self.bytes[i], now[i]);
        }
        let uh = *self.sample.user_header();
        ensure!(uh == Uh { magic: MAGIC, tag: tag as u64 }, "fb.user_header_corrupted", "{what}: the user header of the held sample {tag} reads {uh:x?}");
        match self.sample.payload_root() {
            Ok(r) => check_root(r, tag, sent[self.pos].n, "port.payload_corrupted", what),
            Err(e) => fail!("port.payload_corrupted", "{what}: payload_root() of the held sample {tag} fails: {e:?}"),
        }
    }
}

/// what one subscriber still has to get: (position in send order, must be delivered)
struct SubModel<S: Service> {
    port: Subscriber<S, Fb, Uh>,
    queue: VecDeque<(usize, bool)>,
    last: Option<usize>,
    held: Vec<Held<S>>,
    /// number of samples sent before it connected
    joined_at: usize,
}

fn overlap(a: (usize, usize), b: (usize, usize)) -> bool {
    a.1 > 0 && b.1 > 0 && a.0 < b.0 + b.1 && b.0 < a.0 + a.1
}

struct Run<'a, S: Service> {
    c: &'a FbCase,
    known: &'a Known,
    fbk: &'a FbKnown,
    publisher: Publisher<S, Fb, Uh>,
    subs: Vec<SubModel<S>>,
    loans: Vec<Loan<S>>,
    sent: Vec<SentInfo>,
    next_tag: u32,
    // capacity bounds of a chunk of the current segment and the segment generation
    seg_lb: usize,
    seg_ub: usize,
    epoch: u32,
    est_reallocations: usize,
    /// largest number of entries in one loan so far
    most_entries: usize,
    inc_min: usize,
    hdr_max: usize,
    hdr_len: usize,
    // evidence
    moved_with_held: bool,
    trace: bool,
}

impl<'a, S: Service + 'static> Run<'a, S> {
    fn case_json(&self) -> serde_json::Value {
        serde_json::to_value(self.c).unwrap()
    }

    fn held_count(&self) -> usize {
        self.subs.iter().map(|s| s.held.len()).sum()
    }

    /// C02 (2): live loans and held samples are pairwise disjoint
    fn check_disjoint(&self, what: &str) -> Result<(), Failure> {
        for (i, a) in self.loans.iter().enumerate() {
            for b in &self.loans[i + 1..] {
                ensure!(!overlap(a.used(), b.used()), "alloc.overlap", "{what}: the loans {} [{:#x}, +{}) and {} [{:#x}, +{}) overlap", a.tag, a.used().0, a.used().1, b.tag, b.used().0, b.used().1);
            }
            // (publisher and subscriber map the segments separately in the ipc variant)
            if !self.c.ipc {
                for h in self.subs.iter().flat_map(|s| s.held.iter()) {
                    ensure!(!overlap(a.used(), (h.addr, h.bytes.len())), "alloc.overlap", "{what}: the loan {} [{:#x}, +{}) overlaps the held sample {} [{:#x}, +{})", a.tag, a.used().0, a.used().1, h.tag, h.addr, h.bytes.len());
                }
            }
        }
        for (si, s) in self.subs.iter().enumerate() {
            for (i, a) in s.held.iter().enumerate() {
                for b in &s.held[i + 1..] {
                    ensure!(!overlap((a.addr, a.bytes.len()), (b.addr, b.bytes.len())), "alloc.overlap", "{what}: subscriber {si} holds the samples {} [{:#x}, +{}) and {} [{:#x}, +{}) which overlap", a.tag, a.addr, a.bytes.len(), b.tag, b.addr, b.bytes.len());
                }
            }
        }
        Ok(())
    }

    fn check_all(&mut self, what: &str) -> Result<(), Failure> {
        for l in self.loans.iter_mut() {
            l.verify_untouched(what)?;
        }
        for s in &self.subs {
            for h in &s.held {
                h.verify(&self.sent, what)?;
            }
        }
        self.check_disjoint(what)
    }

    fn begin(&mut self, step: usize, obs: &mut Obs) -> Result<(), Failure> {
        let r = self.publisher.loan_flatbuffer();
        if self.loans.len() >= self.c.max_loans as usize {
            match r {
                Err(LoanError::ExceedsMaxLoans) => obs.class("loan_refused_at_max_loaned_samples"),
                Err(e) => fail!("port.loan_wrong_error", "{}: loan_flatbuffer() with {} live loans (max_loaned_samples {}) failed with {e:?}", st(step), self.loans.len(), self.c.max_loans),
                Ok(_) => fail!("port.loan_beyond_max_loaned_samples", "{}: loan_flatbuffer() succeeded with {} live loans, max_loaned_samples is {}", st(step), self.loans.len(), self.c.max_loans),
            }
            return Ok(());
        }
        let sample = match r {
            Ok(s) => s,
            Err(e) => fail!("port.loan_failed_within_limits", "{}: loan_flatbuffer() failed with {e:?} ({} live loans of {}, {} samples held, buffer {}, max borrow {}, history {})", st(step), self.loans.len(), self.c.max_loans, self.held_count(), self.c.buffer, self.c.max_borrow, self.c.history),
        };
        let tag = self.next_tag;
        self.next_tag += 1;
        let mut l = Loan { tag, sample, entries: vec![], end: 0, copy: vec![], lb: self.seg_lb, ub: self.seg_ub, epoch: self.epoch, grew: 0 };
        let (end, copy) = l.observe(&format!("{}: fresh loan", st(step)))?;
        ensure!(copy.is_empty(), "fb.fresh_builder_not_empty", "{}: the builder of a fresh loan has {} used bytes", st(step), copy.len());
        l.end = end;
        if self.moved_with_held {
            obs.nontrivial = true;
            obs.class("loan_after_move_with_held_sample");
        }
        if !self.loans.is_empty() {
            obs.class("several_loans_being_built");
        }
        self.loans.push(l);
        Ok(())
    }

    /// Is the selected loan allowed to run an op that needs up to `need` more bytes?
    fn admit(&mut self, i: usize, need: usize, obs: &mut Obs) -> bool {
        let l = &self.loans[i];
        let may_grow = l.copy.len() + need > l.lb;
        if !may_grow {
            return true;
        }
        if l.epoch != self.epoch {
            // the chunk lives in an older segment and may have to grow: the recorded situation
            obs.class("growth_of_loan_in_older_segment_requested");
            if self.known.is_open(SIG_DYN_GROW_OLD_SEGMENT) {
                self.known.excluded(SIG_DYN_GROW_OLD_SEGMENT);
                return false;
            }
        }
        let predicted = if self.c.strategy == 1 { 2 * need / self.inc_min + 2 } else { 2 + (usize::BITS - ((l.copy.len() + need) / l.lb.max(1)).leading_zeros()) as usize };
        if self.est_reallocations + predicted > REALLOCATION_BUDGET {
            obs.class("op_skipped_reallocation_budget_used_up");
            return false;
        }
        true
    }

    /// bookkeeping after an op on loan `i` that may have grown it; (`end`, `now`) = its buffer after the op;
    /// returns whether a loan that lived in an older segment grew
    fn after_loan_op(&mut self, step: usize, i: usize, end: usize, now: Vec<u8>, obs: &mut Obs) -> Result<bool, Failure> {
        let held = self.held_count();
        let others_growing = self.loans.iter().enumerate().any(|(j, o)| j != i && o.grew > 0);
        let (epoch, strategy, inc_min, hdr_max) = (self.epoch, self.c.strategy, self.inc_min, self.hdr_max);
        let l = &mut self.loans[i];
        let tag = l.tag;
        let (u0, u1) = (l.copy.len(), now.len());
        ensure!(u1 >= u0, "fb.builder_lost_data", "{}: the builder of loan {tag} had {u0} used bytes, now {u1}", st(step));
        // the builder grows downwards: what was there is the tail of what is there now
        if let Some(k) = first_diff(&now[u1 - u0..], &l.copy) {
            let sig = if end != l.end { "fb.loan_content_lost_while_growing" } else { "fb.loan_content_changed" };
            fail!(sig, "{}: byte {k} (from the end: {}) of the {u0} bytes that loan {tag} already contained changed from {:#x} to {:#x} (buffer end {:#x} -> {end:#x}, now {u1} bytes used)", st(step), u0 - k, l.copy[k], now[u1 - u0 + k], l.end);
        }
        let grown = end != l.end;
        let stale = l.epoch != epoch;
        if grown {
            l.grew += 1;
            obs.class("loan_grew");
            let left_chunk = u1 > l.ub;
            let est = if strategy == 1 { 2 * (u1 - u0) / inc_min + 2 } else { 2 + (usize::BITS - (u1 / l.lb.max(1)).leading_zeros()) as usize };
            let several = if strategy == 1 { u1 > l.ub + 2 * (inc_min + 32) } else { u1 > 2 * (l.ub + hdr_max) + hdr_max };
            l.lb = u1;
            l.ub = if strategy == 1 { u1 + inc_min + 32 } else { 2 * (u1 + hdr_max + 1) };
            l.epoch = epoch + 1;
            let (lb, ub, grew) = (l.lb, l.ub, l.grew);
            self.epoch += 1;
            self.est_reallocations += est;
            self.seg_lb = self.seg_lb.max(lb);
            self.seg_ub = self.seg_ub.max(if strategy == 1 { ub + 16 } else { 2 * ub + 2 * hdr_max });
            if held > 0 {
                // the buffer of the builder is somewhere else now: `Sender::grow` ran while a subscriber held a sample
                self.moved_with_held = true;
                obs.class("sample_held_across_growth_of_a_loan");
            }
            if left_chunk {
                // more used bytes than the chunk can have had: certainly a chunk of a new segment
                obs.class("loan_certainly_left_its_chunk_for_a_new_segment");
                if held > 0 {
                    obs.class("sample_held_across_certain_reallocation");
                }
            }
            if several {
                obs.class("several_reallocations_within_one_op");
            }
            if grew >= 2 {
                obs.class("loan_grew_in_two_or_more_ops");
            }
            if others_growing {
                obs.class("two_live_loans_have_grown");
            }
            if stale {
                obs.class("loan_in_older_segment_grew");
            }
        }
        l.end = end;
        l.copy = now;
        Ok(grown && stale)
    }

    fn append(&mut self, step: usize, sel: u16, n: u16, beyond: bool, obs: &mut Obs) -> Result<(), Failure> {
        if self.loans.is_empty() {
            // (an op on a loan when there is none starts one: denser histories)
            self.begin(step, obs)?;
        }
        let i = idx(sel, self.loans.len());
        let have = self.loans[i].entries.len();
        let n = if beyond { self.most_entries.saturating_sub(have) + n as usize } else { n as usize }.min(MAX_ENTRIES_PER_LOAN - have);
        if n == 0 || !self.admit(i, need_append(n), obs) {
            return Ok(());
        }
        let what = format!("{}: Append({n}) to loan {}", st(step), self.loans[i].tag);
        let stale_before = self.loans[i].epoch != self.epoch;
        {
            let l = &mut self.loans[i];
            let b = l.sample.flatbuffer_builder();
            for _ in 0..n {
                let k = l.entries.len();
                l.entries.push(Entry::create(b, &EntryArgs { data_1: d1(l.tag, k), data_2: d2(l.tag, k) }));
            }
        }
        self.most_entries = self.most_entries.max(have + n);
        let (end, now) = self.loans[i].observe(&what)?;
        if self.trace {
            eprintln!("{what}: used {} -> {}, end {:#x} -> {end:#x}, lb {} ub {}", self.loans[i].copy.len(), now.len(), self.loans[i].end, self.loans[i].lb, self.loans[i].ub);
        }
        let stale_grew = stale_before && end != self.loans[i].end;
        let r = self.after_loan_op(step, i, end, now, obs).and_then(|stale_grew| self.check_all(&what).map(|_| stale_grew));
        self.recorded_situation(r, stale_grew, &what)
    }

    /// A loan that lives in an older segment grew: failures of exactly that op are the recorded
    /// defect of `DynamicMemory::grow`; with the finding open the case ends there.
    fn recorded_situation(&mut self, r: Result<bool, Failure>, stale_grew: bool, what: &str) -> Result<(), Failure> {
        match r {
            Ok(true) if self.known.is_open(SIG_DYN_GROW_OLD_SEGMENT) => {
                // (not reached while `admit` keeps such loans from growing)
                let j = self.case_json();
                self.known.observed(SIG_DYN_GROW_OLD_SEGMENT, format!("{what}: a loan whose chunk lives in an older segment grew"), || j)?;
                Err(Failure::new(END_OF_CASE, ""))
            }
            Ok(_) => Ok(()),
            Err(f) if stale_grew && f.signature != END_OF_CASE => Err(Failure::new(SIG_DYN_GROW_OLD_SEGMENT, format!("{} [{}] (the chunk of the loan lived in an older segment than the publisher's current one)", f.message, f.signature))),
            Err(f) => Err(f),
        }
    }

    fn finish(&mut self, step: usize, sel: u16, send: bool, obs: &mut Obs) -> Result<(), Failure> {
        if send && self.sent.len() >= MAX_SENT {
            return Ok(());
        }
        if self.loans.is_empty() {
            self.begin(step, obs)?;
        }
        let i = idx(sel, self.loans.len());
        let n = self.loans[i].entries.len();
        if !self.admit(i, need_finish(n), obs) {
            return Ok(());
        }
        let tag = self.loans[i].tag;
        if send && self.loans.iter().enumerate().any(|(j, g)| j != i && g.grew > 0 && g.epoch == self.loans[i].epoch) {
            // this loan's chunk lies behind the chunk of an unsent loan that grew into the same
            // segment: sending it first is the shape of the recorded chunk-size finding
            obs.class("send_before_the_grown_loan_of_the_same_segment_requested");
            if self.fbk.is_open(SIG_FB_SAMPLE_SIZE) {
                self.fbk.excluded(SIG_FB_SAMPLE_SIZE);
                return Ok(());
            }
        }
        let what = format!("{}: Finish(loan {tag}, {n} entries, send={send})", st(step));
        let stale_before = self.loans[i].epoch != self.epoch;
        let root = {
            let l = &mut self.loans[i];
            let b = l.sample.flatbuffer_builder();
            let title = b.create_string(&title_of(tag, n));
            let entries = b.create_vector(&l.entries);
            UnboundedData::create(b, &UnboundedDataArgs { title: Some(title), entries: Some(entries) })
        };
        let (end, now) = self.loans[i].observe(&what)?;
        let stale_grew = stale_before && end != self.loans[i].end;
        let r = self.after_loan_op(step, i, end, now, obs).and_then(|stale_grew| self.check_all(&what).map(|_| stale_grew));
        self.recorded_situation(r, stale_grew, &what)?;

        let l = self.loans.remove(i);
        let mut sm = l.sample.assume_init(root);
        // `finish` pads and puts the root offset in front; it may grow the chunk once more
        let hdr_len = self.hdr_len;
        let r = (|| -> Result<(Vec<u8>, usize, usize), Failure> {
            let p = sm.payload_bytes();
            let (ptr, full) = (p.as_ptr(), p.len());
            // where do the bytes built before assume_init() end? (recorded finding: not at the end of the slice)
            let built = l.copy.len();
            let ends_with_built = |len: usize| len >= built && mapped(ptr as usize, len) && (0..built).all(|k| unsafe { ptr.add(len - built + k).read_volatile() } == l.copy[k]);
            let excess = if ends_with_built(full) {
                0
            } else if full >= hdr_len && ends_with_built(full - hdr_len) {
                hdr_len
            } else {
                fail!("fb.loan_content_lost_while_growing", "{what}: the {full} bytes of the finished buffer do not end with the {built} bytes built before assume_init()");
            };
            let bytes = read_shm(ptr, full - excess, "fb.loan_unmapped", &what)?;
            check_bytes(&bytes, tag, n, "fb.finished_buffer_wrong", &what)?;
            match sm.payload_root() {
                Ok(r) => check_root(r, tag, n, "fb.finished_buffer_wrong", &what)?,
                Err(e) => fail!("fb.finished_buffer_wrong", "{what}: payload_root() of the SampleMut fails: {e:?}"),
            }
            let uh = *sm.user_header();
            ensure!(uh == Uh::default(), "fb.user_header_corrupted", "{what}: the user header written when the chunk was loaned reads {uh:x?} after {} growths", l.grew);
            Ok((bytes, ptr as usize + full - excess, excess))
        })();
        let (bytes, fin_end, excess) = match r {
            Ok(b) => b,
            // (while the finding is open `admit` has made sure that such a loan does not have to grow)
            Err(f) if stale_before && !self.known.is_open(SIG_DYN_GROW_OLD_SEGMENT) => return Err(Failure::new(SIG_DYN_GROW_OLD_SEGMENT, format!("{} [{}] (the chunk of the loan lived in an older segment)", f.message, f.signature))),
            Err(f) => return Err(f),
        };
        if fin_end != l.end {
            // grew inside assume_init(): every other loan is in an older segment now
            obs.class("loan_grew_in_assume_init");
            self.epoch += 1;
            self.est_reallocations += 2;
            self.seg_lb = self.seg_lb.max(bytes.len());
            self.seg_ub = self.seg_ub.max(if self.c.strategy == 1 { bytes.len() + self.inc_min + 48 } else { 4 * (bytes.len() + self.hdr_max + 1) + 2 * self.hdr_max });
            if self.held_count() > 0 {
                self.moved_with_held = true;
            }
            if stale_before && self.known.is_open(SIG_DYN_GROW_OLD_SEGMENT) {
                let j = self.case_json();
                self.known.observed(SIG_DYN_GROW_OLD_SEGMENT, format!("{what}: a loan whose chunk lives in an older segment grew in assume_init()"), || j)?;
                std::mem::forget(sm);
                return Err(Failure::new(END_OF_CASE, ""));
            }
        }
        if excess > 0 {
            ensure!(l.grew > 0 || fin_end != l.end, "port.payload_len", "{what}: payload_bytes() of a loan that never grew has {} bytes, the serialized data end after {} bytes", bytes.len() + excess, bytes.len());
            obs.class("payload_bytes_longer_than_the_serialized_data");
            let j = self.case_json();
            self.fbk.observed(
                SIG_FB_PAYLOAD_LEN,
                format!("{what}: payload_bytes() of the finished sample has {} bytes, the serialized data end after {} bytes (end of the builder's buffer, {} growths so far): the slice reaches {excess} bytes past the end of the chunk", bytes.len() + excess, bytes.len(), l.grew + (fin_end != l.end) as u32),
                || j,
            )?;
        }
        if !send {
            drop(sm);
            obs.class("finished_loan_dropped_unsent");
            return self.check_all(&format!("{what}: after the drop"));
        }
        sm.user_header_mut().tag = tag as u64;
        let connected = self.subs.len();
        match sm.send() {
            Ok(k) if k == connected => {}
            r => fail!("port.send", "{what}: send returned {r:?}, {connected} subscribers are connected"),
        }
        let pos = self.sent.len();
        self.sent.push(SentInfo { tag, n, bytes, excess, grew: l.grew });
        for s in &mut self.subs {
            s.queue.push_back((pos, true));
            while s.queue.len() > self.c.buffer as usize {
                s.queue.pop_front();
                obs.class("overflow_eviction");
            }
        }
        obs.class("sent");
        if l.grew > 0 {
            obs.class("sent_sample_that_grew");
        }
        self.check_all(&format!("{what}: after send"))
    }

    fn receive(&mut self, step: usize, sub: u8, release_at_once: bool, obs: &mut Obs) -> Result<bool, Failure> {
        let si = (sub as usize) % self.subs.len().max(1);
        if self.subs[si].held.len() >= self.c.max_borrow as usize {
            return Ok(false);
        }
        let what = format!("{}: receive on subscriber {si}", st(step));
        let ipc = self.c.ipc;
        let s = &mut self.subs[si];
        let sample = match s.port.receive() {
            Ok(Some(x)) => x,
            Ok(None) => {
                if let Some((pos, _)) = s.queue.iter().find(|(_, must)| *must) {
                    fail!("port.sample_lost", "{what}: returned nothing although sample {} (position {pos}) was sent and neither received nor evicted", self.sent[*pos].tag);
                }
                s.queue.clear();
                return Ok(false);
            }
            Err(e) => fail!("port.receive", "{what}: failed with {e:?}"),
        };
        let p = sample.payload_bytes();
        let (addr, full_len) = (p.as_ptr() as usize, p.len());
        // (the recorded finding makes the slice longer than the data; what follows the data is foreign memory)
        let excess = self.sent.iter().map(|x| x.excess).max().unwrap_or(0);
        ensure!(mapped(addr, full_len.saturating_sub(excess)), "port.held_sample_unmapped", "{what}: the received sample points to unmapped memory [{addr:#x}, +{full_len})");
        let root = match sample.payload_root() {
            Ok(r) => r,
            Err(e) => fail!("port.payload_corrupted", "{what}: payload_root() of the received sample fails: {e:?} ({full_len} bytes at {addr:#x})"),
        };
        let Some((tag, _)) = root.title().and_then(parse_title) else { fail!("port.payload_corrupted", "{what}: received a sample with the title {:?}", root.title()) };
        let Some(pos) = self.sent.iter().position(|x| x.tag == tag) else { fail!("port.payload_corrupted", "{what}: received a sample tagged {tag} which was never sent") };
        // delivery order
        ensure!(s.last.map(|l| pos > l).unwrap_or(true), "port.received_twice_or_reordered", "{what}: got the sample at send position {pos} after the one at position {:?}", s.last);
        loop {
            match s.queue.pop_front() {
                Some((q, _)) if q == pos => break,
                Some((q, must)) if q < pos => {
                    ensure!(!must, "port.sample_lost", "{what}: got the sample at send position {pos}, the one at position {q} was skipped without an overflow");
                }
                other => fail!("port.received_unexpected_sample", "{what}: got the sample at send position {pos} (tag {tag}); the model expects {other:?} next (buffer {}, history {}, connected after {} samples)", self.c.buffer, self.c.history, s.joined_at),
            }
        }
        s.last = Some(pos);
        let info = &self.sent[pos];
        ensure!(full_len == info.bytes.len() + info.excess, "port.payload_len", "{what}: sample {tag}: payload_bytes() has {full_len} bytes, on the publisher side it had {}", info.bytes.len() + info.excess);
        let len = info.bytes.len();
        let bytes = read_shm(addr as *const u8, len, "port.held_sample_unmapped", &what)?;
        if let Some(i) = first_diff(&bytes, &info.bytes) {
            fail!("port.payload_corrupted", "{what}: sample {tag}: byte {i} of {len} differs from what the publisher saw before send ({} bytes)", info.bytes.len());
        }
        check_root(root, tag, info.n, "port.payload_corrupted", &what)?;
        let uh = *sample.user_header();
        ensure!(uh == Uh { magic: MAGIC, tag: tag as u64 }, "fb.user_header_corrupted", "{what}: the user header of sample {tag} reads {uh:x?}");
        obs.class("received");
        if info.grew > 0 {
            obs.class("received_sample_that_grew");
        }
        if pos < s.joined_at {
            obs.class("late_joiner_got_history_sample");
            if info.grew > 0 {
                obs.class("late_joiner_got_history_sample_that_grew");
            }
        }
        let h = Held { pos, tag, addr, bytes, full_len, sample };
        // the same sample may be held by both subscribers; different ones never share memory
        for (oi, o) in self.subs.iter().enumerate() {
            for x in &o.held {
                if x.pos != pos && (oi == si || !ipc) {
                    ensure!(!overlap((x.addr, x.bytes.len()), (addr, len)), "alloc.overlap", "{what}: sample {tag} [{addr:#x}, +{len}) overlaps the sample {} [{:#x}, +{}) held by subscriber {oi}", x.tag, x.addr, x.bytes.len());
                }
            }
        }
        if !release_at_once {
            self.subs[si].held.push(h);
            if self.subs[si].held.len() == self.c.max_borrow as usize {
                obs.class("holding_max_borrow");
            }
        }
        Ok(true)
    }

    fn release(&mut self, step: usize, sub: u8, k: u16, obs: &mut Obs) -> Result<(), Failure> {
        let si = (sub as usize) % self.subs.len().max(1);
        if self.subs[si].held.is_empty() {
            return Ok(());
        }
        let i = idx(k, self.subs[si].held.len());
        let h = self.subs[si].held.remove(i);
        h.verify(&self.sent, &format!("{}: before release", st(step)))?;
        drop(h);
        obs.class("released");
        Ok(())
    }
}

/// "step" of the ops of the final phase
const END: usize = usize::MAX;

fn st(step: usize) -> String {
    if step == END { "end".to_string() } else { format!("step {step}") }
}

/// internal marker: the case was ended on purpose after a recorded finding showed
const END_OF_CASE: &str = "fb.end_of_case";

fn run<S: Service + 'static>(c: &FbCase, dom: &Domain, known: &Known, fbk: &FbKnown, obs: &mut Obs) -> Result<(), Failure> {
    let setup = |e: String| Failure::new("port.setup", e);
    let node = NodeBuilder::new().config(&dom.config).create::<S>().map_err(|e| setup(format!("node: {e:?}")))?;
    let name: ServiceName = "c15/fb".try_into().unwrap();
    let schema = FilePath::new(SCHEMA.as_bytes()).expect("valid path");
    let service = node
        .service_builder(&name)
        .publish_subscribe::<Fb>()
        .flatbuffer_schema_path(&schema)
        .user_header::<Uh>()
        .max_publishers(1)
        .max_subscribers(if c.second_sub { 2 } else { 1 })
        .history_size(c.history as usize)
        .subscriber_max_buffer_size(c.buffer as usize)
        .subscriber_max_borrowed_samples(c.max_borrow as usize)
        .enable_safe_overflow(true)
        .create()
        .map_err(|e| setup(format!("service: {e:?}")))?;
    let strategy = if c.strategy == 1 { AllocationStrategy::BestFit } else { AllocationStrategy::PowerOfTwo };
    let publisher = service
        .publisher_builder()
        .initial_reserved_memory(c.initial_reserved_memory as usize)
        .allocation_strategy(strategy)
        .max_loaned_samples(c.max_loans as usize)
        .create()
        .map_err(|e| setup(format!("publisher: {e:?}")))?;
    let subscriber = service.subscriber_builder().create().map_err(|e| setup(format!("subscriber: {e:?}")))?;
    obs.class(if c.strategy == 1 { "strategy_best_fit" } else { "strategy_power_of_two" });
    obs.class(match c.initial_reserved_memory {
        0..=48 => "initial_memory_tiny",
        49..=400 => "initial_memory_small",
        401..=2048 => "initial_memory_medium",
        _ => "initial_memory_large",
    });

    // headers in front of the payload: at least the sizes of both headers, at most 15 bytes of padding more
    let hdr = core::mem::size_of::<Header>() + core::mem::size_of::<Uh>();
    let mut r = Run::<S> {
        c,
        known,
        fbk,
        publisher,
        subs: vec![SubModel { port: subscriber, queue: VecDeque::new(), last: None, held: vec![], joined_at: 0 }],
        loans: vec![],
        sent: vec![],
        next_tag: 0,
        seg_lb: c.initial_reserved_memory as usize,
        seg_ub: c.initial_reserved_memory as usize + 16,
        epoch: 0,
        est_reallocations: 0,
        most_entries: 0,
        inc_min: 8 + hdr,
        hdr_max: hdr + 16,
        hdr_len: align_up(align_up(core::mem::size_of::<Header>(), core::mem::align_of::<Uh>()) + core::mem::size_of::<Uh>(), 8),
        moved_with_held: false,
        trace: std::env::var_os("C15_FB_TRACE").is_some(),
    };

    let result = std::panic::catch_unwind(std::panic::AssertUnwindSafe(|| -> Result<(), Failure> {
        for (step, op) in c.ops.iter().enumerate() {
            if r.trace {
                eprintln!("--- step {step}: {op:?} (loans {}, held {}, epoch {}, est {})", r.loans.len(), r.held_count(), r.epoch, r.est_reallocations);
            }
            match op {
                FOp::Begin => r.begin(step, obs)?,
                FOp::Append { loan, n, beyond } => r.append(step, *loan, *n, *beyond, obs)?,
                FOp::Finish { loan, send } => r.finish(step, *loan, *send, obs)?,
                FOp::DropLoan { loan } => {
                    if !r.loans.is_empty() {
                        let i = idx(*loan, r.loans.len());
                        drop(r.loans.remove(i));
                        obs.class("unfinished_loan_dropped");
                    }
                }
                FOp::Receive { sub } => {
                    r.receive(step, *sub, false, obs)?;
                }
                FOp::Release { sub, k } => r.release(step, *sub, *k, obs)?,
                FOp::JoinOrLeave => {
                    if c.second_sub {
                        if r.subs.len() == 1 {
                            let port = service.subscriber_builder().create().map_err(|e| Failure::new("port.subscriber_create_within_limits", format!("{}: second subscriber: {e:?}", st(step))))?;
                            r.publisher.update_connections().map_err(|e| Failure::new("port.update_connections", format!("{}: {e:?}", st(step))))?;
                            // the newest history samples may (not: must, that is C01) arrive first
                            let n = r.sent.len();
                            let h = (c.history as usize).min(n).min(c.buffer as usize);
                            r.subs.push(SubModel { port, queue: (n - h..n).map(|p| (p, false)).collect(), last: None, held: vec![], joined_at: n });
                            obs.class("second_subscriber_joined");
                            if r.sent[n - h..].iter().any(|x| x.grew > 0) {
                                obs.class("history_refers_to_sample_that_grew_at_join");
                            }
                        } else {
                            let s = r.subs.pop().unwrap();
                            for h in &s.held {
                                h.verify(&r.sent, &format!("{}: before the second subscriber leaves", st(step)))?;
                            }
                            drop(s);
                            r.publisher.update_connections().map_err(|e| Failure::new("port.update_connections", format!("{}: {e:?}", st(step))))?;
                            obs.class("second_subscriber_left");
                        }
                    }
                }
            }
            r.check_all(&format!("after step {step} {op:?}"))?;
            if r.held_count() > 0 && !r.loans.is_empty() {
                obs.class("loan_being_built_while_sample_held");
            }
        }

        // --- end: everything is given back, then the publisher must be as good as new
        r.loans.clear();
        r.check_all("end: after dropping the unfinished loans")?;
        for s in &mut r.subs {
            for h in s.held.drain(..) {
                h.verify(&r.sent, "end: before release")?;
            }
        }
        for si in 0..r.subs.len() {
            while r.receive(END, si as u8, true, obs)? {}
        }
        let mut probe = vec![];
        for k in 0..c.max_loans {
            match r.publisher.loan_flatbuffer() {
                Ok(s) => probe.push(s),
                Err(e) => fail!("port.loan_failed_after_release", "end: everything was released, loan {} of max_loaned_samples {} fails with {e:?}", k + 1, c.max_loans),
            }
        }
        match r.publisher.loan_flatbuffer() {
            Err(LoanError::ExceedsMaxLoans) => {}
            Err(e) => fail!("port.loan_wrong_error", "end: loan beyond max_loaned_samples {} fails with {e:?}", c.max_loans),
            Ok(_) => fail!("port.loan_beyond_max_loaned_samples", "end: loan beyond max_loaned_samples {} succeeds", c.max_loans),
        }
        drop(probe);
        if r.sent.len() < MAX_SENT + 1 {
            let before = r.sent.len();
            r.begin(END, obs)?;
            r.append(END, 0, 3, false, obs)?;
            r.finish(END, 0, true, obs)?;
            if r.sent.len() > before {
                ensure!(r.receive(END, 0, true, obs)?, "port.sample_lost", "end: the final sample was not delivered");
            }
            r.loans.clear();
        }
        if c.ipc {
            // Old segments go away when their last chunk is back (visible for posix shared memory
            // only). One more loan makes the publisher collect what the subscribers returned; then
            // only the current segment and the segments of the history samples are in use.
            drop(r.publisher.loan_flatbuffer());
            let prefix = format!("{}", dom.config.global.prefix);
            let segments: Vec<String> = vcore::util::shm_entries_containing(&prefix).into_iter().filter(|n| n.ends_with(".data") && !n.ends_with("__mgmt.data")).collect();
            let allowed = 1 + (c.history as usize).min(r.sent.len());
            ensure!(segments.len() <= allowed, "fb.data_segments_not_released", "end: everything is released, history {} with {} samples sent, but {} data segments of the publisher exist: {segments:?}", c.history, r.sent.len(), segments.len());
            if segments.len() == 1 && r.epoch > 0 {
                obs.class("all_old_segments_released_at_the_end");
            }
        }
        Ok(())
    }));
    if r.trace {
        let prefix = format!("{}", dom.config.global.prefix);
        eprintln!("shm entries before teardown: {:#?}", vcore::util::shm_entries_containing(&prefix));
    }
    // Tear down piece by piece: a defect that makes the op panic usually makes the drop of the
    // loan / sample panic again, and a panic while unwinding would take the worker down.
    let Run { publisher, subs, loans, .. } = r;
    let mut teardown_panic: Option<String> = None;
    let mut guarded_drop = |what: &str, f: Box<dyn FnOnce() + '_>| {
        if let Err(e) = std::panic::catch_unwind(std::panic::AssertUnwindSafe(f)) {
            teardown_panic.get_or_insert(format!("dropping {what}: {}", vcore::util::panic_message(&e)));
        }
    };
    for l in loans {
        guarded_drop("an unfinished loan", Box::new(move || drop(l)));
    }
    for s in subs {
        let SubModel { port, held, .. } = s;
        for h in held {
            guarded_drop("a held sample", Box::new(move || drop(h)));
        }
        guarded_drop("a subscriber", Box::new(move || drop(port)));
    }
    guarded_drop("the publisher", Box::new(move || drop(publisher)));
    match result {
        Err(panic) => std::panic::resume_unwind(panic),
        Ok(Err(f)) if f.signature == END_OF_CASE => {
            // the state was that of the recorded defect
            obs.class("ended_by_recorded_growth_in_older_segment");
            Ok(())
        }
        Ok(Err(f)) => Err(f),
        Ok(Ok(())) => match teardown_panic {
            Some(m) => Err(Failure::new("fb.panic_in_teardown", format!("all ops passed, then panic while {m}"))),
            None => Ok(()),
        },
    }
}

pub fn run_case(c: &FbCase, known: &Known, fbk: &FbKnown, obs: &mut Obs) -> Result<(), Failure> {
    let dom = Domain::new();
    obs.class(if c.ipc { "service_ipc" } else { "service_local" });
    let r = std::panic::catch_unwind(std::panic::AssertUnwindSafe(|| if c.ipc { run::<ipc::Service>(c, &dom, known, fbk, obs) } else { run::<local::Service>(c, &dom, known, fbk, obs) }));
    dom.cleanup();
    match r {
        Ok(r) => r,
        Err(e) => {
            let m = vcore::util::panic_message(&e);
            if m.contains("is_multiple_of(segment_details.sample_size") {
                obs.class("panic_in_connection_chunk_index");
                return fbk.observed(SIG_FB_SAMPLE_SIZE, format!("a chunk of a segment for which a grown sample was sent is evicted or reclaimed: {m}"), || serde_json::to_value(c).unwrap());
            }
            if m.contains("index out of bounds: the len is 255 but the index is 255") {
                obs.class("panic_at_segment_id_255");
                return known.observed(SIG_PORT_SEGMENT_255, format!("growth of a loan that needs the 255th reallocation: {m}"), || serde_json::to_value(c).unwrap());
            }
            if m.contains("This should never happen") {
                // a consistency check of iceoryx2 itself (fatal_panic!); the message starts with a dump of the object
                let at = m.find("This should never happen").unwrap_or(0);
                let from = m[..at].rfind(['}', ']', '|']).map(|i| i + 1).unwrap_or(at.saturating_sub(200));
                let reason: String = m[from..].chars().take(400).collect();
                return Err(Failure::new("port.fatal_panic_of_internal_consistency_check", format!("fatal_panic!: {}", reason.trim())));
            }
            std::panic::resume_unwind(e)
        }
    }
}
