//! C15 — shm allocators: disjoint, aligned, in-bounds memory; resizing keeps data.
//!
//! Parts: `alloc_histories` (allocators on raw memory and through shared memory against the
//! allocation-table model), `alloc_grid` (bounded-exhaustive bucket layouts x start offsets),
//! `dynamic` (resizable shared memory + view), `port_growth` (publisher data segment growth
//! with a subscriber holding samples), `port.fb.local` / `port.fb.ipc` (flatbuffer loans that grow
//! while they are being built, subscribers holding samples), `port_realloc_limit`.
extern crate iceoryx2_bb_loggers;

mod dynamic;
mod model;
mod port;
mod port_fb;
mod raw;

use model::Known;
use vcore::{Ctx, Spec};

const SPEC: Spec = Spec {
    prop: "C15",
    level: "exploration",
    rule: "alloc_histories: proptest cases (allocator kind out of 11: bb fixed pool <16>/<3>, bb pool, bb bump, one-chunk, cal pool/bump on raw memory, cal pool/bump through process-local and posix shared memory; bucket layout size 1..=257 x alignment 2^0..2^12 incl. sizes that are no multiple of the alignment; first managed byte 0..=63 bytes after a 4096-aligned address; segment size 0..8 buckets + padding; up to 48 (thorough 96) ops Allocate|AllocateZeroed|Deallocate|Grow(front/back, zeroed)|Shrink|Exhaust with request size 0..=bucket+1 and alignment 1..=4096) against an allocation table: every returned block inside the segment, aligned, disjoint from all live blocks, canaries of all live blocks checked after every op, guard bytes around the segment, documented error for every refusal, success whenever the model has room, grow/shrink keep the content, allocate-to-exhaustion count before = after. alloc_grid: every bucket size 1..=33 x alignment 2^0..2^6 x start offset 0..=7 x 3 pool allocators x 2 tail shapes, allocate all / free all / allocate all. dynamic: resizable memory (process-local and posix) with Static/BestFit/PowerOfTwo, hinted layouts incl. non-multiples, ops Allocate|Deallocate|Grow|view Register|view Unregister; table addressed by (segment id, offset), data read back through the view's own mapping, exact model of the active segments of creator and view after every op. port_growth: local and ipc publish-subscribe of [u8] with payload alignment 2^0..2^6, BestFit/PowerOfTwo, initial_max_slice_len 1..=4, buffer 1..=4, max borrow 1..=4, max_subscribers 1 (so that all preallocated chunks are needed), sends of growing length, receive, release; every held sample verified after every op. port.fb.local / port.fb.ipc: publish-subscribe of Flatbuffer<UnboundedData> (example schema) with a 16 byte user header, BestFit/PowerOfTwo, initial_reserved_memory 1..=16384 (4 size classes), max_loaned_samples 1..=3, buffer 1..=4, max borrow 1..=4, history 0..=2, safe overflow, optional second subscriber that joins and leaves; ops Begin (loan_flatbuffer) | Append(loan, n entries, optionally beyond the largest loan so far) | Finish(loan, send or drop) | DropLoan | Receive(sub) | Release(sub, k) | JoinOrLeave; after every op every held sample (slice address and length, bytes against the copy taken at receive time, decoded title and entries, user header) and the used part of every unfinished loan are re-verified, loans and held samples must be pairwise disjoint, what a loan contained is the tail of what it contains after growing, received bytes = bytes the publisher saw before send, delivery against a FIFO model with overflow, loans within the limits never fail, at the end max_loaned_samples loans succeed again, one more sample is delivered and (ipc) at most 1 + min(history, sent) data segments of the publisher exist. port_realloc_limit: 300 strictly growing loans. non-trivial = (bucket size not a multiple of the alignment or misaligned start) and >= 2 blocks live at once; dynamic: a chunk registered by the view was held across a segment growth; port: a sample was held by the subscriber across a certain reallocation; port.fb: the buffer of a loan moved (Sender::grow) while a subscriber held an earlier sample and the publisher loaned again afterwards; distinct = hash of the whole case",
    assumptions: &[
        "the unsafe contracts are respected by construction: blocks are released / resized exactly once with the layout they currently have; the view unregisters before the creator deallocates; bump allocators forget everything on release",
        "segment bounds of shared-memory backed allocators are known only up to the alignment padding (payload_start_address .. +size); the raw-memory variants check exact bounds and guard bytes",
        "process-local shared memory lives on the heap: bucket counts of its cases depend on heap addresses, so a replay of such a case can see one bucket more or less",
        "inputs that trigger an open known finding whose effect would destroy the case (pool memory shorter than its alignment padding inside shared memory, growing a chunk of an older segment) are left out and counted under excluded_by_known_finding",
        "port.fb: the capacity of a chunk is not observable through the API; the generator keeps lower/upper bounds of it (a fresh loan is at least as large as the largest loan so far) to leave out, while the findings are open, growth of a loan whose chunk lives in an older segment (dynamic.grow_of_chunk_in_old_segment_returns_foreign_memory), the send of a loan before the unsent grown loan that created its segment (fb.grown_sample_sent_with_wrong_chunk_size_breaks_connection_chunk_index) and more than ~180 estimated reallocations per publisher (documented limit 256, recorded panic at 255); bytes behind the serialized data that payload_bytes() returns because of fb.payload_bytes_of_grown_sample_reach_past_chunk_by_header_length are not compared",
        "port.fb: the second subscriber's history samples are optional in the delivery model (their exact number is C01's subject); it releases its samples before it is dropped",
        "memory errors that leave no trace in returned values (reads of unmapped memory) would show as a dying worker, not as an oracle message; the ASan/libFuzzer stage of DESIGN C15 is not part of this binary",
    ],
    watchdog_quick_s: 1800,
    watchdog_thorough_s: 14400,
};

fn body(ctx: &mut Ctx) {
    iceoryx2_log::set_log_level(iceoryx2_log::LogLevel::Fatal);
    let known = Known::new(ctx);

    let n = ctx.scale(40_000, 1_000_000);
    ctx.proptest("alloc_histories", n, raw::case_strategy(ctx.scale(48, 96)), |c, obs| raw::run_case(c, &known, obs));
    known.flush(ctx, "alloc_histories");

    ctx.enumerate(
        "alloc_grid",
        "bucket size 1..=33 x bucket alignment 2^0..2^6 x start offset 0..=7 x {bb fixed pool, bb pool, cal pool} x {5 buckets exactly, +stride-1 bytes}: allocate all, free all, allocate all",
        raw::grid_cases().into_iter(),
        |g, obs| raw::run_grid_case(g, &known, obs),
    );
    known.flush(ctx, "alloc_grid");

    let n = ctx.scale(6_000, 180_000);
    let restrict = known.is_open(model::SIG_DYN_LOST_BUCKET) || known.is_open(model::SIG_HINT_NONMULT);
    ctx.proptest("dynamic", n, dynamic::case_strategy(ctx.scale(40, 80), restrict), |c, obs| dynamic::run_case(c, &known, obs));
    known.flush(ctx, "dynamic");

    let n = ctx.scale(1_000, 30_000);
    ctx.proptest("port_growth", n, port::case_strategy(ctx.scale(32, 64)), |c, obs| port::run_case(c, &known, obs));
    known.flush(ctx, "port_growth");

    // loans that grow while they are being built (Flatbuffer payloads), subscribers holding samples
    let fbk = port_fb::FbKnown::new(ctx);
    for (part, ipc, n) in [("port.fb.local", false, ctx.scale(6_000u64, 72_000)), ("port.fb.ipc", true, ctx.scale(2_000, 24_000))] {
        ctx.proptest(part, n, port_fb::case_strategy(ipc, ctx.scale(40, 64)), |c, obs| port_fb::run_case(c, &known, &fbk, obs));
        known.flush(ctx, part);
        fbk.flush(ctx, part);
    }

    let limit_cases: Vec<port::LimitCase> = [false, true].into_iter().flat_map(|ipc| [1u16, 16].into_iter().map(move |step| port::LimitCase { ipc, step })).collect();
    ctx.enumerate("port_realloc_limit", "{local, ipc} x growth step {1, 16}: 300 strictly growing loans with BestFit", limit_cases.into_iter(), |c, obs| port::run_limit_case(c, &known, obs));
    known.flush(ctx, "port_realloc_limit");

    for n in vcore::util::shm_entries_containing(&raw::shm_prefix()) {
        let _ = std::fs::remove_file(format!("/dev/shm/{n}"));
    }
}

fn main() {
    vcore::main(SPEC, body);
}
