//! Allocation-table model shared by all parts: canaries, bounds / alignment / disjointness
//! checks and the sink for observations of open known findings.

use std::cell::RefCell;
use std::collections::BTreeMap;
use vcore::{Ctx, Failure};

/// bb pool allocator: bucket count from the aligned bucket size, addresses from the unaligned one
pub const SIG_POOL_MISALIGNED: &str = "bb_pool.misaligned_bucket_when_size_not_multiple_of_align";
/// bb pool allocator: `ptr + size - aligned_start` underflows when the memory is smaller than the alignment padding
pub const SIG_POOL_UNDERFLOW: &str = "bb_pool.memory_smaller_than_alignment_padding_underflow";
/// bb FixedSizePoolAllocator: management memory lacks the slot for index MAX
pub const SIG_FIXED_POOL_CAP: &str = "bb_fixed_pool.panics_when_memory_holds_max_number_of_buckets";
/// one chunk allocator: `size - padding` underflows when the memory is smaller than the alignment padding
pub const SIG_ONE_CHUNK_UNDERFLOW: &str = "one_chunk.memory_smaller_than_alignment_padding_underflow";
/// dynamic resizable memory: growing a chunk that lives in an older segment
pub const SIG_DYN_GROW_OLD_SEGMENT: &str = "dynamic.grow_of_chunk_in_old_segment_returns_foreign_memory";
/// dynamic resizable memory: bucket alignment padding is not part of the segment size
pub const SIG_DYN_LOST_BUCKET: &str = "dynamic.segment_without_alignment_slack_loses_bucket";

/// cal pool allocator: setup hints multiply the unrounded bucket size
pub const SIG_HINT_NONMULT: &str = "cal_pool.setup_hint_too_small_when_size_not_multiple_of_align";

/// ports: segment id 255 indexes a 255-element table
pub const SIG_PORT_SEGMENT_255: &str = "port.panic_at_reallocation_255_segment_state_index_out_of_bounds";

pub const GUARD: u8 = 0xA5;

/// non-zero pattern byte (zero is reserved for the `*_zeroed` checks)
pub fn canary(seed: u32, i: usize) -> u8 {
    let x = (seed as u64 + 1).wrapping_mul(0x9E37_79B9_7F4A_7C15).wrapping_add((i as u64).wrapping_mul(0xBF58_476D_1CE4_E5B9));
    let b = ((x >> 29) ^ (x >> 47)) as u8;
    if b == 0 { 0x5C } else { b }
}

/// # Safety
/// `[addr, addr+size)` must be writable memory
pub unsafe fn write_canary(addr: usize, size: usize, seed: u32) {
    for i in 0..size {
        unsafe { (addr as *mut u8).add(i).write_volatile(canary(seed, i)) };
    }
}

/// first index at which `[addr, addr+size)` differs from the pattern (pattern index shifted by `skip`)
///
/// # Safety
/// `[addr, addr+size)` must be readable memory
pub unsafe fn verify_pattern(addr: usize, size: usize, seed: u32, skip: usize) -> Option<usize> {
    for i in 0..size {
        if unsafe { (addr as *const u8).add(i).read_volatile() } != canary(seed, i + skip) {
            return Some(i);
        }
    }
    None
}

/// # Safety
/// `[addr, addr+size)` must be readable memory
pub unsafe fn first_nonzero(addr: usize, size: usize) -> Option<usize> {
    (0..size).find(|i| unsafe { (addr as *const u8).add(*i).read_volatile() } != 0)
}

/// Is every page of `[addr, addr+len)` mapped? (asked before reading memory that a defective
/// implementation may have unmapped, so that the finding is an oracle message and not a dead worker)
pub fn mapped(addr: usize, len: usize) -> bool {
    if len == 0 {
        return true;
    }
    let page = 4096usize;
    let first = addr & !(page - 1);
    let span = (addr + len).div_ceil(page) * page - first;
    let mut vec = vec![0u8; span / page];
    let r = unsafe { libc::mincore(first as *mut libc::c_void, span, vec.as_mut_ptr()) };
    r == 0
}

pub fn align_up(v: usize, a: usize) -> usize {
    v.div_ceil(a) * a
}

/// Counts observations of *open* known findings made inside proptest closures (which cannot
/// reach the `Ctx`); flushed into the `Ctx` after the part ran.
#[derive(Default)]
pub struct Known {
    open: Vec<&'static str>,
    hits: RefCell<BTreeMap<&'static str, (u64, String, serde_json::Value)>>,
    excluded: RefCell<BTreeMap<&'static str, u64>>,
}

impl Known {
    pub fn new(ctx: &Ctx) -> Known {
        let all = [SIG_POOL_MISALIGNED, SIG_POOL_UNDERFLOW, SIG_FIXED_POOL_CAP, SIG_ONE_CHUNK_UNDERFLOW, SIG_DYN_GROW_OLD_SEGMENT, SIG_DYN_LOST_BUCKET, SIG_HINT_NONMULT, SIG_PORT_SEGMENT_255];
        Known { open: all.into_iter().filter(|s| ctx.is_open_finding(s)).collect(), hits: RefCell::default(), excluded: RefCell::default() }
    }

    pub fn is_open(&self, sig: &str) -> bool {
        self.open.iter().any(|s| *s == sig)
    }

    /// The defect with signature `sig` showed. Open finding: counted, the case goes on.
    /// Otherwise: the case fails with that signature.
    pub fn observed(&self, sig: &'static str, msg: String, case: impl FnOnce() -> serde_json::Value) -> Result<(), Failure> {
        if self.is_open(sig) {
            let mut h = self.hits.borrow_mut();
            let e = h.entry(sig).or_insert_with(|| (0, msg, case()));
            e.0 += 1;
            Ok(())
        } else {
            Err(Failure::new(sig, msg))
        }
    }

    /// an input was left out by the generator because of the open finding `sig`
    pub fn excluded(&self, sig: &'static str) {
        *self.excluded.borrow_mut().entry(sig).or_default() += 1;
    }

    pub fn flush(&self, ctx: &mut Ctx, part: &str) {
        for (sig, n) in std::mem::take(&mut *self.excluded.borrow_mut()) {
            for _ in 0..n {
                ctx.count_excluded(sig);
            }
        }
        let hits = std::mem::take(&mut *self.hits.borrow_mut());
        for (sig, (n, msg, case)) in hits {
            let f = Failure::new(sig, msg);
            for _ in 0..n {
                ctx.violation(part, &f, case.clone());
            }
        }
    }
}

/// one live allocation of the table model
#[derive(Clone, Debug)]
pub struct Span {
    pub addr: usize,
    pub size: usize,
}

/// bounds + disjointness of a fresh allocation against the table (alignment is checked by the
/// caller, which knows whether a misalignment is the recorded pool allocator finding)
pub fn check_placement(
    what: &str,
    addr: usize,
    size: usize,
    seg: (usize, usize),
    live: impl Iterator<Item = Span>,
) -> Result<(), Failure> {
    if addr < seg.0 || addr.checked_add(size).map(|e| e > seg.1).unwrap_or(true) {
        return Err(Failure::new(
            "alloc.out_of_bounds",
            format!("{what}: [{:#x}, {:#x}) is not inside the segment [{:#x}, {:#x}) (start+{}, len {})", addr, addr.wrapping_add(size), seg.0, seg.1, addr as isize - seg.0 as isize, size),
        ));
    }
    for s in live {
        // zero-sized allocations overlap nothing
        if size > 0 && s.size > 0 && addr < s.addr + s.size && s.addr < addr + size {
            return Err(Failure::new(
                "alloc.overlap",
                format!("{what}: [{:#x}, +{}) overlaps the live allocation [{:#x}, +{})", addr, size, s.addr, s.size),
            ));
        }
    }
    Ok(())
}

pub fn misaligned(what: &str, addr: usize, align: usize) -> Failure {
    Failure::new("alloc.misaligned", format!("{what}: address {:#x} is not aligned to {}", addr, align))
}
