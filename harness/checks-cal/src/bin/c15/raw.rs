//! Part (1): the allocators themselves — bb pool (fixed-size and relocatable), bb bump,
//! one-chunk; cal pool / bump on caller-chosen raw memory and through process-local and
//! posix shared memory — against the allocation-table model. Plus the exhaustive grid.

use crate::model::*;
use core::alloc::Layout;
use core::ptr::NonNull;
use iceoryx2_bb_container::semantic_string::SemanticString;
use iceoryx2_bb_elementary_traits::allocator::*;
use iceoryx2_bb_memory::bump_allocator::BumpAllocator as BbBump;
use iceoryx2_bb_memory::one_chunk_allocator::OneChunkAllocator;
use iceoryx2_bb_memory::pool_allocator::{FixedSizePoolAllocator, PoolAllocator as BbPool};
use iceoryx2_bb_system_types::file_name::FileName;
use iceoryx2_bb_system_types::path::Path;
use iceoryx2_cal::named_concept::*;
use iceoryx2_cal::shared_memory::{SharedMemory, SharedMemoryBuilder, SharedMemoryCreateError, ShmPointer};
use iceoryx2_cal::shm_allocator::bump_allocator as cal_bump;
use iceoryx2_cal::shm_allocator::pool_allocator as cal_pool;
use iceoryx2_cal::shm_allocator::{PointerOffset, ShmAllocator};
use proptest::prelude::*;
use serde::{Deserialize, Serialize};
use std::sync::atomic::{AtomicU64, Ordering};
use vcore::util::idx;
use vcore::{Failure, Obs, ensure, fail};

pub const KINDS: usize = 11;
pub const KIND_NAMES: [&str; KINDS] = [
    "kind_bb_fixed_pool16",
    "kind_bb_fixed_pool3",
    "kind_bb_pool",
    "kind_bb_bump",
    "kind_one_chunk",
    "kind_cal_pool_raw",
    "kind_cal_bump_raw",
    "kind_cal_pool_process_local",
    "kind_cal_pool_posix",
    "kind_cal_bump_process_local",
    "kind_cal_bump_posix",
];

#[derive(Clone, Debug, Serialize, Deserialize)]
pub enum Op {
    Alloc { size: u16, align: u8, zeroed: bool },
    Dealloc(u16),
    Grow { which: u16, size: u16, align: u8, back: bool, zeroed: bool },
    Shrink { which: u16, size: u16, align: u8 },
    /// allocate one-byte chunks until the allocator refuses, compare with the model, free them
    Exhaust,
}

#[derive(Clone, Debug, Serialize, Deserialize)]
pub struct RawCase {
    pub kind: u8,
    pub bucket_size: u16,
    pub bucket_align_log2: u8,
    /// misalignment of the first managed byte relative to a 4096-aligned address
    pub start_off: u8,
    /// selects the segment size between 0 and 8 buckets (+ alignment slack)
    pub seg_sel: u16,
    pub ops: Vec<Op>,
}

pub fn op_strategy() -> impl Strategy<Value = Op> {
    prop_oneof![
        6 => (any::<u16>(), any::<u8>(), any::<bool>()).prop_map(|(size, align, zeroed)| Op::Alloc { size, align, zeroed }),
        3 => any::<u16>().prop_map(Op::Dealloc),
        3 => (any::<u16>(), any::<u16>(), any::<u8>(), any::<bool>(), any::<bool>())
            .prop_map(|(which, size, align, back, zeroed)| Op::Grow { which, size, align, back, zeroed }),
        2 => (any::<u16>(), any::<u16>(), any::<u8>()).prop_map(|(which, size, align)| Op::Shrink { which, size, align }),
        1 => Just(Op::Exhaust),
    ]
}

pub fn case_strategy(max_ops: usize) -> impl Strategy<Value = RawCase> {
    // raw-memory kinds are cheap and get most of the cases; each shm kind creates an object
    let kind = prop_oneof![
        5 => Just(0u8), 2 => Just(1u8), 5 => Just(2u8), 3 => Just(3u8), 2 => Just(4u8), 6 => Just(5u8), 3 => Just(6u8),
        1 => Just(7u8), 1 => Just(8u8), 1 => Just(9u8), 1 => Just(10u8),
    ];
    let bsize = prop_oneof![2 => 1u16..=33, 2 => 1u16..=257];
    let balign = prop_oneof![3 => 0u8..=6, 1 => 0u8..=12];
    (kind, bsize, balign, 0u8..=63, any::<u16>(), proptest::collection::vec(op_strategy(), 0..max_ops)).prop_map(
        |(kind, bucket_size, bucket_align_log2, start_off, seg_sel, ops)| RawCase { kind, bucket_size, bucket_align_log2, start_off, seg_sel, ops },
    )
}

// ------------------------------------------------------------------------------------------
// the allocators behind one interface
// ------------------------------------------------------------------------------------------

#[derive(Clone, Copy)]
pub enum Tok {
    Ptr(NonNull<u8>),
    Off(PointerOffset),
    Shm(ShmPointer),
}

pub trait RawAlloc {
    fn addr(&self, t: &Tok) -> usize;
    fn allocate(&self, l: Layout, zeroed: bool) -> Result<Tok, AllocationError>;
    fn has_zeroed(&self) -> bool {
        false
    }
    /// # Safety
    /// the contract of `Deallocate::deallocate` (bump allocators: releases everything)
    unsafe fn deallocate(&self, t: Tok, l: Layout);
    /// # Safety
    /// the contract of `Grow::grow`
    unsafe fn grow(&self, _t: Tok, _old: Layout, _new: Layout, _p: ContentPlacement, _zeroed: bool) -> Option<Result<Tok, AllocationGrowError>> {
        None
    }
    /// # Safety
    /// the contract of `Shrink::shrink`
    unsafe fn shrink(&self, _t: Tok, _old: Layout, _new: Layout) -> Option<Result<Tok, AllocationShrinkError>> {
        None
    }
    fn buckets(&self) -> Option<usize> {
        None
    }
}

fn ptr_of(t: Tok) -> NonNull<u8> {
    match t {
        Tok::Ptr(p) => p,
        _ => unreachable!("token of another allocator"),
    }
}

/// an allocator with the complete bb interface
struct Full<'a, A>(&'a A, Option<usize>);

impl<A> RawAlloc for Full<'_, A>
where
    A: Allocate<NonNull<u8>> + Deallocate<NonNull<u8>> + Grow<NonNull<u8>> + Shrink<NonNull<u8>> + AllocateZeroed<NonNull<u8>>,
{
    fn addr(&self, t: &Tok) -> usize {
        ptr_of(*t).as_ptr() as usize
    }
    fn allocate(&self, l: Layout, zeroed: bool) -> Result<Tok, AllocationError> {
        if zeroed { self.0.allocate_zeroed(l) } else { self.0.allocate(l) }.map(Tok::Ptr)
    }
    fn has_zeroed(&self) -> bool {
        true
    }
    unsafe fn deallocate(&self, t: Tok, l: Layout) {
        unsafe { self.0.deallocate(ptr_of(t), l) }
    }
    unsafe fn grow(&self, t: Tok, old: Layout, new: Layout, p: ContentPlacement, zeroed: bool) -> Option<Result<Tok, AllocationGrowError>> {
        Some(unsafe { if zeroed { self.0.grow_zeroed(ptr_of(t), old, new, p) } else { self.0.grow(ptr_of(t), old, new, p) } }.map(Tok::Ptr))
    }
    unsafe fn shrink(&self, t: Tok, old: Layout, new: Layout) -> Option<Result<Tok, AllocationShrinkError>> {
        Some(unsafe { self.0.shrink(ptr_of(t), old, new) }.map(Tok::Ptr))
    }
    fn buckets(&self) -> Option<usize> {
        self.1
    }
}

struct BumpOnly<'a>(&'a BbBump);

impl RawAlloc for BumpOnly<'_> {
    fn addr(&self, t: &Tok) -> usize {
        ptr_of(*t).as_ptr() as usize
    }
    fn allocate(&self, l: Layout, _zeroed: bool) -> Result<Tok, AllocationError> {
        self.0.allocate(l).map(Tok::Ptr)
    }
    unsafe fn deallocate(&self, _t: Tok, _l: Layout) {
        // "deallocate all allocated chunks": the model forgets every live allocation
        unsafe { self.0.reset() }
    }
}

/// a cal `ShmAllocator` placed on caller-chosen memory
struct CalRaw<'a, A: ShmAllocator> {
    a: &'a A,
    base: usize,
    buckets: Option<usize>,
}

fn off_of(t: Tok) -> PointerOffset {
    match t {
        Tok::Off(o) => o,
        _ => unreachable!("token of another allocator"),
    }
}

impl<A: ShmAllocator> RawAlloc for CalRaw<'_, A> {
    fn addr(&self, t: &Tok) -> usize {
        self.base + self.a.relative_start_address() + off_of(*t).offset()
    }
    fn allocate(&self, l: Layout, _zeroed: bool) -> Result<Tok, AllocationError> {
        unsafe { self.a.assume_init() }.allocate(l).map(Tok::Off)
    }
    unsafe fn deallocate(&self, t: Tok, l: Layout) {
        unsafe { self.a.assume_init().deallocate(off_of(t), l) }
    }
    unsafe fn grow(&self, t: Tok, old: Layout, new: Layout, p: ContentPlacement, _zeroed: bool) -> Option<Result<Tok, AllocationGrowError>> {
        Some(unsafe { self.a.assume_init().grow(off_of(t), old, new, p) }.map(Tok::Off))
    }
    fn buckets(&self) -> Option<usize> {
        self.buckets
    }
}

struct ShmSut<'a, A: ShmAllocator, S: SharedMemory<A>>(&'a S, core::marker::PhantomData<A>);

fn shm_of(t: Tok) -> ShmPointer {
    match t {
        Tok::Shm(o) => o,
        _ => unreachable!("token of another allocator"),
    }
}

impl<A: ShmAllocator, S: SharedMemory<A>> RawAlloc for ShmSut<'_, A, S> {
    fn addr(&self, t: &Tok) -> usize {
        shm_of(*t).data_ptr as usize
    }
    fn allocate(&self, l: Layout, _zeroed: bool) -> Result<Tok, AllocationError> {
        self.0.allocate(l).map(Tok::Shm)
    }
    unsafe fn deallocate(&self, t: Tok, l: Layout) {
        unsafe { self.0.deallocate(shm_of(t), l) }
    }
    unsafe fn grow(&self, t: Tok, old: Layout, new: Layout, p: ContentPlacement, _zeroed: bool) -> Option<Result<Tok, AllocationGrowError>> {
        Some(unsafe { self.0.grow(shm_of(t), old, new, p) }.map(Tok::Shm))
    }
}

// ------------------------------------------------------------------------------------------
// model
// ------------------------------------------------------------------------------------------

#[derive(Clone, Copy, Debug, PartialEq)]
pub enum Family {
    /// `first_bucket` = address of bucket 0 (the aligned start)
    Pool { bsize: usize, balign: usize, first_bucket: usize, cal: bool },
    BumpBb,
    BumpCal,
    OneChunk,
}

pub struct Geometry {
    /// every allocation must lie in here
    pub seg: (usize, usize),
    /// first managed byte and number of managed bytes (bump / one-chunk models)
    pub start: usize,
    pub total: usize,
}

struct Entry {
    tok: Tok,
    addr: usize,
    size: usize,
    align: usize,
    seed: u32,
}

struct Interp<'a> {
    sut: &'a dyn RawAlloc,
    fam: Family,
    geo: Geometry,
    known: &'a Known,
    case_json: &'a dyn Fn() -> serde_json::Value,
    live: Vec<Entry>,
    /// bump: end offset of the youngest allocation
    high_water: usize,
    /// one chunk: usable bytes of the live chunk
    one_cap: usize,
    next_seed: u32,
    max_live: usize,
    /// pool: number of buckets (measured by the initial exhaustion)
    nb: usize,
    awkward_request_misaligned_start: bool,
}

fn layout(size: usize, align: usize) -> Layout {
    Layout::from_size_align(size, align).expect("generated layouts are valid")
}

impl Interp<'_> {
    fn spans(&self, except: Option<usize>) -> impl Iterator<Item = Span> + '_ {
        self.live.iter().enumerate().filter(move |(i, _)| Some(*i) != except).map(|(_, e)| Span { addr: e.addr, size: e.size })
    }

    /// validates a pointer the allocator handed out for (size, align)
    fn validate(&mut self, what: &str, tok: &Tok, size: usize, align: usize, except: Option<usize>) -> Result<usize, Failure> {
        let addr = self.sut.addr(tok);
        check_placement(what, addr, size, self.geo.seg, self.spans(except))?;
        if addr % align != 0 {
            let known_shape = match self.fam {
                Family::Pool { bsize, balign, first_bucket, .. } => {
                    bsize % balign != 0 && align <= balign && first_bucket % balign == 0 && addr >= first_bucket && (addr - first_bucket) % bsize == 0
                }
                _ => false,
            };
            if known_shape {
                self.known.observed(
                    SIG_POOL_MISALIGNED,
                    format!("{what}: the bucket at segment start+{} is not aligned to {align}; {:?}", addr - self.geo.start, self.fam),
                    self.case_json,
                )?;
            } else {
                return Err(misaligned(what, addr, align));
            }
        }
        if self.geo.start % align != 0 && align > 1 {
            self.awkward_request_misaligned_start = true;
        }
        Ok(addr)
    }

    fn seed(&mut self) -> u32 {
        self.next_seed += 1;
        self.next_seed
    }

    fn push_live(&mut self, tok: Tok, addr: usize, size: usize, align: usize) {
        let seed = self.seed();
        unsafe { write_canary(addr, size, seed) };
        self.high_water = self.high_water.max(addr.saturating_sub(self.geo.start) + size);
        self.live.push(Entry { tok, addr, size, align, seed });
        self.max_live = self.max_live.max(self.live.len());
    }

    fn check_canaries(&self, step: &str) -> Result<(), Failure> {
        for e in &self.live {
            if let Some(i) = unsafe { verify_pattern(e.addr, e.size, e.seed, 0) } {
                fail!("alloc.canary_damaged", "{step}: byte {i} of the live allocation [{:#x}, +{}) changed", e.addr, e.size);
            }
        }
        Ok(())
    }

    fn bump_fits(&self, size: usize, align: usize) -> bool {
        align_up(self.geo.start + self.high_water, align) + size <= self.geo.start + self.geo.total
    }

    /// (must_succeed, errors an `Err` may carry)
    fn expect_alloc(&self, size: usize, align: usize) -> (bool, Vec<AllocationError>) {
        let mut allowed = vec![];
        match self.fam {
            Family::Pool { bsize, balign, .. } => {
                if size > bsize {
                    allowed.push(AllocationError::SizeTooLarge);
                }
                if align > balign {
                    allowed.push(AllocationError::AlignmentFailure);
                }
                if self.live.len() >= self.nb {
                    allowed.push(AllocationError::OutOfMemory);
                }
                (allowed.is_empty(), allowed)
            }
            Family::BumpBb | Family::BumpCal => {
                if size == 0 {
                    allowed.push(AllocationError::SizeIsZero);
                }
                if self.fam == Family::BumpCal && align > 8 {
                    allowed.push(AllocationError::AlignmentFailure);
                }
                if !allowed.is_empty() {
                    return (false, allowed);
                }
                (self.bump_fits(size, align), vec![AllocationError::OutOfMemory])
            }
            Family::OneChunk => {
                let pad = align_up(self.geo.start, align) - self.geo.start;
                // a request of exactly the remaining size is refused by the implementation; the
                // documentation promises nothing about it, both outcomes are accepted
                (self.live.is_empty() && pad + size < self.geo.total, vec![AllocationError::OutOfMemory])
            }
        }
    }

    fn must_fail_alloc(&self, size: usize, align: usize) -> bool {
        match self.fam {
            Family::Pool { bsize, balign, .. } => size > bsize || align > balign || self.live.len() >= self.nb,
            Family::BumpBb => size == 0,
            Family::BumpCal => size == 0 || align > 8,
            Family::OneChunk => !self.live.is_empty(),
        }
    }

    fn alloc(&mut self, step: usize, size: usize, align: usize, zeroed: bool, obs: &mut Obs) -> Result<(), Failure> {
        let zeroed = zeroed && self.sut.has_zeroed();
        let (must_succeed, allowed) = self.expect_alloc(size, align);
        let must_fail = self.must_fail_alloc(size, align);
        let what = if step == usize::MAX { "exhaustion: allocate(1, 1)".to_string() } else { format!("step {step}: allocate{}({size}, {align})", if zeroed { "_zeroed" } else { "" }) };
        let one_chunk_underflow =
            self.fam == Family::OneChunk && self.live.is_empty() && align_up(self.geo.start, align) - self.geo.start > self.geo.total;
        let r = match std::panic::catch_unwind(std::panic::AssertUnwindSafe(|| self.sut.allocate(layout(size, align), zeroed))) {
            Ok(r) => r,
            Err(e) => {
                let m = vcore::util::panic_message(&e);
                if one_chunk_underflow && m.contains("subtract with overflow") {
                    obs.class("one_chunk_padding_exceeds_memory");
                    return self.known.observed(SIG_ONE_CHUNK_UNDERFLOW, format!("{what} on {} bytes of memory: {m}", self.geo.total), self.case_json);
                }
                std::panic::resume_unwind(e)
            }
        };
        match r {
            Ok(tok) => {
                ensure!(!must_fail, "alloc.memory_for_unsatisfiable_request", "{what} returned memory although the request is unsatisfiable ({:?}, {} live)", self.fam, self.live.len());
                let addr = self.validate(&what, &tok, size, align, None)?;
                if zeroed {
                    if let Some(i) = unsafe { first_nonzero(addr, size) } {
                        fail!("alloc.zeroed_not_zero", "{what}: byte {i} is not zero");
                    }
                    obs.class("allocate_zeroed");
                }
                if self.fam == Family::OneChunk {
                    self.one_cap = self.geo.total - (addr - self.geo.start);
                }
                if size == 0 {
                    obs.class("zero_size_allocation");
                }
                self.push_live(tok, addr, size, align);
            }
            Err(e) => {
                ensure!(!must_succeed, "alloc.refused_satisfiable_request", "{what} failed with {e:?} although the model has room ({:?}, {} live of {})", self.fam, self.live.len(), self.nb);
                ensure!(allowed.contains(&e), "alloc.wrong_error", "{what} failed with {e:?}, documented for this situation: {allowed:?}");
                obs.class(match e {
                    AllocationError::SizeTooLarge => "err_size_too_large",
                    AllocationError::AlignmentFailure => "err_alignment_failure",
                    AllocationError::OutOfMemory => "err_out_of_memory",
                    AllocationError::SizeIsZero => "err_size_is_zero",
                    AllocationError::InternalError => "err_internal",
                });
            }
        }
        Ok(())
    }

    fn forget_all(&mut self) {
        self.live.clear();
        self.high_water = 0;
    }

    fn dealloc(&mut self, i: usize) {
        let e = self.live.remove(i);
        unsafe { self.sut.deallocate(e.tok, layout(e.size, e.align)) };
        if matches!(self.fam, Family::BumpBb | Family::BumpCal) {
            // releases everything (documented); nothing that was allocated may be used any more
            self.forget_all();
        }
    }

    fn grow(&mut self, step: usize, i: usize, nsize: usize, nalign: usize, back: bool, zeroed: bool, obs: &mut Obs) -> Result<(), Failure> {
        let zeroed = zeroed && self.sut.has_zeroed();
        let (osize, oalign, oaddr, oseed, otok) = {
            let e = &self.live[i];
            (e.size, e.align, e.addr, e.seed, e.tok)
        };
        let placement = if back { ContentPlacement::Back } else { ContentPlacement::Front };
        let mut allowed = vec![];
        let mut must_succeed = true;
        let mut may_succeed = true;
        if nsize < osize {
            allowed.push(AllocationGrowError::GrowWouldShrink);
            may_succeed = false;
        }
        if nsize == osize {
            // "returns a failure when the size decreases": an unchanged size may go either way
            allowed.push(AllocationGrowError::GrowWouldShrink);
            must_succeed = false;
        }
        match self.fam {
            Family::Pool { bsize, balign, .. } => {
                if nalign > balign {
                    allowed.push(AllocationGrowError::AlignmentFailure);
                    may_succeed = false;
                }
                if nsize > bsize {
                    allowed.push(AllocationGrowError::OutOfMemory);
                    may_succeed = false;
                }
            }
            Family::OneChunk => {
                if nalign > oalign {
                    allowed.push(AllocationGrowError::AlignmentFailure);
                    may_succeed = false;
                }
                if nsize > self.one_cap {
                    allowed.push(AllocationGrowError::OutOfMemory);
                    may_succeed = false;
                }
            }
            Family::BumpCal => {
                if nalign > oalign {
                    allowed.push(AllocationGrowError::AlignmentFailure);
                    may_succeed = false;
                }
                if nsize > osize && !self.bump_fits(nsize, nalign) {
                    // in place (youngest chunk) it may still work
                    allowed.push(AllocationGrowError::OutOfMemory);
                    must_succeed = false;
                }
            }
            Family::BumpBb => unreachable!("bb bump allocator cannot grow"),
        }
        must_succeed &= may_succeed;
        let what = format!("step {step}: grow{}([{oaddr:#x}, +{osize}) align {oalign} -> ({nsize}, {nalign}), {placement:?})", if zeroed { "_zeroed" } else { "" });
        let Some(r) = (unsafe { self.sut.grow(otok, layout(osize, oalign), layout(nsize, nalign), placement, zeroed) }) else { return Ok(()) };
        match r {
            Ok(tok) => {
                ensure!(may_succeed, "grow.memory_for_unsatisfiable_request", "{what} succeeded although it must fail with one of {allowed:?}");
                let addr = self.validate(&what, &tok, nsize, nalign, Some(i))?;
                let (kept_at, zero_at) = if back { (addr + (nsize - osize), addr) } else { (addr, addr + osize) };
                if let Some(k) = unsafe { verify_pattern(kept_at, osize, oseed, 0) } {
                    fail!("grow.content_lost", "{what}: byte {k} of the old content is wrong at the new place {addr:#x}");
                }
                if zeroed {
                    if let Some(k) = unsafe { first_nonzero(zero_at, nsize - osize) } {
                        fail!("grow.zeroed_not_zero", "{what}: added byte {k} is not zero");
                    }
                }
                obs.class(if addr == oaddr { "grow_in_place" } else { "grow_moved" });
                if back {
                    obs.class("grow_content_at_back");
                }
                let seed = self.seed();
                unsafe { write_canary(addr, nsize, seed) };
                self.high_water = self.high_water.max(addr.saturating_sub(self.geo.start) + nsize);
                let e = &mut self.live[i];
                (e.tok, e.addr, e.size, e.align, e.seed) = (tok, addr, nsize, nalign, seed);
            }
            Err(e) => {
                ensure!(!must_succeed, "grow.refused_satisfiable_request", "{what} failed with {e:?}");
                ensure!(allowed.contains(&e), "grow.wrong_error", "{what} failed with {e:?}, documented for this situation: {allowed:?}");
                obs.class("grow_refused");
            }
        }
        Ok(())
    }

    fn shrink(&mut self, step: usize, i: usize, nsize: usize, nalign: usize, obs: &mut Obs) -> Result<(), Failure> {
        let (osize, oalign, oaddr, oseed, otok) = {
            let e = &self.live[i];
            (e.size, e.align, e.addr, e.seed, e.tok)
        };
        let mut allowed = vec![];
        if nsize >= osize {
            allowed.push(AllocationShrinkError::ShrinkWouldGrow);
        }
        let limit = match self.fam {
            Family::Pool { balign, .. } => balign,
            _ => oalign,
        };
        if nalign > limit {
            allowed.push(AllocationShrinkError::AlignmentFailure);
        }
        let what = format!("step {step}: shrink([{oaddr:#x}, +{osize}) align {oalign} -> ({nsize}, {nalign}))");
        let Some(r) = (unsafe { self.sut.shrink(otok, layout(osize, oalign), layout(nsize, nalign)) }) else { return Ok(()) };
        match r {
            Ok(tok) => {
                ensure!(allowed.is_empty(), "shrink.succeeded_but_must_fail", "{what} succeeded although it must fail with one of {allowed:?}");
                let addr = self.validate(&what, &tok, nsize, nalign, Some(i))?;
                if let Some(k) = unsafe { verify_pattern(addr, nsize, oseed, 0) } {
                    fail!("shrink.content_lost", "{what}: byte {k} of the kept prefix is wrong");
                }
                obs.class("shrink_ok");
                let seed = self.seed();
                unsafe { write_canary(addr, nsize, seed) };
                let e = &mut self.live[i];
                (e.tok, e.addr, e.size, e.align, e.seed) = (tok, addr, nsize, nalign, seed);
            }
            Err(e) => {
                ensure!(!allowed.is_empty(), "shrink.refused", "{what} failed with {e:?}");
                ensure!(allowed.contains(&e), "shrink.wrong_error", "{what} failed with {e:?}, documented for this situation: {allowed:?}");
                obs.class("shrink_refused");
            }
        }
        Ok(())
    }

    /// one-byte allocations until refusal; returns how many succeeded; releases them again.
    /// Bump allocators: only legal while nothing is live (the release resets everything).
    fn exhaust(&mut self, step: &str, obs: &mut Obs) -> Result<usize, Failure> {
        let bump = matches!(self.fam, Family::BumpBb | Family::BumpCal);
        if bump && !self.live.is_empty() {
            return Ok(usize::MAX);
        }
        let before = self.live.len();
        let limit = (self.geo.seg.1 - self.geo.seg.0) + 2;
        let mut n = 0;
        loop {
            let l = self.live.len();
            self.alloc(usize::MAX, 1, 1, false, obs)?;
            if self.live.len() == l {
                break;
            }
            n += 1;
            ensure!(n <= limit, "alloc.never_exhausted", "{step}: {n} one-byte allocations out of {} bytes", limit - 2);
        }
        self.check_canaries(step)?;
        if bump {
            if n > 0 {
                self.dealloc(0);
            }
        } else {
            while self.live.len() > before {
                self.dealloc(self.live.len() - 1);
            }
        }
        obs.class("exhausted");
        Ok(n)
    }
}

fn req_align(sel: u8, balign_log2: u8) -> usize {
    let r = sel as usize;
    if r < 192 { 1usize << (r * (balign_log2 as usize + 1) / 192) } else { 1usize << ((r - 192) * 13 / 64) }
}

pub struct Setup<'a> {
    pub sut: &'a dyn RawAlloc,
    pub fam: Family,
    pub geo: Geometry,
}

/// runs the op history of `c` against an allocator that was just constructed
pub fn run_history(s: Setup, c: &RawCase, known: &Known, obs: &mut Obs) -> Result<(), Failure> {
    let case_json = || serde_json::to_value(c).unwrap();
    let balign_log2 = c.bucket_align_log2;
    let max_req = c.bucket_size as usize + 2;
    let mut it = Interp {
        sut: s.sut,
        fam: s.fam,
        geo: s.geo,
        known,
        case_json: &case_json,
        live: vec![],
        high_water: 0,
        one_cap: 0,
        next_seed: 0,
        max_live: 0,
        nb: usize::MAX,
        awkward_request_misaligned_start: false,
    };
    // the initial allocate-to-exhaustion count is the reference for "freed memory is reusable"
    if let Family::Pool { .. } = it.fam {
        // unknown yet: every allocation that fits a bucket is expected to work until the first refusal
        it.nb = usize::MAX;
        let mut n = 0usize;
        let cap = (it.geo.seg.1 - it.geo.seg.0) + 2;
        loop {
            match it.sut.allocate(layout(1, 1), false) {
                Ok(tok) => {
                    let addr = it.validate("initial exhaustion", &tok, 1, 1, None)?;
                    it.push_live(tok, addr, 1, 1);
                    n += 1;
                    ensure!(n <= cap, "alloc.never_exhausted", "initial exhaustion: {n} buckets out of {} bytes", cap - 2);
                }
                Err(e) => {
                    ensure!(e == AllocationError::OutOfMemory, "alloc.wrong_error", "initial exhaustion ended with {e:?} instead of OutOfMemory");
                    break;
                }
            }
        }
        it.check_canaries("initial exhaustion")?;
        while !it.live.is_empty() {
            it.dealloc(it.live.len() - 1);
        }
        it.nb = n;
        if let Some(b) = it.sut.buckets() {
            ensure!(b == n, "pool.number_of_buckets", "number_of_buckets() = {b} but {n} allocations succeeded");
        }
        if let Family::Pool { bsize, balign, .. } = it.fam {
            // enough room for one aligned bucket wherever the memory starts => at least one bucket
            let room = it.geo.total >= align_up(bsize, balign) + balign - 1;
            ensure!(!(room && n == 0), "pool.no_bucket_despite_room", "no bucket in {} bytes for bucket layout ({bsize}, {balign})", it.geo.total);
            // (the capped fixed-size variant legitimately has fewer buckets than would fit)
        }
        obs.class(match n {
            0 => "pool_buckets_0",
            1 => "pool_buckets_1",
            2..=4 => "pool_buckets_2_4",
            _ => "pool_buckets_5_plus",
        });
    }
    let n0 = if let Family::Pool { .. } = it.fam { it.nb } else { it.exhaust("initial exhaustion", obs)? };
    if matches!(it.fam, Family::BumpBb | Family::BumpCal) {
        ensure!(n0 == it.geo.total, "bump.capacity", "{n0} one-byte allocations out of {} bytes", it.geo.total);
    }

    for (step, op) in c.ops.iter().enumerate() {
        match op {
            Op::Alloc { size, align, zeroed } => {
                let size = idx(*size, max_req);
                it.alloc(step, size, req_align(*align, balign_log2), *zeroed, obs)?;
            }
            Op::Dealloc(w) => {
                if !it.live.is_empty() {
                    let i = idx(*w, it.live.len());
                    it.dealloc(i);
                    obs.class("deallocate");
                }
            }
            Op::Grow { which, size, align, back, zeroed } => {
                if !it.live.is_empty() && it.fam != Family::BumpBb {
                    let i = idx(*which, it.live.len());
                    it.grow(step, i, idx(*size, max_req), req_align(*align, balign_log2), *back, *zeroed, obs)?;
                }
            }
            Op::Shrink { which, size, align } => {
                if !it.live.is_empty() {
                    let i = idx(*which, it.live.len());
                    it.shrink(step, i, idx(*size, max_req), req_align(*align, balign_log2), obs)?;
                }
            }
            Op::Exhaust => {
                let free_before = it.nb.saturating_sub(it.live.len());
                let n = it.exhaust(&format!("step {step}: exhaustion"), obs)?;
                if let Family::Pool { .. } = it.fam {
                    ensure!(n == free_before, "alloc.freed_memory_not_reusable", "step {step}: {n} allocations until exhaustion, the model has {free_before} free buckets");
                }
            }
        }
        it.check_canaries(&format!("after step {step} {op:?}"))?;
        if it.live.len() >= 2 {
            obs.class("two_or_more_live");
        }
    }
    it.check_canaries("end of history")?;
    // release everything: the allocate-to-exhaustion count must be back at its initial value
    while !it.live.is_empty() {
        it.dealloc(it.live.len() - 1);
    }
    let n_end = it.exhaust("final exhaustion", obs)?;
    ensure!(n_end == n0, "alloc.freed_memory_not_reusable", "after releasing everything {n_end} allocations succeed, initially {n0}");

    let awkward = match it.fam {
        Family::Pool { bsize, balign, .. } => {
            if bsize % balign != 0 {
                obs.class("bucket_size_not_multiple_of_alignment");
            }
            if it.geo.start % balign != 0 {
                obs.class("start_misaligned_for_bucket_alignment");
            }
            bsize % balign != 0 || it.geo.start % balign != 0
        }
        _ => {
            if it.awkward_request_misaligned_start {
                obs.class("start_misaligned_for_request_alignment");
            }
            it.awkward_request_misaligned_start
        }
    };
    obs.nontrivial = awkward && it.max_live >= 2;
    Ok(())
}

// ------------------------------------------------------------------------------------------
// construction of the allocators
// ------------------------------------------------------------------------------------------

/// A block with guard zones; the managed memory starts `4096 + start_off` bytes after a
/// 4096-aligned address, so its misalignment relative to every alignment up to 4096 is `start_off`.
pub struct Block {
    raw: *mut u8,
    layout: Layout,
    pub start: usize,
    pub size: usize,
}

impl Block {
    pub fn new(start_off: usize, size: usize) -> Block {
        let total = 4096 + start_off + size + 4096;
        let layout = Layout::from_size_align(total, 4096).unwrap();
        let raw = unsafe { std::alloc::alloc(layout) };
        assert!(!raw.is_null());
        unsafe { core::ptr::write_bytes(raw, GUARD, total) };
        Block { raw, layout, start: raw as usize + 4096 + start_off, size }
    }

    pub fn ptr(&self) -> NonNull<u8> {
        NonNull::new(self.start as *mut u8).unwrap()
    }

    /// the bytes around the managed memory must be untouched
    pub fn check_guards(&self) -> Result<(), Failure> {
        let total = self.layout.size();
        let base = self.raw as usize;
        for a in (base..self.start).chain(self.start + self.size..base + total) {
            if unsafe { (a as *const u8).read_volatile() } != GUARD {
                fail!("alloc.wrote_outside_segment", "byte at segment start{:+} was modified (segment has {} bytes)", a as isize - self.start as isize, self.size);
            }
        }
        Ok(())
    }
}

impl Drop for Block {
    fn drop(&mut self) {
        unsafe { std::alloc::dealloc(self.raw, self.layout) };
    }
}

static NAME_COUNTER: AtomicU64 = AtomicU64::new(0);

pub fn shm_prefix() -> String {
    format!("c15v{}_", std::process::id())
}

pub fn unique_name() -> FileName {
    let n = NAME_COUNTER.fetch_add(1, Ordering::Relaxed);
    FileName::new(format!("m{n}").as_bytes()).unwrap()
}

pub fn shm_config<T: NamedConceptMgmt>() -> T::Configuration {
    let dir = vcore::util::run_dir().join("shm");
    std::fs::create_dir_all(&dir).ok();
    T::Configuration::default().prefix(&FileName::new(shm_prefix().as_bytes()).unwrap()).path_hint(&Path::new(dir.to_str().unwrap().as_bytes()).unwrap())
}

pub fn segment_size(c: &RawCase) -> usize {
    let (bsize, balign) = (c.bucket_size as usize, 1usize << c.bucket_align_log2);
    match c.kind {
        0 | 1 | 2 | 5 | 7 | 8 => idx(c.seg_sel, 8 * align_up(bsize, balign) + balign + 1),
        _ => idx(c.seg_sel, 2049),
    }
}

/// would the pool allocator's bucket computation underflow? (recorded finding)
fn pool_underflows(start: usize, size: usize, balign: usize) -> bool {
    align_up(start, balign) - start > size
}

fn pool_construction<R>(c: &RawCase, start: usize, size: usize, cap: Option<usize>, known: &Known, obs: &mut Obs, f: impl FnOnce() -> R) -> Result<Option<R>, Failure> {
    let balign = 1usize << c.bucket_align_log2;
    match std::panic::catch_unwind(std::panic::AssertUnwindSafe(f)) {
        Ok(r) => Ok(Some(r)),
        Err(e) => {
            let m = vcore::util::panic_message(&e);
            let fitting = (start + size).saturating_sub(align_up(start, balign)) / align_up(c.bucket_size as usize, balign);
            if let Some(cap) = cap
                && fitting >= cap
                && m.contains("All required memory is preallocated")
            {
                obs.class("fixed_pool_capped");
                known.observed(
                    SIG_FIXED_POOL_CAP,
                    format!("FixedSizePoolAllocator::<{cap}>::new() over memory for {fitting} buckets: {m}"),
                    || serde_json::to_value(c).unwrap(),
                )?;
                return Ok(None);
            }
            if pool_underflows(start, size, balign) && m.contains("subtract with overflow") {
                obs.class("pool_memory_smaller_than_alignment_padding");
                known.observed(
                    SIG_POOL_UNDERFLOW,
                    format!("pool allocator over {size} bytes starting {} bytes after a {balign}-aligned address: {m}", start % balign),
                    || serde_json::to_value(c).unwrap(),
                )?;
                Ok(None)
            } else {
                std::panic::resume_unwind(e)
            }
        }
    }
}

fn run_shm<A: ShmAllocator, S: SharedMemory<A>>(
    c: &RawCase,
    cfg: &A::Configuration,
    fam: impl FnOnce(&S) -> Family,
    known: &Known,
    obs: &mut Obs,
) -> Result<(), Failure> {
    let size = segment_size(c);
    let balign = 1usize << c.bucket_align_log2;
    let pool = matches!(c.kind, 7 | 8);
    if pool && size > 0 && size < balign && known.is_open(SIG_POOL_UNDERFLOW) {
        // the payload may start up to balign-1 bytes before an aligned address: the recorded
        // underflow would panic inside the storage initializer; left out while the finding is open
        known.excluded(SIG_POOL_UNDERFLOW);
        obs.class("excluded_shm_smaller_than_alignment");
        return Ok(());
    }
    let name = unique_name();
    let r = S::Builder::new(&name).config(&shm_config::<S>()).size(size).create(cfg);
    let shm = match r {
        Ok(s) => s,
        Err(e) => {
            ensure!(size == 0 && e == SharedMemoryCreateError::SizeIsZero, "shm.create", "creating a shared memory of {size} bytes failed with {e:?}");
            obs.class("shm_size_zero_refused");
            return Ok(());
        }
    };
    ensure!(size > 0, "shm.create", "a shared memory of size zero was created");
    ensure!(shm.size() == size, "shm.size", "size() = {} but {size} bytes were requested", shm.size());
    let start = shm.payload_start_address();
    let sut = ShmSut::<A, S>(&shm, core::marker::PhantomData);
    let fam = fam(&shm);
    run_history(Setup { sut: &sut, fam, geo: Geometry { seg: (start, start + size), start, total: size } }, c, known, obs)
}

pub fn run_case(c: &RawCase, known: &Known, obs: &mut Obs) -> Result<(), Failure> {
    let (bsize, balign) = (c.bucket_size as usize, 1usize << c.bucket_align_log2);
    let blayout = layout(bsize, balign);
    let size = segment_size(c);
    obs.class(KIND_NAMES[c.kind as usize]);
    if matches!(c.kind, 0 | 1 | 2 | 5 | 7 | 8) && size < align_up(bsize, balign) {
        obs.class("segment_smaller_than_one_bucket");
    }
    match c.kind {
        0 | 1 => {
            let b = Block::new(c.start_off as usize, size);
            let first_bucket = align_up(b.start, balign);
            let fam = Family::Pool { bsize, balign, first_bucket, cal: false };
            let geo = Geometry { seg: (b.start, b.start + size), start: b.start, total: size };
            if c.kind == 0 {
                let Some(a) = pool_construction(c, b.start, size, Some(16), known, obs, || FixedSizePoolAllocator::<16>::new(blayout, b.ptr(), size))? else { return Ok(()) };
                let sut = Full(&a, Some(a.number_of_buckets() as usize));
                run_history(Setup { sut: &sut, fam, geo }, c, known, obs)?;
            } else {
                let Some(a) = pool_construction(c, b.start, size, Some(3), known, obs, || FixedSizePoolAllocator::<3>::new(blayout, b.ptr(), size))? else { return Ok(()) };
                ensure!(a.number_of_buckets() <= 3, "pool.number_of_buckets", "FixedSizePoolAllocator<3> reports {} buckets", a.number_of_buckets());
                let sut = Full(&a, Some(a.number_of_buckets() as usize));
                run_history(Setup { sut: &sut, fam, geo }, c, known, obs)?;
            }
            b.check_guards()
        }
        2 => {
            let b = Block::new(c.start_off as usize, size);
            let first_bucket = align_up(b.start, balign);
            let Some(mut a) = pool_construction(c, b.start, size, None, known, obs, || Box::new(unsafe { BbPool::new_uninit(blayout, b.ptr(), size) }))? else { return Ok(()) };
            // exactly the documented amount of management memory
            let mut mgmt = vec![GUARD; BbPool::memory_size(blayout, size) + 64];
            let mgmt_len = mgmt.len() - 64;
            let bump = BbBump::new(NonNull::new(mgmt.as_mut_ptr()).unwrap(), mgmt_len);
            let r = unsafe { a.init(&bump) };
            ensure!(r.is_ok(), "pool.init", "init with memory_size() = {mgmt_len} bytes of management memory failed: {r:?}");
            let sut = Full(&*a, Some(a.number_of_buckets() as usize));
            let fam = Family::Pool { bsize, balign, first_bucket, cal: false };
            run_history(Setup { sut: &sut, fam, geo: Geometry { seg: (b.start, b.start + size), start: b.start, total: size } }, c, known, obs)?;
            ensure!(mgmt[mgmt_len..].iter().all(|x| *x == GUARD), "pool.management_memory_overrun", "bytes behind the management memory were modified");
            b.check_guards()
        }
        3 => {
            let b = Block::new(c.start_off as usize, size);
            let a = BbBump::new(b.ptr(), size);
            let sut = BumpOnly(&a);
            run_history(Setup { sut: &sut, fam: Family::BumpBb, geo: Geometry { seg: (b.start, b.start + size), start: b.start, total: size } }, c, known, obs)?;
            b.check_guards()
        }
        4 => {
            let b = Block::new(c.start_off as usize, size);
            let a = OneChunkAllocator::new(b.ptr(), size);
            let sut = Full(&a, None);
            run_history(Setup { sut: &sut, fam: Family::OneChunk, geo: Geometry { seg: (b.start, b.start + size), start: b.start, total: size } }, c, known, obs)?;
            b.check_guards()
        }
        5 => {
            let b = Block::new(c.start_off as usize, size);
            let first_bucket = align_up(b.start, balign);
            let cfg = cal_pool::Config { bucket_layout: blayout };
            let mem = NonNull::slice_from_raw_parts(b.ptr(), size);
            let Some(mut a) = pool_construction(c, b.start, size, None, known, obs, || Box::new(unsafe { cal_pool::PoolAllocator::new_uninit(4096, mem, &cfg) }))? else { return Ok(()) };
            let mgmt_len = cal_pool::PoolAllocator::management_size(size, &cfg);
            let mut mgmt = vec![GUARD; mgmt_len + 64];
            let bump = BbBump::new(NonNull::new(mgmt.as_mut_ptr()).unwrap(), mgmt_len);
            let r = unsafe { a.init(&bump) };
            ensure!(r.is_ok(), "pool.init", "init with management_size() = {mgmt_len} bytes failed: {r:?}");
            ensure!(a.max_alignment() == balign, "pool.max_alignment", "max_alignment() = {} for bucket alignment {balign}", a.max_alignment());
            ensure!(a.relative_start_address() == first_bucket - b.start, "pool.relative_start_address", "relative_start_address() = {} expected {}", a.relative_start_address(), first_bucket - b.start);
            let sut = CalRaw { a: &*a, base: b.start, buckets: Some(a.number_of_buckets() as usize) };
            let fam = Family::Pool { bsize, balign, first_bucket, cal: true };
            run_history(Setup { sut: &sut, fam, geo: Geometry { seg: (b.start, b.start + size), start: b.start, total: size } }, c, known, obs)?;
            ensure!(mgmt[mgmt_len..].iter().all(|x| *x == GUARD), "pool.management_memory_overrun", "bytes behind the management memory were modified");
            b.check_guards()
        }
        6 => {
            let b = Block::new(c.start_off as usize, size);
            let mem = NonNull::slice_from_raw_parts(b.ptr(), size);
            let mut a = Box::new(unsafe { cal_bump::BumpAllocator::new_uninit(4096, mem, &cal_bump::Config::default()) });
            let bump = BbBump::new(NonNull::dangling(), 0);
            let r = unsafe { a.init(&bump) };
            ensure!(r.is_ok(), "bump.init", "init failed: {r:?}");
            let sut = CalRaw { a: &*a, base: b.start, buckets: None };
            run_history(Setup { sut: &sut, fam: Family::BumpCal, geo: Geometry { seg: (b.start, b.start + size), start: b.start, total: size } }, c, known, obs)?;
            b.check_guards()
        }
        7 | 8 => {
            let cfg = cal_pool::Config { bucket_layout: blayout };
            let fam = |start: usize| Family::Pool { bsize, balign, first_bucket: start, cal: true };
            if c.kind == 7 {
                run_shm::<cal_pool::PoolAllocator, iceoryx2_cal::shared_memory::process_local::Memory<cal_pool::PoolAllocator>>(c, &cfg, |s| fam(s.payload_start_address()), known, obs)
            } else {
                run_shm::<cal_pool::PoolAllocator, iceoryx2_cal::shared_memory::posix::Memory<cal_pool::PoolAllocator>>(c, &cfg, |s| fam(s.payload_start_address()), known, obs)
            }
        }
        9 => run_shm::<cal_bump::BumpAllocator, iceoryx2_cal::shared_memory::process_local::Memory<cal_bump::BumpAllocator>>(c, &cal_bump::Config::default(), |_| Family::BumpCal, known, obs),
        10 => run_shm::<cal_bump::BumpAllocator, iceoryx2_cal::shared_memory::posix::Memory<cal_bump::BumpAllocator>>(c, &cal_bump::Config::default(), |_| Family::BumpCal, known, obs),
        _ => unreachable!(),
    }
}

// ------------------------------------------------------------------------------------------
// exhaustive grid
// ------------------------------------------------------------------------------------------

#[derive(Clone, Debug, Serialize, Deserialize)]
pub struct GridCase {
    /// 0 bb fixed-size pool, 1 bb pool, 2 cal pool on raw memory
    pub kind: u8,
    pub bucket_size: u8,
    pub bucket_align_log2: u8,
    pub start_off: u8,
    /// 0: five buckets exactly (+ padding), 1: additionally all but one byte of a sixth
    pub tail: u8,
}

pub fn grid_cases() -> Vec<GridCase> {
    let mut v = vec![];
    for bucket_size in 1..=33u8 {
        for bucket_align_log2 in 0..=6u8 {
            for start_off in 0..=7u8 {
                for kind in 0..3u8 {
                    for tail in 0..2u8 {
                        v.push(GridCase { kind, bucket_size, bucket_align_log2, start_off, tail });
                    }
                }
            }
        }
    }
    v
}

/// "allocate all, check alignment / disjointness / bounds, free all, allocate all again"
pub fn run_grid_case(g: &GridCase, known: &Known, obs: &mut Obs) -> Result<(), Failure> {
    let (bsize, balign) = (g.bucket_size as usize, 1usize << g.bucket_align_log2);
    let stride = align_up(bsize, balign);
    let pad = (balign - g.start_off as usize % balign) % balign;
    let size = pad + 5 * stride + if g.tail == 1 { stride - 1 } else { 0 };
    let blayout = layout(bsize, balign);
    let b = Block::new(g.start_off as usize, size);
    let first_bucket = align_up(b.start, balign);
    let geo = (b.start, b.start + size);
    let case_json = || serde_json::to_value(g).unwrap();

    let round = |sut: &dyn RawAlloc, round: usize, obs: &mut Obs| -> Result<Vec<(Tok, usize)>, Failure> {
        let mut got: Vec<(Tok, usize)> = vec![];
        loop {
            match sut.allocate(blayout, false) {
                Ok(tok) => {
                    let addr = sut.addr(&tok);
                    let what = format!("round {round}: allocation {} of the bucket layout ({bsize}, {balign})", got.len());
                    check_placement(&what, addr, bsize, geo, got.iter().map(|(_, a)| Span { addr: *a, size: bsize }))?;
                    if addr % balign != 0 {
                        if bsize % balign != 0 && first_bucket % balign == 0 && (addr - first_bucket) % bsize == 0 {
                            known.observed(SIG_POOL_MISALIGNED, format!("{what}: bucket at start+{} is not aligned to {balign}", addr - b.start), case_json)?;
                        } else {
                            return Err(misaligned(&what, addr, balign));
                        }
                    }
                    unsafe { write_canary(addr, bsize, got.len() as u32) };
                    got.push((tok, addr));
                    ensure!(got.len() <= 8, "alloc.never_exhausted", "more than 8 buckets in a segment for at most 6");
                }
                Err(e) => {
                    ensure!(e == AllocationError::OutOfMemory, "alloc.wrong_error", "round {round}: exhaustion reported as {e:?}");
                    break;
                }
            }
        }
        for (i, (_, addr)) in got.iter().enumerate() {
            if let Some(k) = unsafe { verify_pattern(*addr, bsize, i as u32, 0) } {
                fail!("alloc.canary_damaged", "round {round}: byte {k} of bucket {i} was overwritten by a later allocation");
            }
        }
        if got.len() >= 2 && (bsize % balign != 0 || b.start % balign != 0) {
            obs.nontrivial = true;
        }
        Ok(got)
    };
    let both = |sut: &dyn RawAlloc, reported: usize, obs: &mut Obs| -> Result<(), Failure> {
        let first = round(sut, 1, obs)?;
        ensure!(first.len() == reported, "pool.number_of_buckets", "number_of_buckets() = {reported} but {} allocations succeeded", first.len());
        ensure!(first.len() >= 5, "pool.no_bucket_despite_room", "only {} buckets although five aligned buckets fit", first.len());
        for (tok, _) in first.iter().rev() {
            unsafe { sut.deallocate(*tok, blayout) };
        }
        let second = round(sut, 2, obs)?;
        ensure!(second.len() == first.len(), "alloc.freed_memory_not_reusable", "{} buckets in the first round, {} after freeing all", first.len(), second.len());
        for (tok, _) in &second {
            unsafe { sut.deallocate(*tok, blayout) };
        }
        Ok(())
    };
    if bsize % balign != 0 {
        obs.class("grid_size_not_multiple_of_alignment");
    }
    if b.start % balign != 0 {
        obs.class("grid_start_misaligned");
    }
    match g.kind {
        0 => {
            let a = FixedSizePoolAllocator::<16>::new(blayout, b.ptr(), size);
            both(&Full(&a, None), a.number_of_buckets() as usize, obs)?;
        }
        1 => {
            let mut a = Box::new(unsafe { BbPool::new_uninit(blayout, b.ptr(), size) });
            let mut mgmt = vec![0u8; BbPool::memory_size(blayout, size)];
            let bump = BbBump::new(NonNull::new(mgmt.as_mut_ptr()).unwrap(), mgmt.len());
            let r = unsafe { a.init(&bump) };
            ensure!(r.is_ok(), "pool.init", "init failed: {r:?}");
            both(&Full(&*a, None), a.number_of_buckets() as usize, obs)?;
        }
        _ => {
            let cfg = cal_pool::Config { bucket_layout: blayout };
            let mem = NonNull::slice_from_raw_parts(b.ptr(), size);
            let mut a = Box::new(unsafe { cal_pool::PoolAllocator::new_uninit(4096, mem, &cfg) });
            let mut mgmt = vec![0u8; cal_pool::PoolAllocator::management_size(size, &cfg)];
            let bump = BbBump::new(NonNull::new(mgmt.as_mut_ptr()).unwrap(), mgmt.len());
            let r = unsafe { a.init(&bump) };
            ensure!(r.is_ok(), "pool.init", "init failed: {r:?}");
            both(&CalRaw { a: &*a, base: b.start, buckets: None }, a.number_of_buckets() as usize, obs)?;
        }
    }
    b.check_guards()
}
