fn main(){}
