//! C09 — concurrent index allocation is exclusive, bounded and leak-free.
//!
//! Per-thread programs over acquire / release (default, lock-if-last) / recover / count run on
//! 2..3 threads under the controlled scheduler (vsched); the schedule (preemption list,
//! stale-read choices) is part of the generated input. The observed history is checked for
//! linearizability against a sequential specification of an index set (model.rs), followed by
//! quiescent no-leak checks. A real-thread stress part covers what needs true simultaneity.
extern crate iceoryx2_bb_loggers;

use vcore::rng::SplitMix;
use vcore::sched::{self, OTHER, Schedule};
use vcore::{Ctx, Spec};

mod model;
mod run;
mod stress;
mod sut;

use run::{Case, Op, exec};

const SPEC: Spec = Spec {
    prop: "C09",
    level: "exploration",
    rule: "case = (structure in {UniqueIndexSet, RobustUniqueIndexSet, bb PoolAllocator, cal PoolAllocator}, capacity 1..4, indices pre-acquired by a dead owner, 2..3 per-thread programs over acquire | release(own k-th, default|lock-if-last) | recover(dead owner) | borrowed_indices | unsatisfiable allocation, schedule); schedules are preemption lists over the atomic accesses of the real code: all lists up to the stated bound for every small program pair (exhaustive part), an exhaustive ABA family (one thread preempted at each of its yield points while the other runs every acquire/release cycle program up to a length bound), PCT-style random lists with explicit targets for 3 threads, and weak-memory stale-read choices; oracle = ownership intervals never overlap, index < capacity, addresses aligned / in segment / on the bucket grid, the history is linearizable w.r.t. a sequential index-set specification (out-of-indices only when all taken, locked only after a lock, lock-if-last locks exactly when the last index goes, nothing acquired after a lock, recover returns exactly the dead owner's indices, borrowed_indices exact), and after quiescence borrowed_indices equals the model, capacity-minus-held further acquires succeed, one more fails, everything can be released and re-acquired; non-trivial = at least one CAS failure was observed and one index was acquired at least twice in the case; distinct = hash of the whole case; stress part: real threads, ownership stamps in a side array",
    assumptions: &[
        "schedules are explored at the granularity of atomic accesses (pre-access hook of the instrumented atomics, which includes the RelocatablePointer offset load in front of every free-list next-cell access); plain memory accesses between two atomic accesses execute without interruption under the scheduler; only the real-thread stress part can separate them",
        "weak-memory mode under-approximates C11 and sees atomic locations only (robust set cells and generation counter, plain head word); with a stale read in the run the 'out of indices' admissibility, borrowed_indices exactness (plain set only), recover completeness and recover's Unlocked answer are not demanded because the model cannot see the harness-level synchronisation",
        "recover(owner) is only called for owners that no longer operate (a finished thread or an owner that acquired before the run), as the rustdoc describes (dead processes)",
        "lock-if-last on the plain set is specified as one atomic step; on the robust set as release followed by a lock attempt (two steps), the weaker reading of ReleaseMode/ReleaseState",
        "allocator bucket layouts have size % alignment == 0 (other layouts belong to C15)",
        "the 16-bit ABA tag is assumed not to wrap inside one preemption window (fewer than 32768 operations)",
    ],
    watchdog_quick_s: 900,
    watchdog_thorough_s: 10800,
};

const A: Op = Op::Acq { req: 0 };
const fn r(k: u8) -> Op {
    Op::Rel { k, lock: false }
}
const fn l(k: u8) -> Op {
    Op::Rel { k, lock: true }
}
const VD: Op = Op::Recover { owner: run::DEAD_OWNER, lock: false };
const VL: Op = Op::Recover { owner: run::DEAD_OWNER, lock: true };
const X1: Op = Op::Recover { owner: 1, lock: false };
const X1L: Op = Op::Recover { owner: 1, lock: true };
const C: Op = Op::Count;

/// every sensible program of at most `maxlen` operations (a release needs a preceding acquire)
fn small_programs(kind: u8, thread: usize, maxlen: usize) -> Vec<(Vec<Op>, bool)> {
    let mut v: Vec<Vec<Op>> = vec![vec![A], vec![A, A], vec![A, r(0)], vec![A, A, A], vec![A, A, r(0)], vec![A, A, r(1)], vec![A, r(0), A]];
    if sut::has_lock(kind) {
        v.extend([vec![A, l(0)], vec![A, A, l(0)], vec![A, A, l(1)], vec![A, l(0), A]]);
    }
    if sut::has_count(kind) {
        v.extend([vec![C], vec![A, C], vec![A, r(0), C], vec![A, l(0), C]]);
    }
    if sut::is_alloc(kind) {
        v.extend([vec![A, Op::BadReq { which: 0 }, A], vec![Op::BadReq { which: 1 }, A]]);
    }
    let mut out: Vec<(Vec<Op>, bool)> = v.into_iter().map(|p| (p, false)).collect();
    if sut::has_recover(kind) {
        // programs that recover the dead owner (flag: needs dead > 0)
        for p in [vec![VD], vec![VL], vec![A, VD], vec![VD, A], vec![A, VL], vec![VL, A], vec![A, r(0), VL]] {
            out.push((p, true));
        }
        if thread == 0 {
            for p in [vec![X1], vec![X1L], vec![A, X1], vec![A, X1L], vec![X1, A]] {
                out.push((p, false));
            }
        }
    }
    out.retain(|(p, _)| p.len() <= maxlen);
    out
}

fn exhaustive_part(ctx: &mut Ctx) {
    let part = "exhaustive";
    if !ctx.part_enabled(part) {
        return;
    }
    let quick = ctx.quick();
    // robust set: 2-4 times more yield points per operation, so fewer operations per pair
    let robust_max_ops = ctx.scale(5, 6);
    let bound_for = |kind: u8, nops: usize| -> usize {
        if quick {
            2
        } else if kind != sut::KIND_ROBUST || nops <= 4 {
            3
        } else {
            2
        }
    };
    let mut unit = 0u64;
    let mut ok = true;
    'outer: for kind in 0..4u8 {
        for cap in 1..=2u8 {
            let p0 = small_programs(kind, 0, 3);
            let p1 = small_programs(kind, 1, 3);
            for (a, da) in &p0 {
                for (b, db) in &p1 {
                    if kind == sut::KIND_ROBUST && a.len() + b.len() > robust_max_ops {
                        continue;
                    }
                    let bound = bound_for(kind, a.len() + b.len());
                    let deads: &[u8] = if *da || *db { &[1] } else { &[0] };
                    for dead in deads {
                        if *dead > cap {
                            continue;
                        }
                        unit += 1;
                        if !ctx.mine(unit) {
                            continue;
                        }
                        let base = Case { kind, cap, dead: *dead, bucket: (unit % 5) as u8, skew: (unit % 4) as u8, progs: vec![a.clone(), b.clone()], sched: Schedule::default() };
                        let (good, info) = exec(ctx, part, &base);
                        if !good {
                            ok = false;
                            break 'outer;
                        }
                        let Some(info) = info else { continue };
                        // all lists over the yield points of this program; runs with retries are
                        // longer than the baseline: extend until no run is longer than the range
                        let mut covered = 0u32;
                        let mut upto = info.yields + 2;
                        loop {
                            let mut longest = 0u32;
                            for lst in sched::enumerate_preemptions(upto, 1, bound) {
                                if lst.is_empty() || lst.iter().all(|(y, _)| *y <= covered) {
                                    continue;
                                }
                                let c = Case { sched: Schedule { preempt: lst.iter().map(|(y, _)| (*y, OTHER as u8)).collect(), ..Default::default() }, ..base.clone() };
                                let (good, info) = exec(ctx, part, &c);
                                if !good {
                                    ok = false;
                                    break 'outer;
                                }
                                if let Some(i) = info {
                                    longest = longest.max(i.yields);
                                }
                            }
                            covered = upto;
                            if longest <= upto || upto > 400 {
                                break;
                            }
                            upto = longest;
                        }
                    }
                }
            }
        }
    }
    if ok {
        ctx.mark_exhaustive(if quick {
            format!("exhaustive: all preemption lists with <= 2 preemptions over every atomic access, for every pair of sensible programs with <= 3 operations per thread (robust set: <= {robust_max_ops} operations per pair), capacities 1..2, four structures")
        } else {
            format!("exhaustive: all preemption lists with <= 3 preemptions (robust set: <= 3 for pairs of <= 4 operations, <= 2 for pairs of <= {robust_max_ops}) over every atomic access, for every pair of sensible programs with <= 3 operations per thread, capacities 1..2, four structures")
        });
    }
}

/// every acquire/release cycle program of one thread: releases name the k-th held index
fn cycle_programs(cap: usize, maxlen: usize) -> Vec<Vec<Op>> {
    fn rec(cap: usize, maxlen: usize, held: usize, cur: &mut Vec<Op>, out: &mut Vec<Vec<Op>>) {
        if cur.iter().any(|o| matches!(o, Op::Rel { .. })) && cur.len() >= 3 {
            out.push(cur.clone());
        }
        if cur.len() == maxlen {
            return;
        }
        if held < cap {
            cur.push(A);
            rec(cap, maxlen, held + 1, cur, out);
            cur.pop();
        }
        for k in 0..held {
            cur.push(r(k as u8));
            rec(cap, maxlen, held - 1, cur, out);
            cur.pop();
        }
    }
    let mut out = vec![];
    rec(cap, maxlen, 0, &mut vec![], &mut out);
    out
}

/// ABA family, exhaustive: T0 is taken off the CPU at every single yield point of its
/// program ([acquire] or [acquire, acquire]); T1 then runs a complete acquire/release cycle
/// program (every one up to the length bound) before T0 resumes.
fn aba_part(ctx: &mut Ctx) {
    let part = "aba";
    if !ctx.part_enabled(part) {
        return;
    }
    let maxlen = ctx.scale(8, 9);
    let mut unit = 0u64;
    let mut ok = true;
    'outer: for kind in [sut::KIND_PLAIN, sut::KIND_CAL] {
        for cap in 2..=4u8 {
            for first in [vec![A], vec![A, A]] {
                // yield points of T0 alone
                let alone = Case { kind, cap, dead: 0, bucket: 1, skew: 0, progs: vec![first.clone(), vec![]], sched: Schedule::default() };
                let Ok(o) = run::run_case(&alone, &mut vcore::Obs::default()) else {
                    ok &= exec(ctx, part, &alone).0;
                    break 'outer;
                };
                let y0 = o.info.yields;
                for cyc in cycle_programs(cap as usize, maxlen) {
                    unit += 1;
                    if !ctx.mine(unit) {
                        continue;
                    }
                    for y in 1..=y0 {
                        let c = Case { progs: vec![first.clone(), cyc.clone()], sched: Schedule { preempt: vec![(y, OTHER as u8)], ..Default::default() }, ..alone.clone() };
                        if !exec(ctx, part, &c).0 {
                            ok = false;
                            break 'outer;
                        }
                    }
                }
            }
        }
    }
    if ok {
        ctx.mark_exhaustive(format!("aba: T0 = [acquire] or [acquire, acquire] preempted at every one of its yield points x every acquire/release cycle program of T1 with <= {maxlen} operations run to completion in between, capacities 2..4, UniqueIndexSet and cal PoolAllocator"));
    }
}

fn gen_prog(rng: &mut SplitMix, kind: u8, nthreads: usize, t: usize, len: usize) -> Vec<Op> {
    let mut p = vec![];
    for _ in 0..len {
        let x = rng.below(100);
        let op = if x < 45 {
            Op::Acq { req: rng.below(4) as u8 }
        } else if x < 82 {
            Op::Rel { k: rng.below(3) as u8, lock: sut::has_lock(kind) && rng.chance(1, 4) }
        } else if x < 92 && sut::has_recover(kind) {
            let owner = if t + 1 < nthreads && rng.chance(1, 2) { rng.range(t as u64 + 1, nthreads as u64 - 1) as u8 } else { run::DEAD_OWNER };
            Op::Recover { owner, lock: rng.chance(1, 3) }
        } else if x < 97 && sut::has_count(kind) {
            Op::Count
        } else if sut::is_alloc(kind) && x >= 97 {
            Op::BadReq { which: rng.below(2) as u8 }
        } else {
            Op::Acq { req: rng.below(4) as u8 }
        };
        p.push(op);
    }
    p
}

/// ABA shape: one thread with a single (or few) acquire, another one that cycles through
/// acquire/release in varying order, optionally a third one that keeps something.
fn gen_aba(rng: &mut SplitMix, nthreads: usize) -> Vec<Vec<Op>> {
    let mut progs = vec![];
    let mut first = vec![Op::Acq { req: 0 }];
    if rng.chance(1, 2) {
        first.push(Op::Rel { k: 0, lock: false });
        first.push(Op::Acq { req: 0 });
    }
    let mut cyc = vec![];
    let n = rng.range(2, 4);
    for _ in 0..n {
        let burst = rng.range(1, 3);
        for _ in 0..burst {
            cyc.push(Op::Acq { req: 0 });
        }
        for _ in 0..rng.range(1, burst) {
            cyc.push(Op::Rel { k: rng.below(3) as u8, lock: false });
        }
    }
    cyc.truncate(9);
    let third = if rng.chance(1, 2) { vec![Op::Acq { req: 0 }] } else { vec![Op::Acq { req: 0 }, Op::Acq { req: 0 }, Op::Rel { k: 0, lock: false }] };
    let order = rng.below(2);
    if order == 0 {
        progs.push(first);
        progs.push(cyc);
    } else {
        progs.push(cyc);
        progs.push(first);
    }
    if nthreads == 3 {
        progs.push(third);
    }
    progs
}

fn random_parts(ctx: &mut Ctx) {
    for (part, weak) in [("random", false), ("weak", true)] {
        if !ctx.part_enabled(part) {
            continue;
        }
        let programs = if weak { ctx.scale(16 * 1500u64, 16 * 22_000) } else { ctx.scale(16 * 3000u64, 16 * 45_000) };
        let per_program = 6;
        let n = ctx.share(programs);
        let mut rng = ctx.rng(part);
        let maxp = ctx.scale(4, 5);
        'prog: for _ in 0..n {
            let kind = if weak {
                // the robust set is the one whose protected data is atomic
                if rng.chance(3, 4) { sut::KIND_ROBUST } else { sut::KIND_PLAIN }
            } else {
                *rng.pick(&[0u8, 0, 0, 1, 1, 1, 2, 3])
            };
            let nthreads = rng.range(2, 3) as usize;
            let cap = rng.range(1, 4) as u8;
            let dead = if sut::has_recover(kind) && rng.chance(1, 2) { rng.range(1, cap as u64) as u8 } else { 0 };
            let progs = if rng.chance(1, 3) { gen_aba(&mut rng, nthreads) } else { (0..nthreads).map(|t| { let len = rng.range(1, 6) as usize; gen_prog(&mut rng, kind, nthreads, t, len) }).collect() };
            let base = Case { kind, cap, dead, bucket: rng.below(5) as u8, skew: rng.below(4) as u8, progs, sched: Schedule { weak, ..Default::default() } };
            let (good, info) = exec(ctx, part, &base);
            if !good {
                break;
            }
            let Some(info) = info else { continue };
            for _ in 0..per_program {
                let np = rng.range(1, maxp) as usize;
                let preempt = sched::random_preemptions(&mut rng, info.yields + 3, nthreads as u8, np);
                let stale = if weak { (0..rng.range(1, 14)).map(|_| if rng.chance(1, 2) { rng.range(1, 3) as u8 } else { 0 }).collect() } else { vec![] };
                let c = Case { sched: Schedule { preempt, stale, weak }, ..base.clone() };
                if !exec(ctx, part, &c).0 {
                    break 'prog;
                }
            }
        }
    }
}

fn body(ctx: &mut Ctx) {
    iceoryx2_log::set_log_level(iceoryx2_log::LogLevel::Fatal);
    sched::install();
    // replay of a scheduler case
    for part in ["exhaustive", "aba", "random", "weak"] {
        if let Some(c) = ctx.replay_case::<Case>(part) {
            ctx.pin_to_one_cpu();
            exec(ctx, part, &c);
            return;
        }
    }
    // real parallelism first (un-pins itself), then the scheduler parts on one CPU
    stress::stress_part(ctx);
    if ctx.replay.is_some() {
        return;
    }
    ctx.pin_to_one_cpu();
    exhaustive_part(ctx);
    aba_part(ctx);
    random_parts(ctx);
}

fn main() {
    vcore::main(SPEC, body);
}
