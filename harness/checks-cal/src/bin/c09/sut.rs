//! Adapters: the four structures under test behind one index-set interface.
//!
//! API decision: the plain set is driven through `acquire_raw_index` / `release_raw_index`
//! (the RAII `UniqueIndex` guard releases in Drop with `ReleaseMode::Default`, i.e. it is the
//! same code path and would release behind the model's back). Contracts respected: an index
//! is released only by the thread that acquired it, exactly once; allocator pointers are only
//! deallocated once and were allocated by the same allocator.

use core::alloc::Layout;
use core::ptr::NonNull;
use iceoryx2_bb_elementary_traits::allocator::{Allocate, AllocationError, Deallocate};
use iceoryx2_bb_lock_free::mpmc::robust_unique_index_set::{OwnerId, StaticRobustUniqueIndexSet};
use iceoryx2_bb_lock_free::mpmc::unique_index_set::FixedSizeUniqueIndexSet;
use iceoryx2_bb_lock_free::mpmc::unique_index_set_enums::{ReleaseMode, ReleaseState, UniqueIndexSetAcquireFailure};
use iceoryx2_bb_memory::bump_allocator::BumpAllocator;
use iceoryx2_bb_memory::pool_allocator::FixedSizePoolAllocator;
use iceoryx2_cal::shm_allocator::pool_allocator::{Config as CalConfig, PoolAllocator as CalPool};
use iceoryx2_cal::shm_allocator::{PointerOffset, ShmAllocator};

pub const KIND_PLAIN: u8 = 0;
pub const KIND_ROBUST: u8 = 1;
pub const KIND_BB: u8 = 2;
#[allow(dead_code)]
pub const KIND_CAL: u8 = 3;
pub const KIND_NAMES: [&str; 4] = ["UniqueIndexSet", "RobustUniqueIndexSet", "bb::PoolAllocator", "cal::PoolAllocator"];

#[derive(Clone, Debug, PartialEq)]
pub enum AcqErr {
    Full,
    Locked,
    /// the structure returned something that is wrong on its own (signature, message)
    Bad(&'static str, String),
}

pub trait Sut: Sync {
    fn cap(&self) -> usize;
    /// `req`: index into the request-layout table (allocators only)
    fn acquire(&self, owner: u64, req: u8) -> Result<usize, AcqErr>;
    fn release(&self, idx: usize, owner: u64, lock: bool) -> Result<bool, String>;
    fn recover(&self, _owner: u64, _lock: bool) -> (Vec<usize>, bool) {
        unreachable!()
    }
    fn count(&self) -> usize {
        unreachable!()
    }
    fn is_locked(&self) -> bool {
        false
    }
    /// allocators: a request the bucket layout cannot satisfy; Ok(()) = rejected as documented
    fn bad_request(&self, _which: u8) -> Result<(), String> {
        unreachable!()
    }
}

pub fn has_lock(kind: u8) -> bool {
    kind <= KIND_ROBUST
}
pub fn has_count(kind: u8) -> bool {
    kind <= KIND_ROBUST
}
pub fn has_recover(kind: u8) -> bool {
    kind == KIND_ROBUST
}
pub fn is_alloc(kind: u8) -> bool {
    kind >= KIND_BB
}

fn mode(lock: bool) -> ReleaseMode {
    if lock { ReleaseMode::LockIfLastIndex } else { ReleaseMode::Default }
}

// ---- plain -----------------------------------------------------------------------------------

pub struct Plain(FixedSizeUniqueIndexSet<4>);

impl Sut for Plain {
    fn cap(&self) -> usize {
        self.0.capacity() as usize
    }
    fn acquire(&self, _owner: u64, _req: u8) -> Result<usize, AcqErr> {
        match unsafe { self.0.acquire_raw_index() } {
            Ok(i) => Ok(i as usize),
            Err(UniqueIndexSetAcquireFailure::OutOfIndices) => Err(AcqErr::Full),
            Err(UniqueIndexSetAcquireFailure::IsLocked) => Err(AcqErr::Locked),
        }
    }
    fn release(&self, idx: usize, _owner: u64, lock: bool) -> Result<bool, String> {
        Ok(unsafe { self.0.release_raw_index(idx as u32, mode(lock)) } == ReleaseState::Locked)
    }
    fn count(&self) -> usize {
        self.0.borrowed_indices()
    }
    fn is_locked(&self) -> bool {
        self.0.is_locked()
    }
}

// ---- robust ----------------------------------------------------------------------------------

pub struct Robust(StaticRobustUniqueIndexSet<4>);

impl Sut for Robust {
    fn cap(&self) -> usize {
        self.0.capacity()
    }
    fn acquire(&self, owner: u64, _req: u8) -> Result<usize, AcqErr> {
        match self.0.acquire(OwnerId::new(owner).unwrap()) {
            Ok(i) => Ok(i),
            Err(UniqueIndexSetAcquireFailure::OutOfIndices) => Err(AcqErr::Full),
            Err(UniqueIndexSetAcquireFailure::IsLocked) => Err(AcqErr::Locked),
        }
    }
    fn release(&self, idx: usize, owner: u64, lock: bool) -> Result<bool, String> {
        match self.0.release(idx, OwnerId::new(owner).unwrap(), mode(lock)) {
            Ok(s) => Ok(s == ReleaseState::Locked),
            Err(e) => Err(format!("{e:?}")),
        }
    }
    fn recover(&self, owner: u64, lock: bool) -> (Vec<usize>, bool) {
        let target = OwnerId::new(owner).unwrap();
        let mut got = vec![];
        let st = self.0.recover(mode(lock), |o, _| o == target, |_, i| got.push(i));
        (got, st == ReleaseState::Locked)
    }
    fn count(&self) -> usize {
        self.0.borrowed_indices()
    }
    fn is_locked(&self) -> bool {
        self.0.is_locked()
    }
}

// ---- allocators ------------------------------------------------------------------------------

/// bucket layouts (size is a multiple of the alignment: other layouts are C15's subject)
pub const BUCKETS: [(usize, usize); 5] = [(8, 8), (16, 8), (32, 4), (24, 8), (64, 64)];

pub fn request_layout(bucket: (usize, usize), req: u8) -> Layout {
    let (s, a) = bucket;
    let (size, align) = match req % 4 {
        0 => (s, a),
        1 => (1, 1),
        2 => ((s / 2).max(1), a.min(2)),
        _ => (s - 1, a),
    };
    Layout::from_size_align(size.max(1), align).unwrap()
}

struct Mem {
    _raw: Vec<u8>,
    start: *mut u8,
}

impl Mem {
    fn new(len: usize) -> Self {
        let mut raw = vec![0xA5u8; len + 256];
        let a = raw.as_mut_ptr() as usize;
        let start = ((a + 127) & !127) as *mut u8;
        Mem { _raw: raw, start }
    }
}

pub struct BbPool {
    _mem: Mem,
    seg_start: usize,
    seg_len: usize,
    bucket: (usize, usize),
    first: usize,
    sut: FixedSizePoolAllocator<8>,
}

unsafe impl Sync for BbPool {}

impl BbPool {
    fn new(cap: usize, bucket: (usize, usize), skew: usize) -> Self {
        let (bs, ba) = bucket;
        let mem = Mem::new(1024);
        let seg_start = mem.start as usize + skew;
        let first = seg_start.next_multiple_of(ba);
        // room for exactly `cap` buckets after the alignment adjustment plus a useless rest
        let seg_len = (first - seg_start) + cap * bs + bs / 2;
        let sut = FixedSizePoolAllocator::<8>::new(Layout::from_size_align(bs, ba).unwrap(), NonNull::new(seg_start as *mut u8).unwrap(), seg_len);
        BbPool { _mem: mem, seg_start, seg_len, bucket, first, sut }
    }
}

fn check_addr(addr: usize, first: usize, seg_start: usize, seg_len: usize, bucket: (usize, usize), lay: Layout, cap: usize) -> Result<usize, AcqErr> {
    let (bs, ba) = bucket;
    if addr % lay.align() != 0 || addr % ba != 0 {
        return Err(AcqErr::Bad("alloc.misaligned", format!("address {addr:#x} is not aligned to {} (bucket alignment {ba})", lay.align())));
    }
    if addr < seg_start || addr + bs > seg_start + seg_len {
        return Err(AcqErr::Bad("alloc.out_of_segment", format!("bucket [{addr:#x}, +{bs}) leaves the segment [{seg_start:#x}, +{seg_len})")));
    }
    if addr < first || (addr - first) % bs != 0 {
        return Err(AcqErr::Bad("alloc.stride", format!("address {addr:#x} is not first bucket {first:#x} + k*{bs}")));
    }
    let idx = (addr - first) / bs;
    if idx >= cap {
        return Err(AcqErr::Bad("index.range", format!("bucket number {idx} with {cap} buckets")));
    }
    Ok(idx)
}

impl Sut for BbPool {
    fn cap(&self) -> usize {
        self.sut.number_of_buckets() as usize
    }
    fn acquire(&self, _owner: u64, req: u8) -> Result<usize, AcqErr> {
        let lay = request_layout(self.bucket, req);
        match self.sut.allocate(lay) {
            Ok(p) => check_addr(p.as_ptr() as usize, self.first, self.seg_start, self.seg_len, self.bucket, lay, self.cap()),
            Err(AllocationError::OutOfMemory) => Err(AcqErr::Full),
            Err(e) => Err(AcqErr::Bad("alloc.error", format!("allocate({lay:?}) failed with {e:?}"))),
        }
    }
    fn release(&self, idx: usize, _owner: u64, _lock: bool) -> Result<bool, String> {
        let p = NonNull::new((self.first + idx * self.bucket.0) as *mut u8).unwrap();
        unsafe { self.sut.deallocate(p, Layout::from_size_align(1, 1).unwrap()) };
        Ok(false)
    }
    fn bad_request(&self, which: u8) -> Result<(), String> {
        let (bs, ba) = self.bucket;
        let (lay, want) = if which % 2 == 0 {
            (Layout::from_size_align(bs + 1, 1).unwrap(), AllocationError::SizeTooLarge)
        } else {
            (Layout::from_size_align(ba * 2, ba * 2).unwrap(), if ba * 2 > bs { AllocationError::SizeTooLarge } else { AllocationError::AlignmentFailure })
        };
        match self.sut.allocate(lay) {
            Err(e) if e == want => Ok(()),
            other => Err(format!("allocate({lay:?}) on buckets {:?} returned {other:?}, expected Err({want:?})", self.bucket)),
        }
    }
}

pub struct CalPoolSut {
    _mem: Mem,
    _mgmt: Mem,
    base: usize,
    seg_len: usize,
    bucket: (usize, usize),
    sut: Box<CalPool>,
}

unsafe impl Sync for CalPoolSut {}

impl CalPoolSut {
    fn new(cap: usize, bucket: (usize, usize)) -> Self {
        let (bs, ba) = bucket;
        let mem = Mem::new(1024);
        let mgmt = Mem::new(512);
        let base = mem.start as usize;
        let seg_len = cap * bs + bs / 2;
        let managed = unsafe { NonNull::new_unchecked(core::ptr::slice_from_raw_parts_mut(mem.start, seg_len)) };
        let cfg = CalConfig { bucket_layout: Layout::from_size_align(bs, ba).unwrap() };
        let mut sut = Box::new(unsafe { CalPool::new_uninit(128, managed, &cfg) });
        let bump = BumpAllocator::new(NonNull::new(mgmt.start).unwrap(), 512);
        unsafe { sut.init(&bump).expect("cal pool allocator init") };
        CalPoolSut { _mem: mem, _mgmt: mgmt, base, seg_len, bucket, sut }
    }
    fn first(&self) -> usize {
        self.base + self.sut.relative_start_address()
    }
}

impl Sut for CalPoolSut {
    fn cap(&self) -> usize {
        self.sut.number_of_buckets() as usize
    }
    fn acquire(&self, _owner: u64, req: u8) -> Result<usize, AcqErr> {
        let lay = request_layout(self.bucket, req);
        match unsafe { self.sut.assume_init() }.allocate(lay) {
            Ok(off) => check_addr(self.first() + off.offset(), self.first(), self.base, self.seg_len, self.bucket, lay, self.cap()),
            Err(AllocationError::OutOfMemory) => Err(AcqErr::Full),
            Err(e) => Err(AcqErr::Bad("alloc.error", format!("allocate({lay:?}) failed with {e:?}"))),
        }
    }
    fn release(&self, idx: usize, _owner: u64, _lock: bool) -> Result<bool, String> {
        let off = PointerOffset::new(idx * self.bucket.0);
        unsafe { self.sut.assume_init().deallocate(off, Layout::from_size_align(1, 1).unwrap()) };
        Ok(false)
    }
    fn bad_request(&self, which: u8) -> Result<(), String> {
        let (bs, ba) = self.bucket;
        let (lay, want) = if which % 2 == 0 {
            (Layout::from_size_align(bs + 1, 1).unwrap(), AllocationError::SizeTooLarge)
        } else {
            (Layout::from_size_align(ba * 2, ba * 2).unwrap(), AllocationError::AlignmentFailure)
        };
        match unsafe { self.sut.assume_init() }.allocate(lay) {
            Err(e) if e == want => Ok(()),
            other => Err(format!("allocate({lay:?}) on buckets {:?} returned {other:?}, expected Err({want:?})", self.bucket)),
        }
    }
}

/// Builds the structure. `bucket`/`skew` only matter for the allocators.
pub fn build(kind: u8, cap: usize, bucket: u8, skew: u8) -> Box<dyn Sut> {
    let b = BUCKETS[bucket as usize % BUCKETS.len()];
    match kind {
        KIND_PLAIN => Box::new(Plain(FixedSizeUniqueIndexSet::<4>::new_with_reduced_capacity(cap).unwrap())),
        KIND_ROBUST => Box::new(Robust(StaticRobustUniqueIndexSet::<4>::new_with_reduced_capacity(cap).unwrap())),
        KIND_BB => Box::new(BbPool::new(cap, b, [0usize, 1, 4, 8][skew as usize % 4])),
        _ => Box::new(CalPoolSut::new(cap, b)),
    }
}
