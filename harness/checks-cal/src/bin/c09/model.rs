//! Sequential specification of an index set and a linearizability checker for histories of
//! operations that consist of one or more atomic steps.
//!
//! A history is a list of begin/end events in real-time order. Every operation is translated
//! (with its observed result) into a list of guarded steps; each step has to take effect at
//! some instant between the begin and the end event of its operation, in order. The checker
//! keeps the set of all configurations (model state + progress of the pending operations) that
//! are consistent with the events seen so far; the history is valid iff the set never becomes
//! empty.

use std::collections::BTreeSet;

pub const MAXI: usize = 8;
pub const MAXT: usize = 3;

#[derive(Clone, Copy, PartialEq, Eq, PartialOrd, Ord, Debug)]
pub struct MState {
    /// owner of every index (0 = free)
    pub held: [u8; MAXI],
    pub locked: bool,
}

impl MState {
    pub fn new() -> Self {
        MState { held: [0; MAXI], locked: false }
    }
    pub fn count(&self) -> usize {
        self.held.iter().filter(|o| **o != 0).count()
    }
}

#[derive(Clone, Debug, PartialEq)]
pub enum Step {
    /// successful acquire: the set is not locked and the index is free
    Take { idx: usize, owner: u8 },
    /// "out of indices": every index is taken (`relaxed`: answer based on a C11-stale read)
    AllFull { relaxed: bool },
    /// "is locked"
    IsLocked,
    /// release in default mode / first half of a two-step lock-if-last release
    Free { idx: usize, owner: u8 },
    /// recover reports an index of `owner`. With `strict` off (C11-stale read in the run) the
    /// cell may be the leftover of an acquire that lost against the lock: accepted on a locked set
    RecoverFree { idx: usize, owner: u8, strict: bool },
    /// atomic lock-if-last release that reported Locked: it was the last index
    FreeLockLast { idx: usize, owner: u8 },
    /// atomic lock-if-last release that reported Unlocked: it was not the last index
    FreeNotLast { idx: usize, owner: u8 },
    /// second half of a two-step lock-if-last release that reported Locked
    QLocked,
    /// second half of a two-step lock-if-last release that reported Unlocked
    QUnlocked,
    /// lock attempt whose outcome is not reported (recover with lock-if-last)
    TryLock,
    /// end of recover: nothing of `owner` is left (if `strict`), reported state = lock state
    RecoverEnd { owner: u8, locked: bool, strict: bool },
    /// borrowed_indices()
    Count { n: usize, relaxed: bool },
    /// no effect, always enabled
    Nop,
}

fn fire(step: &Step, s: &MState, cap: usize, out: &mut Vec<MState>) {
    match step {
        Step::Take { idx, owner } => {
            if !s.locked && *idx < cap && s.held[*idx] == 0 {
                let mut n = *s;
                n.held[*idx] = *owner;
                out.push(n);
            }
        }
        Step::AllFull { relaxed } => {
            if *relaxed || s.count() == cap {
                out.push(*s);
            }
        }
        Step::IsLocked => {
            if s.locked {
                out.push(*s);
            }
        }
        Step::Free { idx, owner } => {
            if *idx < MAXI && s.held[*idx] == *owner {
                let mut n = *s;
                n.held[*idx] = 0;
                out.push(n);
            }
        }
        Step::RecoverFree { idx, owner, strict } => {
            if *idx < MAXI && s.held[*idx] == *owner {
                let mut n = *s;
                n.held[*idx] = 0;
                out.push(n);
            } else if !*strict && s.locked {
                out.push(*s);
            }
        }
        Step::FreeLockLast { idx, owner } => {
            if *idx < MAXI && s.held[*idx] == *owner && s.count() == 1 && !s.locked {
                let mut n = *s;
                n.held[*idx] = 0;
                n.locked = true;
                out.push(n);
            }
        }
        Step::FreeNotLast { idx, owner } => {
            if *idx < MAXI && s.held[*idx] == *owner && s.count() >= 2 && !s.locked {
                let mut n = *s;
                n.held[*idx] = 0;
                out.push(n);
            }
        }
        Step::QLocked => {
            if s.locked || s.count() == 0 {
                let mut n = *s;
                n.locked = true;
                out.push(n);
            }
        }
        Step::QUnlocked => {
            if !s.locked && s.count() > 0 {
                out.push(*s);
            }
        }
        Step::TryLock => {
            out.push(*s);
            if !s.locked && s.count() == 0 {
                let mut n = *s;
                n.locked = true;
                out.push(n);
            }
        }
        Step::RecoverEnd { owner, locked, strict } => {
            // a reported Locked is never stale (the lock marker is final); a reported Unlocked
            // may rest on a C11-stale read of the generation counter when `strict` is off
            let state_ok = if *locked { s.locked } else { !s.locked || !*strict };
            if state_ok && (!*strict || s.held.iter().all(|o| *o != *owner)) {
                out.push(*s);
            }
        }
        Step::Count { n, relaxed } => {
            let expect = if s.locked { 0 } else { s.count() };
            if *relaxed || *n == expect {
                out.push(*s);
            }
        }
        Step::Nop => out.push(*s),
    }
}

/// `evs`: (is_begin, thread, op id) in real-time order. Returns the possible final model states
/// or the id of the operation whose end event no configuration survives.
pub fn linearize(cap: usize, init: MState, ops: &[Vec<Step>], evs: &[(bool, usize, usize)]) -> Result<Vec<MState>, usize> {
    type Conf = (MState, [u8; MAXT]);
    let mut confs: BTreeSet<Conf> = BTreeSet::new();
    confs.insert((init, [0; MAXT]));
    let mut cur: [Option<usize>; MAXT] = [None; MAXT];
    let mut tmp = vec![];
    for (begin, t, op) in evs {
        if *begin {
            cur[*t] = Some(*op);
            // closure under firing enabled steps of pending operations
            let mut work: Vec<Conf> = confs.iter().cloned().collect();
            while let Some((s, prog)) = work.pop() {
                for th in 0..MAXT {
                    let Some(o) = cur[th] else { continue };
                    let p = prog[th] as usize;
                    if p >= ops[o].len() {
                        continue;
                    }
                    tmp.clear();
                    fire(&ops[o][p], &s, cap, &mut tmp);
                    for ns in tmp.drain(..) {
                        let mut np = prog;
                        np[th] += 1;
                        if confs.insert((ns, np)) {
                            work.push((ns, np));
                        }
                    }
                }
            }
        } else {
            let need = ops[*op].len() as u8;
            let next: BTreeSet<Conf> = confs
                .iter()
                .filter(|(_, p)| p[*t] == need)
                .map(|(s, p)| {
                    let mut p = *p;
                    p[*t] = 0;
                    (*s, p)
                })
                .collect();
            if next.is_empty() {
                return Err(*op);
            }
            confs = next;
            cur[*t] = None;
        }
    }
    let mut fin: Vec<MState> = confs.into_iter().map(|(s, _)| s).collect();
    fin.sort();
    fin.dedup();
    Ok(fin)
}
