//! Real-thread stress (no scheduler): fixed operation counts, ownership stamps in a side
//! array of std atomics. Every check is an invariant that cannot fail on a correct
//! implementation regardless of timing.

use crate::sut::{self, AcqErr, Sut};
use serde::{Deserialize, Serialize};
use std::sync::atomic::{AtomicBool, AtomicI64, AtomicU64, Ordering::SeqCst};
use std::sync::{Barrier, Mutex};
use vcore::rng::SplitMix;
use vcore::{Ctx, Failure, Obs, ensure};

#[derive(Clone, Debug, Serialize, Deserialize, Hash)]
pub struct StressCase {
    pub kind: u8,
    pub cap: u8,
    pub threads: u8,
    /// most indices a thread holds at a time
    pub k: u8,
    /// operations per thread in the churn phase
    pub ops: u32,
    /// index sets: finish with a lock-if-last race
    pub lock_phase: bool,
    pub seed: u64,
}

fn unpin() {
    unsafe {
        let mut set: libc::cpu_set_t = std::mem::zeroed();
        for c in 0..(libc::sysconf(libc::_SC_NPROCESSORS_CONF).max(1) as usize).min(1024) {
            libc::CPU_SET(c, &mut set);
        }
        libc::sched_setaffinity(0, std::mem::size_of::<libc::cpu_set_t>(), &set);
    }
}

struct Shared<'a> {
    s: &'a dyn Sut,
    cap: usize,
    stamps: Vec<AtomicU64>,
    held: AtomicI64,
    locked: AtomicBool,
    stop: AtomicBool,
    err: Mutex<Option<Failure>>,
    full_seen: AtomicU64,
    acquired: AtomicU64,
    locked_results: AtomicU64,
}

impl Shared<'_> {
    fn fail(&self, sig: &str, msg: String) {
        let mut e = self.err.lock().unwrap();
        if e.is_none() {
            *e = Some(Failure::new(sig, msg));
        }
        self.stop.store(true, SeqCst);
    }

    /// acquire with all checks; `may_fail`: a "full" answer is admissible
    fn acquire(&self, me: u64, mine: &mut Vec<usize>, may_fail: bool, lock_mode_in_use: bool) -> bool {
        let was_locked = self.locked.load(SeqCst);
        match self.s.acquire(1000 + me, (me % 4) as u8) {
            Ok(i) => {
                if i >= self.cap {
                    self.fail("index.range", format!("stress: acquired index {i} with capacity {}", self.cap));
                    return false;
                }
                let prev = self.stamps[i].swap(me, SeqCst);
                if prev != 0 {
                    self.fail("stress.exclusive", format!("stress: thread {me} acquired index {i} while thread {prev} still owns it"));
                    return false;
                }
                if was_locked {
                    self.fail("stress.acquire_after_lock", format!("stress: thread {me} acquired index {i} although a lock-if-last release had reported Locked before the call"));
                    return false;
                }
                self.held.fetch_add(1, SeqCst);
                self.acquired.fetch_add(1, SeqCst);
                mine.push(i);
                // Dekker pair with the check in release(): a completed Locked answer and a
                // completed, not yet released acquire exclude each other
                if self.locked.load(SeqCst) {
                    self.fail("stress.held_while_locked", format!("stress: thread {me} owns index {i} although a lock-if-last release has reported Locked"));
                    return false;
                }
                true
            }
            Err(AcqErr::Full) => {
                self.full_seen.fetch_add(1, SeqCst);
                if !may_fail {
                    self.fail("stress.spurious_full", format!("stress: thread {me}: acquire reported 'out of indices' although fewer than {} indices can be in use", self.cap));
                }
                false
            }
            Err(AcqErr::Locked) => {
                if !lock_mode_in_use {
                    self.fail("stress.spurious_locked", format!("stress: thread {me}: acquire reported 'locked' although lock-if-last was never used"));
                }
                false
            }
            Err(AcqErr::Bad(sig, m)) => {
                self.fail(sig, format!("stress: {m}"));
                false
            }
        }
    }

    fn release(&self, me: u64, idx: usize, lock: bool) {
        self.stamps[idx].store(0, SeqCst);
        self.held.fetch_sub(1, SeqCst);
        match self.s.release(idx, 1000 + me, lock) {
            Ok(false) => {}
            Ok(true) => {
                if !lock {
                    self.fail("release.locked_in_default_mode", format!("stress: thread {me}: default-mode release reported Locked"));
                    return;
                }
                self.locked_results.fetch_add(1, SeqCst);
                let h = self.held.load(SeqCst);
                if h > 0 {
                    self.fail("stress.locked_while_held", format!("stress: thread {me}: release reported Locked while {h} other indices are owned"));
                }
                self.locked.store(true, SeqCst);
            }
            Err(e) => self.fail("release.rejected", format!("stress: thread {me}: release of own index {idx} failed: {e}")),
        }
    }
}

pub fn run_stress(c: &StressCase, obs: &mut Obs) -> Result<(), Failure> {
    unpin();
    // lock races need a fresh structure each: split the operation budget over several
    let reps = if c.lock_phase && sut::has_lock(c.kind) { 16 } else { 1 };
    for rep in 0..reps {
        let part = StressCase { ops: (c.ops / reps).max(1), seed: c.seed.wrapping_add(rep as u64 * 7919), ..c.clone() };
        run_stress_once(&part, obs)?;
    }
    if c.lock_phase && sut::has_lock(c.kind) {
        lock_storm(c, obs)?;
    }
    Ok(())
}

fn new_shared<'a>(s: &'a dyn Sut, cap: usize) -> Shared<'a> {
    Shared {
        s,
        cap,
        stamps: (0..cap).map(|_| AtomicU64::new(0)).collect(),
        held: AtomicI64::new(0),
        locked: AtomicBool::new(false),
        stop: AtomicBool::new(false),
        err: Mutex::new(None),
        full_seen: AtomicU64::new(0),
        acquired: AtomicU64::new(0),
        locked_results: AtomicU64::new(0),
    }
}

/// Many fresh sets, visited by all threads in the same order without a barrier: on each one
/// the threads acquire and release with lock-if-last until it is locked. Every set gives one
/// race between the locking release and concurrent acquires.
fn lock_storm(c: &StressCase, obs: &mut Obs) -> Result<(), Failure> {
    let n = (c.ops / 16).clamp(50, 4000) as usize;
    let suts: Vec<Box<dyn Sut>> = (0..n).map(|_| sut::build(c.kind, c.cap as usize, 0, 0)).collect();
    let shs: Vec<Shared> = suts.iter().map(|s| new_shared(&**s, c.cap as usize)).collect();
    let t = c.threads as usize;
    let barrier = Barrier::new(t);
    std::thread::scope(|sc| {
        for th in 0..t {
            let shs = &shs;
            let barrier = &barrier;
            sc.spawn(move || {
                let me = th as u64 + 1;
                let mut rng = SplitMix::new(vcore::rng::mix(c.seed ^ 0x5157, me));
                let mut mine: Vec<usize> = vec![];
                barrier.wait();
                for sh in shs.iter() {
                    for _ in 0..48 {
                        if sh.stop.load(SeqCst) || sh.locked.load(SeqCst) {
                            break;
                        }
                        if sh.acquire(me, &mut mine, true, true) {
                            for _ in 0..rng.below(48) {
                                std::hint::spin_loop();
                            }
                            if rng.chance(1, 16) {
                                std::thread::yield_now();
                            }
                        }
                        if let Some(idx) = mine.pop() {
                            sh.release(me, idx, !rng.chance(1, 8));
                        }
                    }
                    while let Some(idx) = mine.pop() {
                        sh.release(me, idx, true);
                    }
                }
            });
        }
    });
    let mut locked_sets = 0u64;
    for sh in &shs {
        if let Some(f) = sh.err.lock().unwrap().take() {
            return Err(f);
        }
        let s = sh.s;
        if sh.locked_results.load(SeqCst) > 0 {
            locked_sets += 1;
            ensure!(s.is_locked(), "stress.lock_lost", "stress: a release reported Locked but the set is not locked afterwards");
            if c.kind == sut::KIND_PLAIN {
                ensure!(sh.locked_results.load(SeqCst) == 1, "stress.locked_results", "stress: {} releases reported Locked", sh.locked_results.load(SeqCst));
            }
            let r = s.acquire(1999, 0);
            ensure!(r == Err(AcqErr::Locked), "quiesce.acquire_after_lock", "stress: acquire on the locked set returned {r:?}");
        } else {
            ensure!(!s.is_locked(), "quiesce.lock_state", "stress: set is locked although no release reported Locked");
            ensure!(s.count() == 0, "quiesce.count", "stress: borrowed_indices() = {} after everything was released", s.count());
        }
    }
    if locked_sets > 0 {
        obs.class("stress_lock_storm");
    }
    Ok(())
}

fn run_stress_once(c: &StressCase, obs: &mut Obs) -> Result<(), Failure> {
    let s = sut::build(c.kind, c.cap as usize, (c.seed % 5) as u8, (c.seed % 4) as u8);
    let s: &dyn Sut = &*s;
    let cap = s.cap();
    ensure!(cap == c.cap as usize, "setup.capacity", "capacity {cap} != {}", c.cap);
    let t = c.threads as usize;
    let k = c.k as usize;
    let may_fail = cap < t * k;
    let sh = new_shared(s, cap);
    let lock_phase = c.lock_phase && sut::has_lock(c.kind);
    let barrier = Barrier::new(t);
    std::thread::scope(|sc| {
        for th in 0..t {
            let sh = &sh;
            let barrier = &barrier;
            sc.spawn(move || {
                let me = th as u64 + 1;
                let mut rng = SplitMix::new(vcore::rng::mix(c.seed, me));
                let mut mine: Vec<usize> = vec![];
                barrier.wait();
                // ---- churn, default release mode ----
                for n in 0..c.ops {
                    if sh.stop.load(SeqCst) {
                        break;
                    }
                    if mine.len() < k && (mine.is_empty() || rng.chance(1, 2)) {
                        sh.acquire(me, &mut mine, may_fail, false);
                    } else if !mine.is_empty() {
                        let idx = mine.swap_remove(rng.below(mine.len() as u64) as usize);
                        sh.release(me, idx, false);
                    }
                    if sut::has_count(c.kind) && n % 64 == 0 {
                        let b = sh.s.count();
                        if b > cap.min(t * k) {
                            sh.fail("stress.count", format!("stress: borrowed_indices() = {b} with capacity {cap}, {t} threads holding at most {k}"));
                        }
                    }
                }
                // ---- lock race: everybody drains with lock-if-last while some still acquire ----
                if lock_phase {
                    barrier.wait();
                    for _ in 0..(12 + rng.below(12)) {
                        if sh.stop.load(SeqCst) {
                            break;
                        }
                        if th % 2 == 0 && mine.len() < k {
                            sh.acquire(me, &mut mine, true, true);
                        }
                        if !mine.is_empty() && rng.chance(2, 3) {
                            let idx = mine.swap_remove(rng.below(mine.len() as u64) as usize);
                            sh.release(me, idx, true);
                        }
                    }
                }
                while let Some(idx) = mine.pop() {
                    sh.release(me, idx, lock_phase);
                }
            });
        }
    });
    if let Some(f) = sh.err.lock().unwrap().take() {
        return Err(f);
    }
    // ---- quiescence ----
    if lock_phase && sh.acquired.load(SeqCst) > 0 {
        ensure!(s.is_locked(), "stress.not_locked_after_last_release", "stress: every index was released with lock-if-last but the set is not locked ({} Locked results)", sh.locked_results.load(SeqCst));
        if c.kind == sut::KIND_PLAIN {
            ensure!(sh.locked_results.load(SeqCst) == 1, "stress.locked_results", "stress: {} releases reported Locked", sh.locked_results.load(SeqCst));
        }
        let r = s.acquire(1999, 0);
        ensure!(r == Err(AcqErr::Locked), "quiesce.acquire_after_lock", "stress: acquire on the locked set returned {r:?}");
        ensure!(s.count() == 0, "quiesce.count", "stress: borrowed_indices() = {} in a locked set", s.count());
    } else {
        ensure!(!s.is_locked(), "quiesce.lock_state", "stress: set is locked although lock-if-last was never used");
        if sut::has_count(c.kind) {
            ensure!(s.count() == 0, "quiesce.count", "stress: borrowed_indices() = {} after everything was released", s.count());
        }
        for round in 0..2 {
            let mut all = vec![];
            for _ in 0..cap {
                match s.acquire(1999, 0) {
                    Ok(i) => {
                        ensure!(i < cap && !all.contains(&i), "quiesce.duplicate", "stress: index {i} handed out twice / out of range after the run ({all:?})");
                        all.push(i);
                    }
                    Err(e) => vcore::fail!("quiesce.leak", "stress round {round}: only {} of {cap} indices can be acquired after the run ({e:?}): an index leaked", all.len()),
                }
            }
            let r = s.acquire(1999, 0);
            ensure!(r == Err(AcqErr::Full), "quiesce.overfull", "stress: acquire number {} returned {r:?}", cap + 1);
            for i in all {
                ensure!(s.release(i, 1999, false) == Ok(false), "quiesce.release", "stress: release after the run failed");
            }
        }
    }
    let acquired = sh.acquired.load(SeqCst);
    obs.nontrivial = t >= 2 && acquired >= 2 * cap as u64 + 2;
    if sh.full_seen.load(SeqCst) > 0 {
        obs.class("stress_out_of_indices");
    }
    if lock_phase {
        obs.class("stress_lock_race");
    }
    if !may_fail {
        obs.class("stress_failure_inadmissible_config");
    }
    Ok(())
}

pub const PART: &str = "stress";

pub fn stress_part(ctx: &mut Ctx) {
    if let Some(c) = ctx.replay_case::<StressCase>(PART) {
        // not bit-reproducible: repeat the configuration
        for i in 0..50u64 {
            let c = StressCase { seed: c.seed.wrapping_add(i), ..c.clone() };
            let mut obs = Obs::default();
            let r = Ctx::guarded(|| run_stress(&c, &mut obs));
            ctx.record(PART, i, &obs, || serde_json::to_value(&c).unwrap());
            if let Err(f) = r {
                ctx.violation(PART, &f, serde_json::to_value(&c).unwrap());
                return;
            }
        }
        return;
    }
    if ctx.replay.is_some() || !ctx.part_enabled(PART) {
        return;
    }
    let configs = ctx.share(ctx.scale(16 * 14, 16 * 60));
    let ops = ctx.scale(12_000u32, 40_000);
    let mut rng = ctx.rng(PART);
    let mut total_ops = 0u64;
    for _ in 0..configs {
        let kind = rng.below(4) as u8;
        let cap = rng.range(1, 4) as u8;
        // half of the configurations: failures are inadmissible (capacity >= threads * k)
        let (threads, k) = if rng.chance(1, 2) && cap >= 2 {
            let th = rng.range(2, cap as u64) as u8;
            (th, (cap / th).max(1))
        } else {
            (rng.range(2, 6) as u8, rng.range(1, 2) as u8)
        };
        let c = StressCase { kind, cap, threads, k, ops, lock_phase: rng.chance(1, 2), seed: rng.next() };
        let mut obs = Obs::default();
        let r = Ctx::guarded(|| run_stress(&c, &mut obs));
        total_ops += ops as u64 * threads as u64;
        ctx.record(PART, vcore::rng::hash_str(&format!("{c:?}")), &obs, || serde_json::to_value(&c).unwrap());
        if let Err(f) = r {
            ctx.violation(PART, &f, serde_json::to_value(&c).unwrap());
            if !ctx.is_open_finding(&f.signature) {
                break;
            }
        }
    }
    ctx.class("stress_operations", total_ops);
}
