//! Case type, interpreter under vsched, oracle, shrinking.

use crate::model::{self, MState, Step};
use crate::sut::{self, AcqErr, Sut};
use serde::{Deserialize, Serialize};
use std::sync::Mutex;
use std::sync::atomic::{AtomicBool, Ordering};
use vcore::sched::{self, Schedule};
use vcore::{Ctx, Failure, Obs, ensure, fail};

#[derive(Clone, Debug, Serialize, Deserialize, Hash, PartialEq)]
pub enum Op {
    /// acquire / allocate(request layout `req`)
    Acq { req: u8 },
    /// release / deallocate the k-th (mod number held) index this thread holds; skipped when
    /// it holds none. `lock` = ReleaseMode::LockIfLastIndex (index sets only)
    Rel { k: u8, lock: bool },
    /// robust set: recover the indices of `owner` (a thread with a larger id, after it has
    /// finished = "died"; any other value: the dead owner that acquired before the run)
    Recover { owner: u8, lock: bool },
    /// borrowed_indices() (index sets only)
    Count,
    /// allocators: a request the bucket layout cannot satisfy
    BadReq { which: u8 },
}

#[derive(Clone, Debug, Serialize, Deserialize, Hash)]
pub struct Case {
    /// 0 UniqueIndexSet, 1 RobustUniqueIndexSet, 2 bb PoolAllocator, 3 cal PoolAllocator
    pub kind: u8,
    pub cap: u8,
    /// robust set: indices acquired by a "dead" owner before the threads start
    pub dead: u8,
    /// allocators: bucket layout / start skew
    pub bucket: u8,
    pub skew: u8,
    pub progs: Vec<Vec<Op>>,
    pub sched: Schedule,
}

pub const DEAD_OWNER: u8 = 9;

fn owner_of(t: usize) -> u8 {
    t as u8 + 1
}
fn owner_value(o: u8) -> u64 {
    1000 + o as u64
}

#[derive(Clone, Debug, PartialEq)]
enum Call {
    Acq,
    Rel { idx: usize, lock: bool },
    Recover { owner: u8, lock: bool },
    Count,
    BadReq,
}

#[derive(Clone, Debug, PartialEq)]
enum Res {
    AcqOk(usize),
    AcqFull,
    AcqLocked,
    AcqBad(&'static str, String),
    /// locked?
    Rel(bool),
    RelErr(String),
    Recovered(Vec<usize>, bool),
    Count(usize),
    BadReq(Result<(), String>),
}

#[derive(Clone, Debug)]
enum Ev {
    Begin(Call),
    End(Res),
}

struct Shared {
    log: Mutex<Vec<(usize, Ev)>>,
    done: [AtomicBool; 3],
}

fn thread_body(s: &dyn Sut, kind: u8, sh: &Shared, t: usize, nthreads: usize, prog: &[Op]) {
    let me = owner_of(t);
    let mut mine: Vec<usize> = vec![];
    let log = |e: Ev| sh.log.lock().unwrap().push((t, e));
    for op in prog {
        match op {
            Op::Acq { req } => {
                log(Ev::Begin(Call::Acq));
                sched::op_begin();
                let r = s.acquire(owner_value(me), *req);
                sched::op_end();
                log(Ev::End(match r {
                    Ok(i) => {
                        mine.push(i);
                        Res::AcqOk(i)
                    }
                    Err(AcqErr::Full) => Res::AcqFull,
                    Err(AcqErr::Locked) => Res::AcqLocked,
                    Err(AcqErr::Bad(sig, m)) => Res::AcqBad(sig, m),
                }));
            }
            Op::Rel { k, lock } => {
                if mine.is_empty() {
                    continue;
                }
                let idx = mine.remove(*k as usize % mine.len());
                let lock = *lock && sut::has_lock(kind);
                log(Ev::Begin(Call::Rel { idx, lock }));
                sched::op_begin();
                let r = s.release(idx, owner_value(me), lock);
                sched::op_end();
                log(Ev::End(match r {
                    Ok(l) => Res::Rel(l),
                    Err(e) => Res::RelErr(e),
                }));
            }
            Op::Recover { owner, lock } => {
                if !sut::has_recover(kind) {
                    continue;
                }
                let target = if (*owner as usize) < nthreads {
                    let j = *owner as usize;
                    if j <= t {
                        continue; // only "later" threads: no waiting cycles
                    }
                    // the owner has to be dead: wait until that thread has finished
                    let flag = &sh.done[j];
                    if !sched::block_until(&|| flag.load(Ordering::SeqCst)) {
                        continue;
                    }
                    owner_of(j)
                } else {
                    DEAD_OWNER
                };
                log(Ev::Begin(Call::Recover { owner: target, lock: *lock }));
                sched::op_begin();
                let (got, locked) = s.recover(owner_value(target), *lock);
                sched::op_end();
                log(Ev::End(Res::Recovered(got, locked)));
            }
            Op::Count => {
                if !sut::has_count(kind) {
                    continue;
                }
                log(Ev::Begin(Call::Count));
                sched::op_begin();
                let n = s.count();
                sched::op_end();
                log(Ev::End(Res::Count(n)));
            }
            Op::BadReq { which } => {
                if !sut::is_alloc(kind) {
                    continue;
                }
                log(Ev::Begin(Call::BadReq));
                sched::op_begin();
                let r = s.bad_request(*which);
                sched::op_end();
                log(Ev::End(Res::BadReq(r)));
            }
        }
    }
    sh.done[t].store(true, Ordering::SeqCst);
}

pub struct Outcome {
    pub info: sched::RunInfo,
}

fn fmt_history(log: &[(usize, Ev)]) -> String {
    let mut s = String::new();
    for (t, e) in log {
        match e {
            Ev::Begin(c) => s.push_str(&format!(" T{t}:{c:?}(")),
            Ev::End(r) => s.push_str(&format!(" )T{t}={r:?}")),
        }
    }
    s
}

pub fn run_case(c: &Case, obs: &mut Obs) -> Result<Outcome, Failure> {
    let kind = c.kind;
    let nthreads = c.progs.len().clamp(1, 3);
    let s = sut::build(kind, c.cap as usize, c.bucket, c.skew);
    let s: &dyn Sut = &*s;
    let cap = s.cap();
    ensure!(cap == c.cap as usize, "setup.capacity", "{} built for {} indices reports capacity {}", sut::KIND_NAMES[kind as usize], c.cap, cap);
    // a dead owner's indices (acquired before the threads start)
    let mut init = MState::new();
    if sut::has_recover(kind) {
        for _ in 0..c.dead.min(c.cap) {
            match s.acquire(owner_value(DEAD_OWNER), 0) {
                Ok(i) if i < cap && init.held[i] == 0 => init.held[i] = DEAD_OWNER,
                other => fail!("setup.acquire", "sequential acquire before the run returned {other:?}"),
            }
        }
    }
    let sh = Shared { log: Mutex::new(vec![]), done: [AtomicBool::new(false), AtomicBool::new(false), AtomicBool::new(false)] };
    let shr = &sh;
    let bodies: Vec<Box<dyn FnOnce() + Send + '_>> = (0..nthreads)
        .map(|t| {
            let prog: &[Op] = c.progs.get(t).map(|p| &p[..]).unwrap_or(&[]);
            Box::new(move || thread_body(s, kind, shr, t, nthreads, prog)) as Box<dyn FnOnce() + Send + '_>
        })
        .collect();
    let info = sched::run(bodies, &c.sched);
    ensure!(info.panics.is_empty(), "panic", "thread panicked: {:?}", info.panics);
    ensure!(!info.deadlock, "deadlock", "lock-free code deadlocked (blocked: {:?})", info.blocked);
    if info.budget_exhausted {
        obs.discarded = true;
        return Ok(Outcome { info });
    }
    let log = sh.log.into_inner().unwrap();
    if std::env::var("C09_DEBUG").is_ok() {
        eprintln!("history:{}\ninfo {:?}", fmt_history(&log), info);
    }
    let hist = || fmt_history(&log);
    let stale = info.stale_reads > 0;

    // ---- direct checks: range, structure-level errors, exclusivity by ownership intervals ----
    let mut holder: [Option<usize>; model::MAXI] = [None; model::MAXI];
    for (i, o) in init.held.iter().enumerate() {
        if *o != 0 {
            holder[i] = Some(usize::MAX);
        }
    }
    let mut acquired_times = [0u32; model::MAXI];
    let mut saw_locked = false;
    let mut saw_full = false;
    let mut recovered_any = false;
    for (t, e) in &log {
        match e {
            Ev::End(Res::AcqBad(sig, m)) => fail!(*sig, "{m}; history:{}", hist()),
            Ev::End(Res::AcqOk(i)) => {
                ensure!(*i < cap, "index.range", "T{t} acquired index {i} from a set with capacity {cap}; history:{}", hist());
                if let Some(h) = holder[*i] {
                    fail!("exclusive.overlap", "T{t} acquired index {i} while {} still owned it; history:{}", if h == usize::MAX { "the dead owner".to_string() } else { format!("T{h}") }, hist());
                }
                holder[*i] = Some(*t);
                acquired_times[*i] += 1;
            }
            Ev::Begin(Call::Rel { idx, .. }) => holder[*idx] = None,
            Ev::Begin(Call::Recover { owner, .. }) => {
                // the recovered owner's ownership ends with the invocation of recover
                for h in holder.iter_mut() {
                    let of_owner = match *h {
                        Some(usize::MAX) => *owner == DEAD_OWNER,
                        Some(th) => owner_of(th) == *owner,
                        None => false,
                    };
                    if of_owner {
                        *h = None;
                    }
                }
            }
            Ev::End(Res::RelErr(m)) => fail!("release.rejected", "T{t}: release of an own index failed: {m}; history:{}", hist()),
            Ev::End(Res::BadReq(Err(m))) => fail!("alloc.bad_request", "T{t}: {m}"),
            Ev::End(Res::Rel(true)) | Ev::End(Res::AcqLocked) => saw_locked = true,
            Ev::End(Res::Recovered(got, l)) => {
                recovered_any |= !got.is_empty();
                saw_locked |= *l;
            }
            Ev::End(Res::AcqFull) => saw_full = true,
            _ => {}
        }
    }

    // ---- linearizability against the sequential specification ----
    let atomic_lock = kind != sut::KIND_ROBUST;
    // With a C11-stale read in the run "out of indices" is not checked. Plain set / allocators:
    // the answer itself may rest on a stale head word. Robust set: the answer is exact (the cells
    // are probed with RMWs) but it may have observed the cell of an acquire that has not yet
    // incremented the generation counter; a later relaxed scan (borrowed_indices, lock) of a
    // thread that has no happens-before edge to it may still miss that cell. The model cannot
    // see the harness-level synchronisation that orders the two calls in real time.
    let relax_full = stale;
    let mut ops: Vec<Vec<Step>> = vec![];
    let mut evs: Vec<(bool, usize, usize)> = vec![];
    let mut desc: Vec<(usize, Call, Res)> = vec![];
    let mut open: [Option<(usize, Call)>; 3] = [None, None, None];
    // results are attached to the begin events: find the end of each call first
    let mut end_of: Vec<Option<Res>> = vec![None; log.len()];
    {
        let mut pending: [Option<usize>; 3] = [None; 3];
        for (i, (t, e)) in log.iter().enumerate() {
            match e {
                Ev::Begin(_) => pending[*t] = Some(i),
                Ev::End(r) => end_of[pending[*t].take().unwrap()] = Some(r.clone()),
            }
        }
    }
    for (i, (t, e)) in log.iter().enumerate() {
        match e {
            Ev::Begin(call) => {
                let Some(res) = end_of[i].clone() else { continue }; // cannot happen: every thread finished
                let me = owner_of(*t);
                let steps = match (call, &res) {
                    (Call::Acq, Res::AcqOk(idx)) => vec![Step::Take { idx: *idx, owner: me }],
                    (Call::Acq, Res::AcqFull) => vec![Step::AllFull { relaxed: relax_full }],
                    (Call::Acq, Res::AcqLocked) => vec![Step::IsLocked],
                    (Call::Rel { idx, lock: false }, Res::Rel(false)) => vec![Step::Free { idx: *idx, owner: me }],
                    (Call::Rel { lock: false, .. }, Res::Rel(true)) => {
                        fail!("release.locked_in_default_mode", "T{t}: release in default mode reported Locked; history:{}", hist())
                    }
                    (Call::Rel { idx, lock: true }, Res::Rel(l)) => {
                        if atomic_lock {
                            vec![if *l { Step::FreeLockLast { idx: *idx, owner: me } } else { Step::FreeNotLast { idx: *idx, owner: me } }]
                        } else {
                            vec![Step::Free { idx: *idx, owner: me }, if *l { Step::QLocked } else { Step::QUnlocked }]
                        }
                    }
                    (Call::Recover { owner, lock }, Res::Recovered(got, l)) => {
                        let mut v = vec![];
                        for idx in got {
                            v.push(Step::RecoverFree { idx: *idx, owner: *owner, strict: !stale });
                            if *lock {
                                v.push(Step::TryLock);
                            }
                        }
                        v.push(Step::RecoverEnd { owner: *owner, locked: *l, strict: !stale });
                        v
                    }
                    (Call::Count, Res::Count(n)) => vec![Step::Count { n: *n, relaxed: stale && kind == sut::KIND_PLAIN }],
                    (Call::BadReq, _) => vec![Step::Nop],
                    _ => vec![Step::Nop],
                };
                let id = ops.len();
                ops.push(steps);
                desc.push((*t, call.clone(), res));
                open[*t] = Some((id, call.clone()));
                evs.push((true, *t, id));
            }
            Ev::End(_) => {
                if let Some((id, _)) = open[*t].take() {
                    evs.push((false, *t, id));
                }
            }
        }
    }
    let finals = match model::linearize(cap, init, &ops, &evs) {
        Ok(f) => f,
        Err(op) => {
            let (t, call, res) = &desc[op];
            let sig = match (call, res) {
                (Call::Acq, Res::AcqOk(_)) => "lin.acquire_ok",
                (Call::Acq, Res::AcqFull) => "lin.out_of_indices",
                (Call::Acq, Res::AcqLocked) => "lin.is_locked",
                (Call::Rel { .. }, Res::Rel(true)) => "lin.release_locked",
                (Call::Rel { lock: true, .. }, Res::Rel(false)) => "lin.release_unlocked",
                (Call::Rel { .. }, _) => "lin.release",
                (Call::Recover { .. }, _) => "lin.recover",
                (Call::Count, _) => "lin.count",
                _ => "lin.other",
            };
            // Known finding (robust set): "out of indices" that counted the cell of a concurrent
            // acquire which afterwards lost against a lock (IsLocked). Classified exactly: the
            // history must become linearizable when only the "out of indices" answers that
            // overlap such an acquire are exempted.
            if kind == sut::KIND_ROBUST && sig == "lin.out_of_indices" {
                let pos = |id: usize, begin: bool| evs.iter().position(|e| e.0 == begin && e.2 == id).unwrap();
                let lost: Vec<usize> = (0..desc.len()).filter(|i| matches!(desc[*i], (_, Call::Acq, Res::AcqLocked))).collect();
                let mut relaxed_ops = ops.clone();
                let mut any = false;
                for f in 0..desc.len() {
                    if matches!(desc[f], (_, Call::Acq, Res::AcqFull)) && lost.iter().any(|l| pos(*l, true) < pos(f, false) && pos(f, true) < pos(*l, false)) {
                        relaxed_ops[f] = vec![Step::AllFull { relaxed: true }];
                        any = true;
                    }
                }
                if any && model::linearize(cap, init, &relaxed_ops, &evs).is_ok() {
                    fail!("lin.out_of_indices.pending_acquire_lost_to_lock", "T{t}: acquire reported 'out of indices' although no index is owned: the only free cell was occupied by a concurrent acquire that then failed with IsLocked ({}, capacity {cap}); history:{}", sut::KIND_NAMES[kind as usize], hist());
                }
            }
            fail!(sig, "no linearization explains T{t}:{call:?} -> {res:?} ({}, capacity {cap}); history:{}", sut::KIND_NAMES[kind as usize], hist());
        }
    };

    // ---- quiescence: count, no leak, lock state ----
    let base = finals[0];
    ensure!(finals.iter().all(|f| f.held == base.held), "internal.model", "final model states disagree: {finals:?}");
    let leftover: Vec<(usize, u8)> = base.held.iter().enumerate().filter(|(_, o)| **o != 0).map(|(i, o)| (i, *o)).collect();
    let real_locked = s.is_locked();
    ensure!(finals.iter().any(|f| f.locked == real_locked), "quiesce.lock_state", "is_locked() = {real_locked} after the run but the history implies {:?}; history:{}", finals.iter().map(|f| f.locked).collect::<Vec<_>>(), hist());
    if real_locked {
        ensure!(leftover.is_empty(), "quiesce.locked_while_held", "set is locked but {leftover:?} are still held; history:{}", hist());
        ensure!(s.count() == 0, "quiesce.count", "borrowed_indices() = {} in a locked set", s.count());
        let r = s.acquire(owner_value(7), 0);
        ensure!(r == Err(AcqErr::Locked), "quiesce.acquire_after_lock", "acquire on the locked set returned {r:?}; history:{}", hist());
    } else {
        if sut::has_count(kind) {
            ensure!(s.count() == leftover.len(), "quiesce.count", "borrowed_indices() = {} but {} indices are held ({leftover:?}); history:{}", s.count(), leftover.len(), hist());
        }
        let mut all: Vec<(usize, u8)> = leftover.clone();
        for round in 0..2 {
            while all.len() < cap {
                match s.acquire(owner_value(7), 0) {
                    Ok(i) => {
                        ensure!(i < cap, "index.range", "acquired index {i} with capacity {cap} after the run");
                        ensure!(all.iter().all(|(j, _)| *j != i), "quiesce.duplicate", "after the run index {i} was handed out although it is held ({all:?}); history:{}", hist());
                        all.push((i, 7));
                    }
                    Err(e) => {
                        fail!("quiesce.leak", "round {round}: only {} of {cap} indices can be held after the run ({all:?}), acquire returned {e:?}: an index leaked; history:{}", all.len(), hist())
                    }
                }
            }
            let r = s.acquire(owner_value(7), 0);
            ensure!(r == Err(AcqErr::Full), "quiesce.overfull", "acquire number {} on capacity {cap} returned {r:?}; history:{}", cap + 1, hist());
            for (i, o) in all.drain(..) {
                let r = s.release(i, owner_value(o), false);
                ensure!(r == Ok(false), "quiesce.release", "release({i}) after the run returned {r:?}");
            }
            if sut::has_count(kind) {
                ensure!(s.count() == 0, "quiesce.count", "borrowed_indices() = {} after everything was released; history:{}", s.count(), hist());
            }
        }
    }

    // ---- observations ----
    obs.class(sut::KIND_NAMES[kind as usize]);
    let twice = acquired_times.iter().any(|n| *n >= 2);
    obs.nontrivial = info.cas_fail > 0 && twice;
    if info.cas_fail > 0 {
        obs.class("cas_fail");
    }
    if twice {
        obs.class("index_acquired_twice");
    }
    if aba_shape(&log) {
        obs.class("aba_shape");
    }
    if saw_locked {
        obs.class("locked");
    }
    if recovered_any {
        obs.class("recover");
    }
    if saw_full {
        obs.class("out_of_indices");
    }
    if info.preempt_inside {
        obs.class("preempted_inside_op");
    }
    if stale {
        obs.class("with_stale_read");
    }
    Ok(Outcome { info })
}

/// While one thread was inside an acquire, other threads completed at least one release and
/// one successful acquire (the free-list head moved away and back).
fn aba_shape(log: &[(usize, Ev)]) -> bool {
    for (i, (t, e)) in log.iter().enumerate() {
        if let Ev::Begin(Call::Acq) = e {
            let (mut rel, mut acq) = (false, false);
            for (t2, e2) in &log[i + 1..] {
                if t2 == t {
                    break;
                }
                match e2 {
                    Ev::End(Res::Rel(_)) => rel = true,
                    Ev::End(Res::AcqOk(_)) => acq = true,
                    _ => {}
                }
            }
            if rel && acq {
                return true;
            }
        }
    }
    false
}

pub fn key(c: &Case) -> u64 {
    vcore::rng::hash_str(&format!("{c:?}"))
}

fn shrinks(c: &Case) -> Vec<Case> {
    let mut out = vec![];
    for s in sched::shrink_schedule(&c.sched) {
        out.push(Case { sched: s, ..c.clone() });
    }
    if c.sched.stale.last() == Some(&0) {
        let mut n = c.clone();
        while n.sched.stale.last() == Some(&0) {
            n.sched.stale.pop();
        }
        out.push(n);
    }
    // drop a whole trailing thread, then single operations
    if c.progs.len() > 2 {
        let mut n = c.clone();
        n.progs.pop();
        out.push(n);
    }
    for t in 0..c.progs.len() {
        for i in (0..c.progs[t].len()).rev() {
            let mut n = c.clone();
            n.progs[t].remove(i);
            out.push(n);
        }
    }
    if c.dead > 0 {
        out.push(Case { dead: c.dead - 1, ..c.clone() });
    }
    if c.cap > 1 {
        out.push(Case { cap: c.cap - 1, ..c.clone() });
    }
    if c.skew > 0 {
        out.push(Case { skew: 0, ..c.clone() });
    }
    if c.bucket > 0 {
        out.push(Case { bucket: 0, ..c.clone() });
    }
    // simpler operations
    for t in 0..c.progs.len() {
        for i in 0..c.progs[t].len() {
            let simpler = match &c.progs[t][i] {
                Op::Rel { k, lock } if *k > 0 || *lock => Some(Op::Rel { k: 0, lock: if *k > 0 { *lock } else { false } }),
                Op::Acq { req } if *req > 0 => Some(Op::Acq { req: 0 }),
                Op::Recover { owner, lock: true } => Some(Op::Recover { owner: *owner, lock: false }),
                _ => None,
            };
            if let Some(o) = simpler {
                let mut n = c.clone();
                n.progs[t][i] = o;
                out.push(n);
            }
        }
    }
    // earlier preemption points
    for i in 0..c.sched.preempt.len() {
        let (y, t) = c.sched.preempt[i];
        let lo = if i == 0 { 1 } else { c.sched.preempt[i - 1].0 + 1 };
        if y > lo {
            let mut n = c.clone();
            n.sched.preempt[i] = (y - 1, t);
            out.push(n);
        }
    }
    out
}

/// Runs a case; on failure shrinks it and files the violation. Returns false on a new violation.
pub fn exec(ctx: &mut Ctx, part: &str, c: &Case) -> (bool, Option<sched::RunInfo>) {
    let mut obs = Obs::default();
    let r = Ctx::guarded(|| run_case(c, &mut obs));
    ctx.record(part, key(c), &obs, || serde_json::to_value(c).unwrap());
    match r {
        Ok(o) => (true, Some(o.info)),
        Err(f) => {
            if ctx.is_open_finding(&f.signature) || ctx.replay.is_some() {
                ctx.violation(part, &f, serde_json::to_value(c).unwrap());
                return (ctx.is_open_finding(&f.signature), None);
            }
            let sig = f.signature.clone();
            let min = vcore::shrink::greedy(
                c.clone(),
                shrinks,
                |cand| matches!(Ctx::guarded(|| run_case(cand, &mut Obs::default()).map(|_| ())), Err(ff) if ff.signature == sig),
                600,
            );
            let fin = Ctx::guarded(|| run_case(&min, &mut Obs::default()).map(|_| ())).err().unwrap_or(f);
            ctx.violation(part, &fin, serde_json::to_value(&min).unwrap());
            (false, None)
        }
    }
}
