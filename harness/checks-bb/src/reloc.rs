//! A structure placed the way shared memory does it: header `T` and its payload in one
//! block; `relocate` copies the block byte-for-byte to a fresh address and poisons the
//! old one (0xA5) before freeing it.

use iceoryx2_bb_elementary::bump_allocator::BumpAllocator;
use iceoryx2_bb_elementary_traits::relocatable_container::RelocatableContainer;
use std::alloc::Layout;
use std::ptr::NonNull;

pub const BLOCK_ALIGN: usize = 128;

pub struct Block<T> {
    ptr: *mut u8,
    size: usize,
    pub relocations: usize,
    /// blocks kept alive (poisoned) so that no later allocation can land on an old address
    graveyard: Vec<(*mut u8, usize)>,
    _t: std::marker::PhantomData<T>,
}

fn header_size<T>() -> usize {
    let s = core::mem::size_of::<T>();
    (s + 63) / 64 * 64
}

impl<T: RelocatableContainer> Block<T> {
    /// `new_uninit(capacity)` at the start of the block, `init` with a bump allocator over the tail.
    pub fn new(capacity: usize) -> Self {
        Self::try_new(capacity).expect("block is large enough")
    }

    /// like `new`, but hands the allocation error of `init` to the caller (a capacity of 0 is
    /// refused by the bump allocator with `SizeIsZero` for most structures)
    pub fn try_new(capacity: usize) -> Result<Self, iceoryx2_bb_elementary_traits::allocator::AllocationError> {
        assert!(core::mem::align_of::<T>() <= BLOCK_ALIGN);
        let payload = T::memory_size(capacity) + 64;
        let size = header_size::<T>() + payload;
        let ptr = unsafe { std::alloc::alloc(Layout::from_size_align(size, BLOCK_ALIGN).unwrap()) };
        assert!(!ptr.is_null());
        unsafe { std::ptr::write_bytes(ptr, 0x5A, size) };
        unsafe {
            (ptr as *mut T).write(T::new_uninit(capacity));
            let alloc = BumpAllocator::new(NonNull::new(ptr.add(header_size::<T>())).unwrap(), payload);
            if let Err(e) = (*(ptr as *mut T)).init(&alloc) {
                std::alloc::dealloc(ptr, Layout::from_size_align(size, BLOCK_ALIGN).unwrap());
                return Err(e);
            }
        }
        Ok(Block { ptr, size, relocations: 0, graveyard: vec![], _t: std::marker::PhantomData })
    }
}

impl<T> Block<T> {
    /// raw block for structures that are constructed differently
    pub fn raw(size: usize) -> Self {
        let size = size.max(64);
        let ptr = unsafe { std::alloc::alloc(Layout::from_size_align(size, BLOCK_ALIGN).unwrap()) };
        assert!(!ptr.is_null());
        unsafe { std::ptr::write_bytes(ptr, 0x5A, size) };
        Block { ptr, size, relocations: 0, graveyard: vec![], _t: std::marker::PhantomData }
    }

    pub fn base(&self) -> *mut u8 {
        self.ptr
    }

    pub fn size(&self) -> usize {
        self.size
    }

    pub fn payload_start(&self) -> *mut u8 {
        unsafe { self.ptr.add(header_size::<T>()) }
    }

    #[allow(clippy::mut_from_ref)]
    pub fn get(&self) -> &mut T {
        unsafe { &mut *(self.ptr as *mut T) }
    }

    /// Moves the bytes to a different address; the old block is filled with 0xA5 and kept
    /// allocated until the block is dropped (so the new address is guaranteed to differ
    /// from every earlier one).
    pub fn relocate(&mut self) {
        let layout = Layout::from_size_align(self.size, BLOCK_ALIGN).unwrap();
        let fresh = unsafe { std::alloc::alloc(layout) };
        assert!(!fresh.is_null() && fresh != self.ptr);
        unsafe {
            std::ptr::copy_nonoverlapping(self.ptr, fresh, self.size);
            std::ptr::write_bytes(self.ptr, 0xA5, self.size);
        }
        self.graveyard.push((self.ptr, self.size));
        if self.graveyard.len() > 8 {
            let (p, s) = self.graveyard.remove(0);
            unsafe { std::alloc::dealloc(p, Layout::from_size_align(s, BLOCK_ALIGN).unwrap()) };
        }
        self.ptr = fresh;
        self.relocations += 1;
    }

    /// Drops the structure in place (call once, at the end of a case).
    pub fn drop_in_place(&mut self) {
        unsafe { std::ptr::drop_in_place(self.ptr as *mut T) };
    }
}

impl<T> Drop for Block<T> {
    fn drop(&mut self) {
        unsafe {
            std::alloc::dealloc(self.ptr, Layout::from_size_align(self.size, BLOCK_ALIGN).unwrap());
            for (p, s) in self.graveyard.drain(..) {
                std::alloc::dealloc(p, Layout::from_size_align(s, BLOCK_ALIGN).unwrap());
            }
        }
    }
}
