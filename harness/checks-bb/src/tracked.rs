//! `Tracked`: element type with drop accounting. Every instance has a unique id; the side
//! table (thread local) counts drops per id; a dropped instance is poisoned so that a later
//! observation is detectable.

use std::cell::RefCell;

const ALIVE: u32 = 0x600D_F00D;
const DEAD: u32 = 0xDEAD_DEAD;

thread_local! {
    static TABLE: RefCell<Table> = RefCell::new(Table::default());
}

#[derive(Default)]
struct Table {
    drops: Vec<u8>,
    poisoned_seen: u64,
}

#[repr(C)]
pub struct Tracked {
    marker: u32,
    id: u32,
    val: u8,
}

impl Tracked {
    pub fn new(val: u8) -> Self {
        let id = TABLE.with(|t| {
            let mut t = t.borrow_mut();
            t.drops.push(0);
            (t.drops.len() - 1) as u32
        });
        Tracked { marker: ALIVE, id, val }
    }

    /// value of the element; notes when a poisoned (already dropped) element is observed
    pub fn val(&self) -> u8 {
        if self.marker != ALIVE {
            TABLE.with(|t| t.borrow_mut().poisoned_seen += 1);
        }
        self.val
    }

    /// overwrites the value through a mutable reference handed out by a container
    pub fn set_val(&mut self, val: u8) {
        if self.marker != ALIVE {
            TABLE.with(|t| t.borrow_mut().poisoned_seen += 1);
        }
        self.val = val;
    }
}

impl Clone for Tracked {
    fn clone(&self) -> Self {
        Tracked::new(self.val())
    }
}

impl PartialEq for Tracked {
    fn eq(&self, o: &Self) -> bool {
        self.val() == o.val()
    }
}

/// `val()` equality is reflexive, symmetric and transitive (flat map keys need `Eq`)
impl Eq for Tracked {}

impl core::fmt::Debug for Tracked {
    fn fmt(&self, f: &mut core::fmt::Formatter<'_>) -> core::fmt::Result {
        write!(f, "T{}", self.val)
    }
}

impl Drop for Tracked {
    fn drop(&mut self) {
        if self.marker != ALIVE {
            TABLE.with(|t| t.borrow_mut().poisoned_seen += 1);
        }
        self.marker = DEAD;
        let id = self.id as usize;
        TABLE.with(|t| {
            let mut t = t.borrow_mut();
            if id < t.drops.len() {
                t.drops[id] = t.drops[id].saturating_add(1);
            }
        });
    }
}

/// Starts a new accounting epoch (call at the begin of a case).
pub fn reset() {
    TABLE.with(|t| *t.borrow_mut() = Table::default());
}

/// End of case: every created element must have been dropped exactly once and no poisoned
/// element may have been observed.
pub fn verdict() -> Result<(), String> {
    TABLE.with(|t| {
        let t = t.borrow();
        if t.poisoned_seen > 0 {
            return Err(format!("{} observations of an already dropped element", t.poisoned_seen));
        }
        let leaked = t.drops.iter().filter(|c| **c == 0).count();
        let double = t.drops.iter().filter(|c| **c > 1).count();
        if leaked > 0 || double > 0 {
            return Err(format!("{} of {} elements never dropped, {} dropped more than once", leaked, t.drops.len(), double));
        }
        Ok(())
    })
}

pub fn created() -> usize {
    TABLE.with(|t| t.borrow().drops.len())
}
