//! slot map family: FixedSizeSlotMap<T,N>, SlotMap, RelocatableSlotMap
use crate::families::{CAPS, Case, begin, finish, note_reloc};
use crate::models::slotmap::*;
use crate::models::{Known, direct, op_sequences};
use crate::reloc::Block;
use crate::tracked::Tracked;
use iceoryx2_bb_container::slotmap::{FixedSizeSlotMap, RelocatableSlotMap, SlotMap, SlotMapKey};
use proptest::prelude::*;
use serde_json::json;
use std::cell::RefCell;
use vcore::{Ctx, Failure, Obs, ensure};

pub fn run_case(c: &Case<SOp>, obs: &mut Obs, known: &Known) -> Result<(), Failure> {
    begin(known);
    let mut nohook = |_: usize| {};
    macro_rules! fixed {
        ($n:literal) => {{
            let mut s = FixedSizeSlotMap::<Tracked, $n>::new();
            run_slotmap_ops(&mut direct(&mut s), c.cap, &c.ops, &mut nohook, obs, known)
        }};
    }
    let r = match c.flavour {
        0 => match c.cap {
            0 => {
                obs.class("slotmap.fixed_capacity_zero_skipped");
                Ok(())
            }
            1 => fixed!(1),
            2 => fixed!(2),
            3 => fixed!(3),
            4 => fixed!(4),
            16 => fixed!(16),
            64 => fixed!(64),
            _ => unreachable!(),
        },
        1 => {
            let mut s = SlotMap::<Tracked>::new(c.cap);
            run_slotmap_ops(&mut direct(&mut s), c.cap, &c.ops, &mut nohook, obs, known)
        }
        _ => match Block::<RelocatableSlotMap<Tracked>>::try_new(c.cap) {
            Ok(b) => {
                let cell = RefCell::new(b);
                let r = {
                    let mut fetch = || unsafe { &mut *(cell.borrow().base() as *mut RelocatableSlotMap<Tracked>) };
                    let mut hook = crate::reloc_hook!(cell, c.reloc);
                    run_slotmap_ops(&mut fetch, c.cap, &c.ops, &mut hook, obs, known)
                };
                let mut b = cell.into_inner();
                note_reloc(obs, b.relocations);
                b.drop_in_place();
                r
            }
            Err(e) => {
                ensure!(c.cap == 0, "slotmap.relocatable_init", "RelocatableSlotMap::init({}) failed: {e:?}", c.cap);
                obs.class("slotmap.relocatable_capacity_zero_refused");
                Ok(())
            }
        },
    };
    finish("slotmap", known, r)
}

/// dedicated minimal cases for the known-finding signatures (reported as KNOWN-FINDING while open)
fn probes(ctx: &mut Ctx) {
    let part = "slotmap.probes";
    if !ctx.part_enabled(part) || ctx.replay.is_some() || ctx.worker != 0 {
        return;
    }
    // insert_at on the head of the free list, then insert: the occupied key is handed out again
    let observed = Ctx::guarded(|| {
        let mut s = SlotMap::<u8>::new(3);
        let head = s.next_free_key().unwrap();
        s.insert_at(head, 1);
        let k = s.insert(2);
        Ok(if k == Some(head) || s.len() != 2 { Some(format!("capacity 3: insert_at({head:?}) then insert() returned {k:?}, len {} (expected a different key and len 2)", s.len())) } else { None })
    })
    .unwrap_or_else(|f| Some(f.message));
    ctx.probe_finding(part, SIG_INSERT_AT_FREE_LIST, observed, json!({"capacity": 3, "ops": ["insert_at(next_free_key())", "insert"]}));
    let observed = Ctx::guarded(|| {
        let mut s = SlotMap::<u8>::new(2);
        Ok(if s.insert_at(SlotMapKey::new(2), 1) { Some("insert_at(capacity) returned true".to_string()) } else { None })
    })
    .unwrap_or_else(|f| Some(format!("capacity 2: insert_at(SlotMapKey(2)): {}", f.message)));
    ctx.probe_finding(part, SIG_KEY_EQ_CAPACITY, observed, json!({"capacity": 2, "ops": ["insert_at(2)"]}));
    let observed = Ctx::guarded(|| {
        let mut s = SlotMap::<u8>::new(0);
        let nk = s.next_free_key();
        let r = s.insert(1);
        Ok(if nk.is_some() || r.is_some() { Some(format!("capacity 0: next_free_key() = {nk:?}, insert = {r:?}")) } else { None })
    })
    .unwrap_or_else(|f| Some(format!("capacity 0: insert: {}", f.message)));
    ctx.probe_finding(part, SIG_CAPACITY_ZERO, observed, json!({"capacity": 0, "ops": ["insert"]}));
}

pub fn parts(ctx: &mut Ctx) {
    let known = Known::from_ctx(ctx, SIGNATURES);
    probes(ctx);
    let alphabet = sop_alphabet();
    let len = ctx.scale(6, 7);
    let grid = crate::families::combos(3, |f, c| f != 1 && c == 0);
    let cases = grid.iter().copied().flat_map(|(flavour, cap)| {
        op_sequences(&alphabet, len).map(move |ops| Case { flavour, cap, reloc: 0, ops })
    });
    ctx.enumerate(
        "slotmap.exhaustive",
        &format!("all op sequences of length {len} (every prefix checked) over a {}-op alphabet, 3 flavours, capacities 0..3 ({} constructible combinations)", alphabet.len(), grid.len()),
        cases,
        |c, obs| run_case(c, obs, &known),
    );
    let strat = |lo: usize, hi: usize, min_cap: usize| {
        (0u8..3, min_cap..CAPS.len(), 0u8..8, proptest::collection::vec(sop_strategy(), lo..hi))
            .prop_map(|(flavour, ci, reloc, ops)| Case { flavour, cap: CAPS[ci], reloc: if reloc < 4 { 0 } else { reloc }, ops })
    };
    ctx.proptest("slotmap.random", ctx.scale(64_000, 1_500_000), strat(0, 200, 0), |c, obs| run_case(c, obs, &known));
    ctx.proptest("slotmap.long", ctx.scale(32, 800), strat(5000, 10000, 3), |c, obs| run_case(c, obs, &known));
    known.flush(ctx);
}
