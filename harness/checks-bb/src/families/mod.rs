//! Container families of C16 (and the fuzz targets): flavour / capacity dispatch of every family
//! onto the interpreters of `crate::models`, plus the parts each family contributes to C16.
pub mod flatmaps;
pub mod options;
pub mod queues;
pub mod semantics;
pub mod slotmaps;
pub mod strings;
pub mod vecs;

use crate::models::Known;
use crate::tracked;
use serde::{Deserialize, Serialize};
use vcore::{Failure, Obs};

pub const CAPS: [usize; 7] = [0, 1, 2, 3, 4, 16, 64];

/// flavours: 0 = inline fixed-size, 1 = heap-backed / polymorphic, 2 = relocatable in a `Block`
#[derive(Clone, Debug, Serialize, Deserialize)]
pub struct Case<O> {
    pub flavour: u8,
    pub cap: usize,
    /// relocatable flavour only: move the memory block after every n-th op (0 = never)
    pub reloc: u8,
    pub ops: Vec<O>,
}

/// dispatch of a run-time capacity onto the instantiated const generics
#[macro_export]
macro_rules! with_cap {
    ($cap:expr, $n:ident, $body:block) => {
        match $cap {
            0 => {
                const $n: usize = 0;
                $body
            }
            1 => {
                const $n: usize = 1;
                $body
            }
            2 => {
                const $n: usize = 2;
                $body
            }
            3 => {
                const $n: usize = 3;
                $body
            }
            4 => {
                const $n: usize = 4;
                $body
            }
            16 => {
                const $n: usize = 16;
                $body
            }
            64 => {
                const $n: usize = 64;
                $body
            }
            _ => unreachable!("capacity not instantiated"),
        }
    };
}

/// end of a case with `Tracked` elements: the interpreter's result, then the drop accounting,
/// then a tolerated known-finding hit (so that it is counted)
pub fn finish(family: &str, known: &Known, r: Result<(), Failure>) -> Result<(), Failure> {
    r?;
    tracked::verdict().map_err(|e| Failure::new(format!("{family}.drop_accounting"), e))?;
    known.take_hit()
}

pub fn begin(known: &Known) {
    tracked::reset();
    known.begin_case();
}

/// relocation hook for a `RefCell<Block<_>>`
#[macro_export]
macro_rules! reloc_hook {
    ($cell:expr, $every:expr) => {
        |step: usize| {
            if $every != 0 && (step + 1) % ($every as usize) == 0 {
                $cell.borrow_mut().relocate();
            }
        }
    };
}

/// (flavour, capacity) grid of the bounded-exhaustive parts, without the combinations that cannot
/// be constructed (those are still visited by the random parts, which show the refusal)
pub fn combos(nflavours: u8, unusable: impl Fn(u8, usize) -> bool) -> Vec<(u8, usize)> {
    let mut v = vec![];
    for flavour in 0..nflavours {
        for cap in 0..=3usize {
            if !unusable(flavour, cap) {
                v.push((flavour, cap));
            }
        }
    }
    v
}

pub fn note_reloc(obs: &mut Obs, relocations: usize) {
    if relocations > 0 {
        obs.class("relocated_mid_history");
    }
}

