//! string family: StaticString<N>, PolymorphicString (allocator handing out non-zeroed memory),
//! RelocatableString
use crate::families::{CAPS, Case, note_reloc};
use crate::models::string::*;
use crate::models::{Known, direct, op_sequences};
use crate::reloc::Block;
use iceoryx2_bb_container::string::{PolymorphicString, RelocatableString, StaticString, String as IoxString};
use proptest::prelude::*;
use serde_json::json;
use std::cell::RefCell;
use std::cmp::Ordering;
use vcore::{Ctx, Failure, Obs, ensure};

static DIRTY: DirtyHeap = DirtyHeap;

pub fn run_case(c: &Case<StrOp>, obs: &mut Obs, known: &Known) -> Result<(), Failure> {
    known.begin_case();
    let mut nohook = |_: usize| {};
    macro_rules! fixed {
        ($n:literal) => {{
            let mut s = StaticString::<$n>::new();
            let mut cmp = |s: &StaticString<$n>, other: &[u8]| -> Option<(Ordering, bool)> {
                let o = StaticString::<$n>::from_bytes(other).ok()?;
                Some((s.cmp(&o), *s == o))
            };
            run_string_ops(&mut direct(&mut s), c.cap, true, &c.ops, &mut cmp, &mut nohook, obs, known)
        }};
    }
    let r = match c.flavour {
        0 => match c.cap {
            // StaticString<0> does not compile (`new` writes data[0] in a const context)
            0 => {
                obs.class("string.static_capacity_zero_skipped");
                Ok(())
            }
            1 => fixed!(1),
            2 => fixed!(2),
            3 => fixed!(3),
            4 => fixed!(4),
            16 => fixed!(16),
            64 => fixed!(64),
            _ => unreachable!(),
        },
        1 => {
            let mut s = PolymorphicString::new(&DIRTY, c.cap).map_err(|e| Failure::new("string.polymorphic_new", format!("{e:?}")))?;
            let cap = c.cap;
            let mut cmp = |s: &PolymorphicString<DirtyHeap>, other: &[u8]| -> Option<(Ordering, bool)> {
                let mut o = PolymorphicString::new(&DIRTY, cap).ok()?;
                o.push_bytes(other).ok()?;
                Some((s.cmp(&o), *s == o))
            };
            run_string_ops(&mut direct(&mut s), c.cap, false, &c.ops, &mut cmp, &mut nohook, obs, known)
        }
        _ => {
            let b = Block::<RelocatableString>::try_new(c.cap).map_err(|e| Failure::new("string.relocatable_init", format!("{e:?}")))?;
            let cell = RefCell::new(b);
            let cap = c.cap;
            let r = {
                let mut fetch = || unsafe { &mut *(cell.borrow().base() as *mut RelocatableString) };
                let mut hook = crate::reloc_hook!(cell, c.reloc);
                let mut cmp = |s: &RelocatableString, other: &[u8]| -> Option<(Ordering, bool)> {
                    let ob = Block::<RelocatableString>::try_new(cap).ok()?;
                    ob.get().push_bytes(other).ok()?;
                    Some((s.cmp(ob.get()), *s == *ob.get()))
                };
                run_string_ops(&mut fetch, c.cap, false, &c.ops, &mut cmp, &mut hook, obs, known)
            };
            note_reloc(obs, cell.borrow().relocations);
            r
        }
    };
    r?;
    known.take_hit()
}

fn probes(ctx: &mut Ctx) {
    let part = "string.probes";
    if !ctx.part_enabled(part) || ctx.replay.is_some() || ctx.worker != 0 {
        return;
    }
    let observed = Ctx::guarded(|| {
        let mut s = StaticString::<4>::from_bytes(b"ab").unwrap();
        let r = s.remove(2);
        Ok(if r.is_some() { Some(format!("StaticString<4> \"ab\": remove(2) returned {r:?}, expected None")) } else { None })
    })
    .unwrap_or_else(|f| Some(f.message));
    ctx.probe_finding(part, SIG_REMOVE_AT_LEN, observed, json!({"capacity": 4, "content": "ab", "op": "remove(2)"}));
    let observed = Ctx::guarded(|| {
        let mut s = StaticString::<2>::from_bytes(b"ab").unwrap();
        let r = s.strip_prefix(b"");
        ensure!(r, "x", "strip_prefix(b\"\") returned false");
        Ok(None)
    })
    .unwrap_or_else(|f| Some(format!("full StaticString<2> \"ab\": strip_prefix(b\"\"): {}", f.message)));
    ctx.probe_finding(part, SIG_EMPTY_RANGE_WHEN_FULL, observed, json!({"capacity": 2, "content": "ab", "op": "strip_prefix(b\"\")"}));
    let observed = Ctx::guarded(|| {
        let b = Block::<RelocatableString>::try_new(2).unwrap();
        b.get().push_bytes(b"ab").unwrap();
        let wn = b.get().as_bytes_with_nul().to_vec();
        Ok(if wn[2] != 0 { Some(format!("RelocatableString capacity 2 in memory pre-filled with 0x5A, content \"ab\": as_bytes_with_nul() = {wn:?}")) } else { None })
    })
    .unwrap_or_else(|f| Some(f.message));
    ctx.probe_finding(part, SIG_TERMINATOR_WHEN_FULL, observed, json!({"capacity": 2, "op": "push_bytes(b\"ab\"); as_bytes_with_nul()"}));
    let observed = Ctx::guarded(|| {
        let b = Block::<RelocatableString>::try_new(2).unwrap();
        let wn = b.get().as_bytes_with_nul().to_vec();
        Ok(if wn != [0] { Some(format!("RelocatableString capacity 2 initialised in memory pre-filled with 0x5A: as_bytes_with_nul() = {wn:?}")) } else { None })
    })
    .unwrap_or_else(|f| Some(f.message));
    ctx.probe_finding(part, SIG_TERMINATOR_AFTER_INIT, observed, json!({"capacity": 2, "op": "init; as_bytes_with_nul()"}));
}

pub fn parts(ctx: &mut Ctx) {
    let known = Known::from_ctx(ctx, SIGNATURES);
    probes(ctx);
    let alphabet = strop_alphabet();
    let len = ctx.scale(5, 6);
    let grid = crate::families::combos(3, |f, c| f == 0 && c == 0);
    let cases = grid.iter().copied().flat_map(|(flavour, cap)| {
        op_sequences(&alphabet, len).map(move |ops| Case { flavour, cap, reloc: 0, ops })
    });
    ctx.enumerate(
        "string.exhaustive",
        &format!("all op sequences of length {len} (every prefix checked) over a {}-op alphabet, 3 flavours, capacities 0..3 ({} constructible combinations)", alphabet.len(), grid.len()),
        cases,
        |c, obs| run_case(c, obs, &known),
    );
    let strat = |lo: usize, hi: usize, min_cap: usize| {
        (0u8..3, min_cap..CAPS.len(), 0u8..8, proptest::collection::vec(strop_strategy(), lo..hi))
            .prop_map(|(flavour, ci, reloc, ops)| Case { flavour, cap: CAPS[ci], reloc: if reloc < 4 { 0 } else { reloc }, ops })
    };
    ctx.proptest("string.random", ctx.scale(64_000, 1_500_000), strat(0, 200, 0), |c, obs| run_case(c, obs, &known));
    ctx.proptest("string.long", ctx.scale(32, 800), strat(5000, 10000, 3), |c, obs| run_case(c, obs, &known));
    known.flush(ctx);
}
