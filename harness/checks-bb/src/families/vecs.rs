//! vector family: StaticVec<T,N>, PolymorphicVec, RelocatableVec
use crate::families::{CAPS, Case, begin, finish, note_reloc};
use crate::models::vec::*;
use crate::models::{Known, direct, op_sequences};
use crate::reloc::Block;
use crate::tracked::Tracked;
use iceoryx2_bb_container::vector::*;
use iceoryx2_bb_memory::heap_allocator::HeapAllocator;
use proptest::prelude::*;
use std::cell::RefCell;
use vcore::{Ctx, Failure, Obs, ensure};

pub fn run_case(c: &Case<VOp>, obs: &mut Obs, known: &Known) -> Result<(), Failure> {
    begin(known);
    let mut nohook = |_: usize| {};
    let r = match c.flavour {
        0 => crate::with_cap!(c.cap, N, {
            let mut v = StaticVec::<Tracked, N>::new();
            run_vec_ops(&mut direct(&mut v), c.cap, &c.ops, &mut nohook, obs)
        }),
        1 => {
            // the heap allocator rejects zero-sized requests: capacity 0 is refused cleanly
            match PolymorphicVec::<Tracked, HeapAllocator>::new(HeapAllocator::global(), c.cap) {
                Ok(mut v) => run_vec_ops(&mut direct(&mut v), c.cap, &c.ops, &mut nohook, obs),
                Err(e) => {
                    ensure!(c.cap == 0, "vec.polymorphic_new", "PolymorphicVec::new({}) failed: {e:?}", c.cap);
                    obs.class("vec.polymorphic_capacity_zero_refused");
                    Ok(())
                }
            }
        }
        _ => match Block::<RelocatableVec<Tracked>>::try_new(c.cap) {
            Ok(b) => {
                let cell = RefCell::new(b);
                let r = {
                    let mut fetch = || unsafe { &mut *(cell.borrow().base() as *mut RelocatableVec<Tracked>) };
                    let mut hook = crate::reloc_hook!(cell, c.reloc);
                    run_vec_ops(&mut fetch, c.cap, &c.ops, &mut hook, obs)
                };
                let mut b = cell.into_inner();
                note_reloc(obs, b.relocations);
                b.drop_in_place();
                r
            }
            Err(e) => {
                ensure!(c.cap == 0, "vec.relocatable_init", "RelocatableVec::init({}) failed: {e:?}", c.cap);
                obs.class("vec.relocatable_capacity_zero_refused");
                Ok(())
            }
        },
    };
    finish("vec", known, r)
}

pub fn parts(ctx: &mut Ctx) {
    let known = Known::none();
    let alphabet = vop_alphabet();
    let len = ctx.scale(5, 6);
    let grid = crate::families::combos(3, |f, c| f != 0 && c == 0);
    let cases = grid.iter().copied().flat_map(|(flavour, cap)| {
        op_sequences(&alphabet, len).map(move |ops| Case { flavour, cap, reloc: 0, ops })
    });
    ctx.enumerate(
        "vec.exhaustive",
        &format!("all op sequences of length {len} (every prefix checked) over a {}-op alphabet, 3 flavours, capacities 0..3 ({} constructible combinations)", alphabet.len(), grid.len()),
        cases,
        |c, obs| run_case(c, obs, &known),
    );
    let strat = |lo: usize, hi: usize, min_cap: usize| {
        (0u8..3, min_cap..CAPS.len(), 0u8..8, proptest::collection::vec(vop_strategy(), lo..hi))
            .prop_map(|(flavour, ci, reloc, ops)| Case { flavour, cap: CAPS[ci], reloc: if reloc < 4 { 0 } else { reloc }, ops })
    };
    ctx.proptest("vec.random", ctx.scale(64_000, 1_500_000), strat(0, 200, 0), |c, obs| run_case(c, obs, &known));
    ctx.proptest("vec.long", ctx.scale(32, 800), strat(5000, 10000, 3), |c, obs| run_case(c, obs, &known));
}
