//! flat map family: FixedSizeFlatMap<K,V,N>, FlatMap, RelocatableFlatMap; keys and values `Tracked`
use crate::families::{CAPS, Case, begin, finish, note_reloc};
use crate::models::flatmap::*;
use crate::models::{Known, direct, op_sequences};
use crate::reloc::Block;
use crate::tracked::Tracked;
use iceoryx2_bb_container::flatmap::{FixedSizeFlatMap, FlatMap, RelocatableFlatMap};
use proptest::prelude::*;
use std::cell::RefCell;
use vcore::{Ctx, Failure, Obs, ensure};

type T = Tracked;

pub fn run_case(c: &Case<FOp>, obs: &mut Obs, known: &Known) -> Result<(), Failure> {
    begin(known);
    let mut nohook = |_: usize| {};
    macro_rules! fixed {
        ($n:literal) => {{
            let mut s = FixedSizeFlatMap::<T, T, $n>::new();
            run_flatmap_ops::<T, T, _>(&mut direct(&mut s), c.cap, &c.ops, &mut nohook, obs, known)
        }};
    }
    let r = match c.flavour {
        0 => match c.cap {
            0 => {
                obs.class("flatmap.fixed_capacity_zero_skipped");
                Ok(())
            }
            1 => fixed!(1),
            2 => fixed!(2),
            3 => fixed!(3),
            4 => fixed!(4),
            16 => fixed!(16),
            64 => fixed!(64),
            _ => unreachable!(),
        },
        1 => {
            let mut s = FlatMap::<T, T>::new(c.cap);
            run_flatmap_ops::<T, T, _>(&mut direct(&mut s), c.cap, &c.ops, &mut nohook, obs, known)
        }
        _ => match Block::<RelocatableFlatMap<T, T>>::try_new(c.cap) {
            Ok(b) => {
                let cell = RefCell::new(b);
                let r = {
                    let mut fetch = || unsafe { &mut *(cell.borrow().base() as *mut RelocatableFlatMap<T, T>) };
                    let mut hook = crate::reloc_hook!(cell, c.reloc);
                    run_flatmap_ops::<T, T, _>(&mut fetch, c.cap, &c.ops, &mut hook, obs, known)
                };
                let mut b = cell.into_inner();
                note_reloc(obs, b.relocations);
                b.drop_in_place();
                r
            }
            Err(e) => {
                ensure!(c.cap == 0, "flatmap.relocatable_init", "RelocatableFlatMap::init({}) failed: {e:?}", c.cap);
                obs.class("flatmap.relocatable_capacity_zero_refused");
                Ok(())
            }
        },
    };
    finish("flatmap", known, r)
}

pub fn parts(ctx: &mut Ctx) {
    let known = Known::from_ctx(ctx, SIGNATURES);
    let alphabet = fop_alphabet();
    let len = ctx.scale(6, 7);
    let grid = crate::families::combos(3, |f, c| f != 1 && c == 0);
    let cases = grid.iter().copied().flat_map(|(flavour, cap)| {
        op_sequences(&alphabet, len).map(move |ops| Case { flavour, cap, reloc: 0, ops })
    });
    ctx.enumerate(
        "flatmap.exhaustive",
        &format!("all op sequences of length {len} (every prefix checked) over a {}-op alphabet, 3 flavours, capacities 0..3 ({} constructible combinations)", alphabet.len(), grid.len()),
        cases,
        |c, obs| run_case(c, obs, &known),
    );
    let strat = |lo: usize, hi: usize, min_cap: usize| {
        (0u8..3, min_cap..CAPS.len(), 0u8..8, proptest::collection::vec(fop_strategy(), lo..hi))
            .prop_map(|(flavour, ci, reloc, ops)| Case { flavour, cap: CAPS[ci], reloc: if reloc < 4 { 0 } else { reloc }, ops })
    };
    ctx.proptest("flatmap.random", ctx.scale(64_000, 1_500_000), strat(0, 200, 0), |c, obs| run_case(c, obs, &known));
    ctx.proptest("flatmap.long", ctx.scale(32, 800), strat(3000, 10000, 3), |c, obs| run_case(c, obs, &known));
    known.flush(ctx);
}
