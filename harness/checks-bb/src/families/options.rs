//! RelocatableOption<Tracked>: on the stack (flavour 0/1) and inside a relocated block (flavour 2)
use crate::families::{Case, begin, finish, note_reloc};
use crate::models::option::*;
use crate::models::{Known, direct, op_sequences};
use crate::reloc::Block;
use crate::tracked::Tracked;
use iceoryx2_bb_container::relocatable_option::RelocatableOption;
use proptest::prelude::*;
use std::cell::RefCell;
use vcore::{Ctx, Failure, Obs};

type Opt = RelocatableOption<Tracked>;

pub fn run_case(c: &Case<OOp>, obs: &mut Obs, known: &Known) -> Result<(), Failure> {
    begin(known);
    let r = if c.flavour != 2 {
        let mut o: Opt = if c.flavour == 0 { RelocatableOption::None } else { Opt::default() };
        let mut nohook = |_: usize| {};
        run_option_ops(&mut direct(&mut o), &c.ops, &mut nohook, obs)
    } else {
        let b = Block::<Opt>::raw(core::mem::size_of::<Opt>());
        unsafe { (b.base() as *mut Opt).write(RelocatableOption::None) };
        let cell = RefCell::new(b);
        let r = {
            let mut fetch = || unsafe { &mut *(cell.borrow().base() as *mut Opt) };
            let mut hook = crate::reloc_hook!(cell, c.reloc);
            run_option_ops(&mut fetch, &c.ops, &mut hook, obs)
        };
        let mut b = cell.into_inner();
        note_reloc(obs, b.relocations);
        b.drop_in_place();
        r
    };
    finish("option", known, r)
}

pub fn parts(ctx: &mut Ctx) {
    let known = Known::none();
    let alphabet = oop_alphabet();
    let len = ctx.scale(5, 6);
    let cases = (0..3u8).flat_map(|flavour| op_sequences(&alphabet, len).map(move |ops| Case { flavour, cap: 1, reloc: if flavour == 2 { 2 } else { 0 }, ops }));
    ctx.enumerate(
        "option.exhaustive",
        &format!("all op sequences of length {len} (every prefix checked) over a {}-op alphabet, stack / default / relocated-block placement", alphabet.len()),
        cases,
        |c, obs| run_case(c, obs, &known),
    );
    let strat = (0u8..3, 0u8..4, proptest::collection::vec(oop_strategy(), 0..200)).prop_map(|(flavour, reloc, ops)| Case { flavour, cap: 1, reloc, ops });
    ctx.proptest("option.random", ctx.scale(32_000, 800_000), strat, |c, obs| run_case(c, obs, &known));
}
