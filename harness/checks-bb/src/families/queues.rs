//! queue family: FixedSizeQueue<T,N>, Queue, RelocatableQueue; element `Tracked` (drop accounting)
//! or `Plain` (Copy: `get`, `get_unchecked`). `flavour` = storage + 3 * element.
use crate::families::{CAPS, Case, begin, finish, note_reloc};
use crate::models::queue::*;
use crate::models::{Elem, Known, Plain, direct, op_sequences};
use crate::reloc::Block;
use crate::tracked::Tracked;
use iceoryx2_bb_container::queue::{FixedSizeQueue, Queue, RelocatableQueue};
use proptest::prelude::*;
use std::cell::RefCell;
use vcore::{Ctx, Failure, Obs, ensure};

fn run_elem<E: Elem + 'static>(c: &Case<QOp>, obs: &mut Obs, known: &Known) -> Result<(), Failure>
where
    Queue<E>: QueueApi<E>,
    RelocatableQueue<E>: QueueApi<E>,
    FixedSizeQueue<E, 1>: QueueApi<E>,
    FixedSizeQueue<E, 2>: QueueApi<E>,
    FixedSizeQueue<E, 3>: QueueApi<E>,
    FixedSizeQueue<E, 4>: QueueApi<E>,
    FixedSizeQueue<E, 16>: QueueApi<E>,
    FixedSizeQueue<E, 64>: QueueApi<E>,
{
    let mut nohook = |_: usize| {};
    macro_rules! fixed {
        ($n:literal) => {{
            let mut q = FixedSizeQueue::<E, $n>::new();
            run_queue_ops(&mut direct(&mut q), c.cap, &c.ops, &mut nohook, obs, known)
        }};
    }
    match c.flavour % 3 {
        0 => match c.cap {
            // FixedSizeQueue<T, 0>::new() cannot be constructed (its internal allocation of zero
            // bytes is refused and `new` has no error path): not a usable configuration
            0 => {
                obs.class("queue.fixed_capacity_zero_skipped");
                Ok(())
            }
            1 => fixed!(1),
            2 => fixed!(2),
            3 => fixed!(3),
            4 => fixed!(4),
            16 => fixed!(16),
            64 => fixed!(64),
            _ => unreachable!(),
        },
        1 => {
            let mut q = Queue::<E>::new(c.cap);
            run_queue_ops(&mut direct(&mut q), c.cap, &c.ops, &mut nohook, obs, known)
        }
        _ => match Block::<RelocatableQueue<E>>::try_new(c.cap) {
            Ok(b) => {
                let cell = RefCell::new(b);
                let r = {
                    let mut fetch = || unsafe { &mut *(cell.borrow().base() as *mut RelocatableQueue<E>) };
                    let mut hook = crate::reloc_hook!(cell, c.reloc);
                    run_queue_ops(&mut fetch, c.cap, &c.ops, &mut hook, obs, known)
                };
                let mut b = cell.into_inner();
                note_reloc(obs, b.relocations);
                b.drop_in_place();
                r
            }
            Err(e) => {
                ensure!(c.cap == 0, "queue.relocatable_init", "RelocatableQueue::init({}) failed: {e:?}", c.cap);
                obs.class("queue.relocatable_capacity_zero_refused");
                Ok(())
            }
        },
    }
}

pub fn run_case(c: &Case<QOp>, obs: &mut Obs, known: &Known) -> Result<(), Failure> {
    begin(known);
    let r = if c.flavour < 3 { run_elem::<Tracked>(c, obs, known) } else { run_elem::<Plain>(c, obs, known) };
    finish("queue", known, r)
}

pub fn parts(ctx: &mut Ctx) {
    let known = Known::none();
    let alphabet = qop_alphabet();
    let len = ctx.scale(7, 8);
    let grid = crate::families::combos(6, |f, c| f % 3 != 1 && c == 0);
    let cases = grid.iter().copied().flat_map(|(flavour, cap)| {
        op_sequences(&alphabet, len).map(move |ops| Case { flavour, cap, reloc: 0, ops })
    });
    ctx.enumerate(
        "queue.exhaustive",
        &format!("all op sequences of length {len} (every prefix checked) over a {}-op alphabet, 3 flavours x 2 element types, capacities 0..3 ({} constructible combinations)", alphabet.len(), grid.len()),
        cases,
        |c, obs| run_case(c, obs, &known),
    );
    let strat = |lo: usize, hi: usize, min_cap: usize| {
        (0u8..6, min_cap..CAPS.len(), 0u8..8, proptest::collection::vec(qop_strategy(), lo..hi))
            .prop_map(|(flavour, ci, reloc, ops)| Case { flavour, cap: CAPS[ci], reloc: if reloc < 4 { 0 } else { reloc }, ops })
    };
    ctx.proptest("queue.random", ctx.scale(64_000, 1_500_000), strat(0, 200, 0), |c, obs| run_case(c, obs, &known));
    ctx.proptest("queue.long", ctx.scale(32, 800), strat(5000, 10000, 3), |c, obs| run_case(c, obs, &known));
}
