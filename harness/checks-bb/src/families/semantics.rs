//! SemanticString types of iceoryx2-bb-system-types: generic trait operations against the
//! byte-vector model with `Type::new(bytes).is_ok()` as the validity oracle.
use crate::models::semantic::*;
use crate::models::string::{Needle, SIG_EMPTY_RANGE_WHEN_FULL, SIG_REMOVE_AT_LEN};
use crate::models::{Known, op_sequences};
use iceoryx2_bb_container::semantic_string::SemanticString;
use iceoryx2_bb_system_types::base64url::Base64Url;
use iceoryx2_bb_system_types::file_name::{FileName, RestrictedFileName};
use iceoryx2_bb_system_types::file_path::FilePath;
use iceoryx2_bb_system_types::group_name::GroupName;
use iceoryx2_bb_system_types::path::Path;
use iceoryx2_bb_system_types::user_name::UserName;
use proptest::prelude::*;
use serde::{Deserialize, Serialize};
use serde_json::json;
use vcore::{Ctx, Failure, Obs};

#[derive(Clone, Debug, Serialize, Deserialize)]
pub struct SemCase {
    /// 0 FileName, 1 Path, 2 FilePath, 3 UserName, 4 GroupName, 5 Base64Url,
    /// 6 RestrictedFileName<3>, 7 RestrictedFileName<8>
    ty: u8,
    /// index into the type's list of start values
    init: u8,
    ops: Vec<SemOp>,
}

const NTYPES: u8 = 8;

fn run_typed<const C: usize, S: SemanticString<C>>(inits: &[&[u8]], c: &SemCase, obs: &mut Obs, known: &Known) -> Result<(), Failure> {
    let init = inits[c.init as usize % inits.len()];
    let mut s = S::new(init).map_err(|e| Failure::new("semantic_string.new", format!("new({init:?}) failed: {e:?}")))?;
    let mut nohook = |_: usize| {};
    run_semantic_ops::<C, S>(&mut s, init, &c.ops, &mut nohook, obs, known)
}

pub fn run_case(c: &SemCase, obs: &mut Obs, known: &Known) -> Result<(), Failure> {
    known.begin_case();
    let r = match c.ty % NTYPES {
        0 => run_typed::<{ FileName::max_len() }, FileName>(&[b"a", b"file.txt", b"..a"], c, obs, known),
        1 => run_typed::<{ Path::max_len() }, Path>(&[b"", b"/", b"a/b", b"/tmp/x/"], c, obs, known),
        2 => run_typed::<{ FilePath::max_len() }, FilePath>(&[b"a", b"/a/b", b"x/y.z"], c, obs, known),
        3 => run_typed::<{ UserName::max_len() }, UserName>(&[b"a", b"root", b"_x-1"], c, obs, known),
        4 => run_typed::<{ GroupName::max_len() }, GroupName>(&[b"a", b"root", b"_x-1"], c, obs, known),
        5 => run_typed::<{ Base64Url::max_len() }, Base64Url>(&[b"a", b"Zm9v"], c, obs, known),
        6 => run_typed::<3, RestrictedFileName<3>>(&[b"a", b"ab"], c, obs, known),
        _ => run_typed::<8, RestrictedFileName<8>>(&[b"a", b"ab.c"], c, obs, known),
    };
    r?;
    known.take_hit()
}

fn probes(ctx: &mut Ctx) {
    let part = "semantic.probes";
    if !ctx.part_enabled(part) || ctx.replay.is_some() || ctx.worker != 0 {
        return;
    }
    let observed = Ctx::guarded(|| {
        let s = FileName::new(b"abcabc").unwrap();
        let r = s.rfind(b"bc");
        Ok(if r != Some(4) { Some(format!("FileName(\"abcabc\").rfind(b\"bc\") returned {r:?}, expected Some(4)")) } else { None })
    })
    .unwrap_or_else(|f| Some(f.message));
    ctx.probe_finding(part, SIG_RFIND, observed, json!({"type": "FileName", "value": "abcabc", "op": "rfind(b\"bc\")"}));
    let observed = Ctx::guarded(|| {
        let v = vec![b'a'; 124];
        let mut s = FileName::new(&v).unwrap();
        let r = s.strip_prefix(&v);
        Ok(if r.is_ok() { Some(format!("FileName of 124 x 'a': strip_prefix(all of it) returned {r:?}, expected an error (empty file name)")) } else { None })
    })
    .unwrap_or_else(|f| Some(format!("FileName of 124 x 'a': strip_prefix(all of it): {}", f.message)));
    ctx.probe_finding(part, SIG_STRIP_LONG, observed, json!({"type": "FileName", "value": "124 x 'a'", "op": "strip_prefix(value)"}));
    let observed = Ctx::guarded(|| {
        let mut s = FileName::new(b"ab").unwrap();
        let r = s.remove(2);
        Ok(if !matches!(r, Ok(None)) { Some(format!("FileName(\"ab\").remove(2) returned {r:?}, expected Ok(None)")) } else { None })
    })
    .unwrap_or_else(|f| Some(f.message));
    ctx.probe_finding(part, SIG_REMOVE_AT_LEN, observed, json!({"type": "FileName", "value": "ab", "op": "remove(2)"}));
    let observed = Ctx::guarded(|| {
        let mut s = RestrictedFileName::<3>::new(b"abc").unwrap();
        let r = s.strip_suffix(b"");
        Ok(if !matches!(r, Ok(true)) { Some(format!("full RestrictedFileName<3>: strip_suffix(b\"\") returned {r:?}")) } else { None })
    })
    .unwrap_or_else(|f| Some(format!("full RestrictedFileName<3> \"abc\": strip_suffix(b\"\"): {}", f.message)));
    ctx.probe_finding(part, SIG_EMPTY_RANGE_WHEN_FULL, observed, json!({"type": "RestrictedFileName<3>", "value": "abc", "op": "strip_suffix(b\"\")"}));
}

pub fn parts(ctx: &mut Ctx) {
    let known = Known::from_ctx(ctx, SIGNATURES);
    probes(ctx);
    let mut alphabet = semop_alphabet();
    alphabet.push(SemOp::StripSuffix(Needle::Lit(vec![])));
    let len = ctx.scale(5, 6);
    let cases = (0..NTYPES).flat_map(|ty| (0..2u8).map(move |init| (ty, init))).flat_map(|(ty, init)| op_sequences(&alphabet, len).map(move |ops| SemCase { ty, init, ops }));
    ctx.enumerate(
        "semantic.exhaustive",
        &format!("all op sequences of length {len} (every prefix checked) over a {}-op alphabet, 8 semantic string types x 2 start values", alphabet.len()),
        cases,
        |c, obs| run_case(c, obs, &known),
    );
    let strat = |lo: usize, hi: usize| (0u8..NTYPES, 0u8..4, proptest::collection::vec(semop_strategy(), lo..hi)).prop_map(|(ty, init, ops)| SemCase { ty, init, ops });
    ctx.proptest("semantic.random", ctx.scale(64_000, 1_500_000), strat(0, 200), |c, obs| run_case(c, obs, &known));
    ctx.proptest("semantic.long", ctx.scale(32, 800), strat(3000, 10000), |c, obs| run_case(c, obs, &known));
    known.flush(ctx);
}
