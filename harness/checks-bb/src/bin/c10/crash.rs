//! Crash part: the owner of some entries is a forked process working on a container in shared
//! memory; it ends (`_exit`) at its k-th atomic access — for every k of its program. Afterwards
//! a survivor recovers the dead owner id and refreshes.
//!
//! vcore's scheduler has no "kill a thread at yield k"; the child process installs its own
//! hook table (its own address space), which leaves the parent's scheduler hooks untouched.
use crate::{Op, V};
use core::ptr::NonNull;
use iceoryx2_bb_elementary::bump_allocator::BumpAllocator;
use iceoryx2_bb_elementary_traits::relocatable_container::RelocatableContainer;
use iceoryx2_bb_lock_free::mpmc::container::*;
use iceoryx2_bb_lock_free::mpmc::unique_index_set_enums::{ReleaseMode, ReleaseState};
use iceoryx2_pal_concurrency_sync::atomic as a;
use serde::{Deserialize, Serialize};
use std::sync::atomic::{AtomicU32, Ordering};
use vcore::util::idx;
use vcore::{Ctx, Failure, Obs, ensure};

#[derive(Clone, Debug, Serialize, Deserialize)]
pub struct CrashCase {
    pub cap: usize,
    /// entries the survivor registers before the victim starts
    pub survivor_before: usize,
    /// program of the victim (Add / Remove only)
    pub victim: Vec<Op>,
    /// the victim ends immediately before its `kill_at`-th atomic access (1-based)
    pub kill_at: u32,
}

const MAX_OPS: usize = 16;

/// progress report of the victim, in the shared mapping
#[repr(C)]
struct Progress {
    accesses: u32,
    finished: u32,
    /// per op: 0 not started, 1 started, 2 returned ok, 3 returned an error
    status: [u32; MAX_OPS],
}

static COUNT: AtomicU32 = AtomicU32::new(0);
static KILL_AT: AtomicU32 = AtomicU32::new(0);
static PROGRESS: std::sync::atomic::AtomicPtr<Progress> = std::sync::atomic::AtomicPtr::new(std::ptr::null_mut());

fn child_pre(_addr: usize, _size: u8, _kind: a::Kind, _order: a::Ordering) {
    let n = COUNT.fetch_add(1, Ordering::Relaxed) + 1;
    let p = PROGRESS.load(Ordering::Relaxed);
    if !p.is_null() {
        unsafe { std::ptr::write_volatile(&mut (*p).accesses, n) };
    }
    if n == KILL_AT.load(Ordering::Relaxed) {
        unsafe { libc::_exit(0) };
    }
}
fn child_load(_addr: usize, _size: u8, _order: a::Ordering, real: u64) -> u64 {
    real
}
fn child_post(_addr: usize, _size: u8, _kind: a::Kind, _order: a::Ordering, _old: u64, _new: u64) {}
static CHILD_HOOKS: a::Hooks = a::Hooks { pre: child_pre, load: child_load, post: child_post };

struct Shm {
    base: *mut u8,
    size: usize,
}
impl Shm {
    fn new(size: usize) -> Shm {
        let base = unsafe { libc::mmap(std::ptr::null_mut(), size, libc::PROT_READ | libc::PROT_WRITE, libc::MAP_SHARED | libc::MAP_ANONYMOUS, -1, 0) };
        assert!(base != libc::MAP_FAILED, "mmap");
        Shm { base: base as *mut u8, size }
    }
}
impl Drop for Shm {
    fn drop(&mut self) {
        unsafe { libc::munmap(self.base as *mut libc::c_void, self.size) };
    }
}

fn victim_id(i: usize) -> u64 {
    100 + i as u64
}

/// runs in the forked child; never returns
fn victim_main(c: &Container<V>, prog: &[Op], progress: *mut Progress, kill_at: u32) -> ! {
    COUNT.store(0, Ordering::Relaxed);
    KILL_AT.store(kill_at, Ordering::Relaxed);
    PROGRESS.store(progress, Ordering::Relaxed);
    unsafe { a::set_hooks(&CHILD_HOOKS) };
    let owner = OwnerId::new(1).unwrap();
    let mut handles: Vec<ContainerHandle> = Vec::with_capacity(MAX_OPS);
    for (i, op) in prog.iter().enumerate().take(MAX_OPS) {
        let st = unsafe { &mut (*progress).status[i] as *mut u32 };
        match op {
            Op::Add => {
                unsafe { std::ptr::write_volatile(st, 1) };
                let r = unsafe { c.add(V::make(victim_id(i)), owner) };
                if let Ok((_, h)) = &r {
                    handles.push(*h);
                }
                unsafe { std::ptr::write_volatile(st, if r.is_ok() { 2 } else { 3 }) };
            }
            Op::Remove { k, .. } => {
                if handles.is_empty() {
                    continue;
                }
                let h = handles.remove(idx(*k, handles.len()));
                unsafe { std::ptr::write_volatile(st, 1) };
                let r = unsafe { c.remove(h, ReleaseMode::Default) };
                unsafe { std::ptr::write_volatile(st, if r.is_ok() { 2 } else { 3 }) };
            }
            _ => {}
        }
    }
    unsafe {
        std::ptr::write_volatile(&mut (*progress).finished, 1);
        libc::_exit(0)
    }
}

pub struct CrashOutcome {
    pub accesses: u32,
    pub finished: bool,
    pub inside_add: bool,
    pub inside_remove: bool,
}

fn view_of(s: &ContainerState<V>) -> Vec<(usize, V)> {
    crate::snapshot(s)
}

pub fn run_crash(c: &CrashCase, soft_sigs: &[&str]) -> Result<CrashOutcome, Failure> {
    let cont_size = core::mem::size_of::<Container<V>>();
    let mem_size = Container::<V>::const_memory_size(c.cap) + 256;
    let shm = Shm::new(4096 + cont_size + mem_size);
    let progress = shm.base as *mut Progress; // zeroed by mmap
    let cont_ptr = unsafe { shm.base.add(1024) } as *mut Container<V>;
    let mem_ptr = unsafe { shm.base.add(1024 + ((cont_size + 63) & !63)) };
    unsafe {
        cont_ptr.write(Container::<V>::new_uninit(c.cap));
        let alloc = BumpAllocator::new(NonNull::new(mem_ptr).unwrap(), mem_size);
        (*cont_ptr).init(&alloc).expect("container memory");
    }
    let cont: &Container<V> = unsafe { &*cont_ptr };
    let survivor = OwnerId::new(2).unwrap();
    let mut mine: Vec<(ContainerHandle, u64)> = vec![];
    let mut next_id = 200u64;
    for _ in 0..c.survivor_before {
        let (_, h) = unsafe { cont.add(V::make(next_id), survivor) }.map_err(|e| Failure::new("crash.setup", format!("survivor add failed: {e:?}")))?;
        mine.push((h, next_id));
        next_id += 1;
    }
    let mut state = unsafe { cont.get_state() };

    // ---- the victim lives and dies ------------------------------------------------------
    let pid = unsafe { libc::fork() };
    ensure!(pid >= 0, "crash.setup", "fork failed");
    if pid == 0 {
        victim_main(cont, &c.victim, progress, c.kill_at);
    }
    let mut status = 0;
    let w = unsafe { libc::waitpid(pid, &mut status, 0) };
    ensure!(w == pid && libc::WIFEXITED(status) && libc::WEXITSTATUS(status) == 0, "crash.setup", "victim did not end as planned (status {status:#x})");
    let prog = unsafe { std::ptr::read_volatile(progress) };
    let finished = prog.finished == 1;
    let mut inside_add = false;
    let mut inside_remove = false;
    // ids the victim may have registered / surely registered
    let mut may: Vec<u64> = vec![];
    for (i, op) in c.victim.iter().enumerate().take(MAX_OPS) {
        if let Op::Add = op {
            if prog.status[i] == 1 || prog.status[i] == 2 {
                may.push(victim_id(i));
            }
            inside_add |= prog.status[i] == 1;
        } else {
            inside_remove |= prog.status[i] == 1;
        }
    }
    let describe = |what: &str, view: &[(usize, V)]| {
        format!(
            "{what}: {:?}; victim ops {:?} status {:?} died before access {} (inside add: {inside_add}, inside remove: {inside_remove})",
            view.iter().map(|(i, v)| (*i, if v.intact() { v.id() } else { u64::MAX })).collect::<Vec<_>>(),
            c.victim,
            &prog.status[..c.victim.len().min(MAX_OPS)],
            c.kill_at
        )
    };
    let mine_ids = |mine: &Vec<(ContainerHandle, u64)>| {
        let mut v: Vec<u64> = mine.iter().map(|x| x.1).collect();
        v.sort();
        v
    };

    // ---- a refresh while the dead owner's entries are still there: untorn, really added ----
    unsafe { cont.update_state(&mut state) };
    let view = view_of(&state);
    for (_, v) in &view {
        ensure!(v.intact(), "crash.torn", "{}", describe("torn entry after the owner died", &view));
        ensure!(may.contains(&v.id()) || mine.iter().any(|m| m.1 == v.id()), "crash.ghost", "{}", describe("entry that nobody added after the owner died", &view));
    }
    for m in &mine {
        ensure!(view.iter().any(|(_, v)| v.id() == m.1), "crash.lost_entry", "{}", describe("the survivor's entry vanished when another owner died", &view));
    }

    // ---- recover, then the snapshot must not show anything of the dead owner ---------------
    let mut seen = vec![];
    let rs = unsafe {
        cont.recover(
            OwnerId::new(1).unwrap(),
            |v: V| {
                seen.push(v);
                true
            },
            ReleaseMode::Default,
        )
    };
    ensure!(rs == ReleaseState::Unlocked, "crash.locked", "recover in default mode locked the container");
    for v in &seen {
        ensure!(v.intact() && may.contains(&v.id()), "crash.recover_predicate_value", "recover showed {:?} to the predicate; the dead owner may have added {:?}", v, may);
    }
    let mut soft: Option<Failure> = None;
    let changed = unsafe { cont.update_state(&mut state) };
    let view = view_of(&state);
    let mut got: Vec<u64> = view.iter().map(|(_, v)| if v.intact() { v.id() } else { u64::MAX }).collect();
    got.sort();
    let ghost_sig = if inside_add {
        SIG_IN_ADD
    } else if inside_remove {
        SIG_IN_REMOVE
    } else {
        "crash.recover_ghost"
    };
    if got != mine_ids(&mine) {
        let f = Failure::new(ghost_sig, describe("after recover of the dead owner returned, a refresh still shows an entry that is not registered", &view));
        if soft_sigs.contains(&f.signature.as_str()) {
            soft = Some(f);
        } else {
            return Err(f);
        }
    }
    if !seen.is_empty() {
        ensure!(changed, "crash.change_missed", "recover removed {} entries but the next refresh reports 'unchanged'", seen.len());
    }
    let fresh = view_of(&unsafe { cont.get_state() });
    let mut gotf: Vec<u64> = fresh.iter().map(|(_, v)| if v.intact() { v.id() } else { u64::MAX }).collect();
    gotf.sort();
    if gotf != mine_ids(&mine) && soft.is_none() {
        return Err(Failure::new(ghost_sig, describe("after recover a fresh state shows an entry that is not registered", &fresh)));
    }

    // ---- no slot leaked: the survivor can fill the container --------------------------------
    while mine.len() < c.cap {
        match unsafe { cont.add(V::make(next_id), survivor) } {
            Ok((_, h)) => mine.push((h, next_id)),
            Err(e) => {
                return Err(Failure::new("crash.slot_leak", format!("after recover only {} of {} slots can be used ({e:?}); victim ops {:?} died before access {}", mine.len(), c.cap, c.victim, c.kill_at)));
            }
        }
        next_id += 1;
    }
    ensure!(unsafe { cont.add(V::make(999), survivor) } == Err(ContainerAddFailure::OutOfSpace), "crash.over_capacity", "add beyond the capacity succeeded after recover");
    unsafe { cont.update_state(&mut state) };
    let view = view_of(&state);
    let mut got: Vec<u64> = view.iter().map(|(_, v)| if v.intact() { v.id() } else { u64::MAX }).collect();
    got.sort();
    ensure!(got == mine_ids(&mine), "crash.final_not_exact", "{}", describe("after refilling the container the snapshot is not the registered set", &view));
    for (h, id) in mine.drain(..) {
        ensure!(unsafe { cont.remove(h, ReleaseMode::Default) }.is_ok(), "crash.remove_failed", "survivor cannot remove its entry {id}");
    }
    unsafe { cont.update_state(&mut state) };
    ensure!(view_of(&state).is_empty() && cont.len() == 0, "crash.final_not_exact", "container not empty after everything was removed: {:?} len {}", view_of(&state).iter().map(|x| x.1.id()).collect::<Vec<_>>(), cont.len());
    ensure!(!unsafe { cont.update_state(&mut state) }, "crash.final_not_quiescent", "refresh reports a change although nothing happened");
    if let Some(f) = soft {
        return Err(f);
    }
    Ok(CrashOutcome { accesses: prog.accesses, finished, inside_add, inside_remove })
}

const PART: &str = "crash";
pub const SIG_IN_ADD: &str = "crash.recover_ghost.died_inside_add";
pub const SIG_IN_REMOVE: &str = "crash.recover_ghost.died_inside_remove";

fn exec(ctx: &mut Ctx, c: &CrashCase) -> (bool, Option<CrashOutcome>) {
    let mut obs = Obs::default();
    let soft: Vec<&str> = [SIG_IN_ADD, SIG_IN_REMOVE].into_iter().filter(|s| ctx.is_open_finding(s)).collect();
    let r = Ctx::guarded(|| run_crash(c, &soft));
    if let Ok(o) = &r {
        obs.nontrivial = o.inside_add || o.inside_remove;
        if o.inside_add {
            obs.class("crash_inside_add");
        }
        if o.inside_remove {
            obs.class("crash_inside_remove");
        }
        if !o.inside_add && !o.inside_remove && !o.finished {
            obs.class("crash_between_ops");
        }
    } else {
        obs.nontrivial = true;
    }
    ctx.record(PART, vcore::rng::hash_str(&format!("{c:?}")), &obs, || serde_json::to_value(c).unwrap());
    match r {
        Ok(o) => (true, Some(o)),
        Err(f) => {
            let known = ctx.is_open_finding(&f.signature);
            ctx.violation(PART, &f, serde_json::to_value(c).unwrap());
            (known, None)
        }
    }
}

pub fn part(ctx: &mut Ctx) {
    if !ctx.part_enabled(PART) {
        return;
    }
    if let Some(c) = ctx.replay_case::<CrashCase>(PART) {
        exec(ctx, &c);
        return;
    }
    let a = Op::Add;
    let r0 = Op::Remove { k: 0, lock: false };
    let rn = Op::Remove { k: 0xffff, lock: false };
    let mut programs = vec![vec![a.clone()], vec![a.clone(), r0.clone(), a.clone()], vec![a.clone(), a.clone(), rn.clone(), a.clone()]];
    if !ctx.quick() {
        programs.push(vec![a.clone(), a.clone()]);
        programs.push(vec![a.clone(), r0.clone()]);
        programs.push(vec![a.clone(), a.clone(), r0.clone(), a.clone()]);
        programs.push(vec![a.clone(), r0.clone(), a.clone(), r0.clone(), a.clone()]);
        programs.push(vec![a.clone(), a.clone(), a.clone(), r0.clone(), rn.clone(), a.clone(), a.clone()]);
    }
    let mut i = 0u64;
    let mut complete = true;
    'outer: for cap in 1..=3usize {
        for survivor_before in 0..cap {
            for victim in &programs {
                i += 1;
                if !ctx.mine(i) {
                    continue;
                }
                // reference run: the victim runs to its end; learn the number of accesses
                let base = CrashCase { cap, survivor_before, victim: victim.clone(), kill_at: 0 };
                let (go, out) = exec(ctx, &base);
                if !go {
                    complete = false;
                    break 'outer;
                }
                let n = out.map(|o| o.accesses).unwrap_or(60);
                for k in 1..=n {
                    let c = CrashCase { kill_at: k, ..base.clone() };
                    if !exec(ctx, &c).0 {
                        complete = false;
                        break 'outer;
                    }
                }
            }
        }
    }
    if complete {
        ctx.mark_exhaustive(format!("crash: every atomic access of {} victim programs as the point of death, capacities 1..3, 0..cap-1 entries of a surviving owner", programs.len()));
    }
}
