//! Real-thread stress part (no scheduler): writers add / remove self-checking payloads at full
//! speed, a reader refreshes and validates every entry. Only invariants that hold for every
//! timing are checked.
use crate::Boxed;
use core::fmt::Debug;
use iceoryx2_bb_lock_free::mpmc::container::*;
use iceoryx2_bb_lock_free::mpmc::unique_index_set_enums::ReleaseMode;
use serde::{Deserialize, Serialize};
use std::collections::VecDeque;
use std::sync::Mutex;
use std::sync::atomic::{AtomicBool, AtomicU64, Ordering};
use vcore::{Ctx, Failure, Obs};

pub trait Payload: Copy + Debug + Send + Sync + 'static {
    fn make(id: u64) -> Self;
    fn id(&self) -> u64;
    fn intact(&self) -> bool;
}

macro_rules! payload {
    ($name:ident, $words:expr) => {
        #[repr(C)]
        #[derive(Clone, Copy, Debug, PartialEq, Eq)]
        pub struct $name(pub [u64; $words]);
        impl Payload for $name {
            #[inline(always)]
            fn make(id: u64) -> Self {
                let mut w = [0u64; $words];
                let mut i = 0;
                while i < $words {
                    w[i] = (id.wrapping_add(i as u64)).wrapping_mul(crate::K) ^ (id.rotate_left(i as u32));
                    i += 1;
                }
                w[0] = id;
                w[$words - 1] = !id;
                $name(w)
            }
            fn id(&self) -> u64 {
                self.0[0]
            }
            #[inline(always)]
            fn intact(&self) -> bool {
                *self == Self::make(self.0[0])
            }
        }
    };
}
payload!(P64, 8);
payload!(P256, 32);

#[derive(Clone, Debug, Serialize, Deserialize)]
pub struct StressCase {
    pub cap: usize,
    pub writers: usize,
    /// handles a writer keeps at most
    pub hold: usize,
    /// add/remove calls per writer
    pub ops: u64,
    /// 256-byte instead of 64-byte payloads
    pub big: bool,
    pub seed: u64,
}

const SEQ_BITS: u32 = 40;

struct Res {
    refreshes: u64,
    changed: u64,
    entries: u64,
    reuse_seen: bool,
    out_of_space: u64,
}

fn run<P: Payload>(c: &StressCase) -> Result<Res, Failure> {
    let boxed = Boxed::<P>::new(c.cap);
    let cont = boxed.get();
    let started: Vec<AtomicU64> = (0..c.writers).map(|_| AtomicU64::new(0)).collect();
    let removed_upto: Vec<AtomicU64> = (0..c.writers).map(|_| AtomicU64::new(0)).collect();
    let writers_done = AtomicU64::new(0);
    let abort = AtomicBool::new(false);
    let failure: Mutex<Option<Failure>> = Mutex::new(None);
    let held_at_end: Mutex<Vec<u64>> = Mutex::new(vec![]);
    let oos = AtomicU64::new(0);
    let file = |f: Failure| {
        let mut g = failure.lock().unwrap();
        if g.is_none() {
            *g = Some(f);
        }
        abort.store(true, Ordering::SeqCst);
    };
    let mut reader_state: Option<(ContainerState<P>, Res)> = None;
    std::thread::scope(|sc| {
        for w in 0..c.writers {
            let (started, removed_upto, writers_done, abort, held_at_end, oos, file) = (&started, &removed_upto, &writers_done, &abort, &held_at_end, &oos, &file);
            sc.spawn(move || {
                let owner = OwnerId::new(w as u64 + 1).unwrap();
                let mut rng = vcore::rng::SplitMix::new(vcore::rng::mix(c.seed, w as u64 + 1));
                let mut held: VecDeque<(ContainerHandle, u64)> = VecDeque::new();
                let mut seq = 0u64;
                for _ in 0..c.ops {
                    if abort.load(Ordering::Relaxed) {
                        break;
                    }
                    let add = held.len() < c.hold && (held.is_empty() || rng.chance(1, 2));
                    if add {
                        seq += 1;
                        started[w].store(seq, Ordering::SeqCst);
                        let id = ((w as u64) << SEQ_BITS) | seq;
                        match unsafe { cont.add(P::make(id), owner) } {
                            Ok((ptr, h)) => {
                                if unsafe { (*ptr).id() } != id {
                                    file(Failure::new("stress.add_pointer", format!("the pointer returned by add({id:#x}) shows another value")));
                                }
                                held.push_back((h, seq));
                            }
                            Err(ContainerAddFailure::OutOfSpace) => {
                                oos.fetch_add(1, Ordering::Relaxed);
                            }
                            Err(ContainerAddFailure::IsLocked) => file(Failure::new("stress.is_locked", "add reported IsLocked, nobody locks")),
                        }
                    } else {
                        let (h, s) = held.pop_front().unwrap();
                        if unsafe { cont.remove(h, ReleaseMode::Default) }.is_err() {
                            file(Failure::new("stress.remove_failed", format!("remove of the own live handle of seq {s} failed")));
                        }
                        removed_upto[w].store(s, Ordering::SeqCst);
                    }
                }
                held_at_end.lock().unwrap().extend(held.iter().map(|(_, s)| ((w as u64) << SEQ_BITS) | s));
                writers_done.fetch_add(1, Ordering::SeqCst);
            });
        }
        let (started, removed_upto, writers_done, abort, file) = (&started, &removed_upto, &writers_done, &abort, &file);
        let rs = &mut reader_state;
        sc.spawn(move || {
            let mut state = unsafe { cont.get_state() };
            let mut res = Res { refreshes: 0, changed: 0, entries: 0, reuse_seen: false, out_of_space: 0 };
            let mut last_on_index = vec![0u64; c.cap];
            let mut idle = 0u32;
            loop {
                let fin = writers_done.load(Ordering::SeqCst) == c.writers as u64;
                let r0: Vec<u64> = removed_upto.iter().map(|a| a.load(Ordering::SeqCst)).collect();
                let changed = unsafe { cont.update_state(&mut state) };
                res.refreshes += 1;
                if changed {
                    res.changed += 1;
                }
                let mut bad: Option<Failure> = None;
                state.for_each(|i, v: &P| {
                    res.entries += 1;
                    if !v.intact() {
                        bad = Some(Failure::new("stress.torn", format!("torn entry at index {i} after {} refreshes: {:x?}", res.refreshes, v)));
                        return CallbackProgression::Stop;
                    }
                    let (w, seq) = ((v.id() >> SEQ_BITS) as usize, v.id() & ((1 << SEQ_BITS) - 1));
                    if w >= c.writers || seq == 0 || seq > started[w].load(Ordering::SeqCst) {
                        bad = Some(Failure::new("stress.ghost", format!("entry {:#x} at index {i} was never added", v.id())));
                        return CallbackProgression::Stop;
                    }
                    if seq <= r0[w] {
                        bad = Some(Failure::new(
                            "stress.stale_entry",
                            format!("refresh shows entry seq {seq} of writer {w} although its removal (all removals up to seq {}) had returned before the refresh was invoked", r0[w]),
                        ));
                        return CallbackProgression::Stop;
                    }
                    if last_on_index[i] != 0 && last_on_index[i] != v.id() {
                        res.reuse_seen = true;
                    }
                    last_on_index[i] = v.id();
                    CallbackProgression::Continue
                });
                if let Some(f) = bad {
                    file(f);
                }
                if fin || abort.load(Ordering::Relaxed) {
                    break;
                }
                // let the writers run when nothing happens (the machine may be oversubscribed)
                idle = if changed { 0 } else { idle + 1 };
                if idle > 64 {
                    idle = 0;
                    std::thread::yield_now();
                }
            }
            *rs = Some((state, res));
        });
    });
    if let Some(f) = failure.into_inner().unwrap() {
        return Err(f);
    }
    // (e) quiescence
    let (mut state, mut res) = reader_state.unwrap();
    res.out_of_space = oos.load(Ordering::Relaxed);
    let mut expect = held_at_end.into_inner().unwrap();
    expect.sort();
    let collect = |s: &ContainerState<P>| {
        let mut v = vec![];
        s.for_each(|_, p: &P| {
            v.push(if p.intact() { p.id() } else { u64::MAX });
            CallbackProgression::Continue
        });
        v.sort();
        v
    };
    unsafe { cont.update_state(&mut state) };
    let got = collect(&state);
    vcore::ensure!(got == expect, "stress.final_not_exact", "after the writers ended the refreshed state shows {:x?}, registered are {:x?}", got, expect);
    vcore::ensure!(!unsafe { cont.update_state(&mut state) }, "stress.final_not_quiescent", "second refresh after the end still reports a change");
    let fresh = collect(&unsafe { cont.get_state() });
    vcore::ensure!(fresh == expect, "stress.final_not_exact", "a fresh state shows {:x?}, registered are {:x?}", fresh, expect);
    vcore::ensure!(cont.len() == expect.len(), "stress.final_len", "len() {} but {} entries registered", cont.len(), expect.len());
    Ok(res)
}

fn exec(ctx: &mut Ctx, c: &StressCase) -> bool {
    let mut obs = Obs::default();
    let r = Ctx::guarded(|| if c.big { run::<P256>(c) } else { run::<P64>(c) });
    if let Ok(res) = &r {
        obs.nontrivial = res.reuse_seen && res.changed > 1;
        if res.reuse_seen {
            obs.class("stress_reader_saw_slot_reuse");
        }
        if res.out_of_space > 0 {
            obs.class("stress_out_of_space");
        }
        if c.writers == 2 {
            obs.class("stress_two_writers");
        }
        if c.big {
            obs.class("stress_256_byte_payload");
        }
        ctx.class("stress_add_remove_calls", c.ops * c.writers as u64);
        ctx.class("stress_refreshes", res.refreshes);
        ctx.class("stress_refreshes_changed", res.changed);
        ctx.class("stress_entries_validated", res.entries);
    }
    ctx.record("stress", vcore::rng::hash_str(&format!("{c:?}")), &obs, || serde_json::to_value(c).unwrap());
    if let Err(f) = r {
        ctx.violation("stress", &f, serde_json::to_value(c).unwrap());
        return false;
    }
    true
}

fn all_cpus() {
    unsafe {
        let ncpu = libc::sysconf(libc::_SC_NPROCESSORS_ONLN).max(1) as usize;
        let mut set: libc::cpu_set_t = std::mem::zeroed();
        for i in 0..ncpu {
            libc::CPU_SET(i, &mut set);
        }
        libc::sched_setaffinity(0, std::mem::size_of::<libc::cpu_set_t>(), &set);
    }
}

pub fn part(ctx: &mut Ctx) {
    if !ctx.part_enabled("stress") {
        return;
    }
    all_cpus();
    if let Some(c) = ctx.replay_case::<StressCase>("stress") {
        // timing dependent: give the replay a few attempts
        for _ in 0..5 {
            if !exec(ctx, &c) {
                break;
            }
        }
        return;
    }
    // fixed operation counts: rounds x configurations x writers x ops
    let ops = ctx.scale(100_000u64, 1_000_000);
    let rounds = ctx.scale(2u64, 4);
    let mut i = 0u64;
    for round in 0..rounds {
        for big in [false, true] {
            for cap in 1..=4usize {
                for writers in 1..=2usize {
                    for hold in 1..=cap.min(2) {
                        i += 1;
                        if !ctx.mine(i) {
                            continue;
                        }
                        let c = StressCase { cap, writers, hold, ops, big, seed: vcore::rng::mix(ctx.stream_seed("stress"), round * 1000 + i) };
                        if !exec(ctx, &c) {
                            return;
                        }
                    }
                }
            }
        }
    }
}
