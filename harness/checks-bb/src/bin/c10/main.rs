//! C10 — port registry snapshots: never torn, never ghost, eventually exact.
//!
//! Code under test: `iceoryx2_bb_lock_free::mpmc::container::Container<T>` (the registry of
//! publishers / subscribers / ... inside every service's dynamic config).
//!
//! Parts
//!  * `snap.exhaustive` all preemption lists up to a bound for tiny participant programs
//!  * `snap.random`     random programs of three threads, up to 4 (6) preemptions
//!  * `snap.weak`       the same with C11-permitted stale reads of the atomics
//!  * `stress`          real threads at full speed with tear-detecting payloads
//!  * `crash`           an owner dies at its k-th atomic access (all k), a survivor recovers
extern crate iceoryx2_bb_loggers;

use core::fmt::Debug;
use core::ptr::NonNull;
use iceoryx2_bb_elementary::bump_allocator::BumpAllocator;
use iceoryx2_bb_elementary_traits::relocatable_container::RelocatableContainer;
use iceoryx2_bb_elementary_traits::zero_copy_send::ZeroCopySend;
use iceoryx2_bb_lock_free::mpmc::container::*;
use iceoryx2_bb_lock_free::mpmc::unique_index_set_enums::{ReleaseMode, ReleaseState};
use serde::{Deserialize, Serialize};
use std::sync::Mutex;
use std::sync::atomic::{AtomicBool, Ordering};
use vcore::sched::{self, OTHER, Schedule};
use vcore::util::idx;
use vcore::{Ctx, Failure, Obs, Spec, ensure};

mod crash;
mod oracle;
mod stress;

const SPEC: Spec = Spec {
    prop: "C10",
    level: "exploration",
    rule: "case = (capacity 1..3, one program per thread over Add | Remove(own handle, mode) | Refresh | Recover(dead owner / self, predicate, mode), schedule); a schedule is a preemption list over the atomic accesses of the real Container code: all lists up to the stated bound for the tiny programs (exhaustive part), PCT-style random lists with explicit thread targets and weak-memory stale-read choices beyond; oracle over operation intervals: every entry of every snapshot is untorn, was added (Add invoked before the refresh returned), was not removed before the refresh was invoked, every entry whose Add returned before the refresh was invoked and whose removal was not yet invoked is present, the 'changed' answer is admissible, OutOfSpace / lock answers are admissible, after the run one refresh of every state is exact and the next reports no change; stress part: real threads, self-checking 64/256-byte payloads, every entry seen is untorn, was added, was not removed before the refresh began, final state exact; crash part: the owner's process ends at its k-th atomic access, afterwards recover + refresh must leave no entry of the dead owner and no leaked slot; non-trivial = a slot was reused (add after remove on the same index) while a refresh of another thread was in progress (stress: reader saw >= 2 different values on one index; crash: death inside add/remove); distinct = hash of the whole case",
    assumptions: &[
        "schedules are explored at the granularity of atomic accesses; the payload copy between two atomics executes atomically under the scheduler, tearing is only observable in the real-thread stress part",
        "weak-memory mode under-approximates C11 (no load buffering / store delay) and only sees atomic locations (element counters, change counter, index set cells)",
        "a dead owner is a thread that finished (leaking its handles) or, in the crash part, a forked process that exits at a chosen atomic access; recover for an owner is only called after that owner ended",
        "stress and crash parts are not bit-reproducible from the replay file (timing); their replay re-runs the same parameters",
    ],
    watchdog_quick_s: 2400,
    watchdog_thorough_s: 21600,
};

pub const K: u64 = 0x9E37_79B9_7F4A_7C15;

/// self-checking registry entry: [id, id*K, !id, gen(id)]
#[repr(C)]
#[derive(Clone, Copy, Debug, PartialEq, Eq, Hash, Serialize, Deserialize, iceoryx2_bb_derive_macros::ZeroCopySend)]
pub struct V(pub [u64; 4]);

impl V {
    pub fn make(id: u64) -> V {
        V([id, id.wrapping_mul(K), !id, id.rotate_left(17) ^ K])
    }
    pub fn id(&self) -> u64 {
        self.0[0]
    }
    pub fn intact(&self) -> bool {
        *self == V::make(self.0[0])
    }
}

/// A `Container<T>` with runtime capacity on heap memory (neither the box nor the buffer
/// moves after `init`, as the relocatable pointers require).
pub struct Boxed<T: Copy + Debug> {
    _mem: Vec<u64>,
    c: Box<Container<T>>,
}

impl<T: Copy + Debug> Boxed<T> {
    pub fn new(cap: usize) -> Self {
        let size = Container::<T>::const_memory_size(cap) + 256;
        let mut mem = vec![0u64; size / 8 + 1];
        let alloc = BumpAllocator::new(NonNull::new(mem.as_mut_ptr() as *mut u8).unwrap(), size);
        let mut c = Box::new(unsafe { Container::<T>::new_uninit(cap) });
        unsafe { c.init(&alloc) }.expect("container memory");
        Boxed { _mem: mem, c }
    }
    pub fn get(&self) -> &Container<T> {
        &self.c
    }
}

// ------------------------------------------------------------------------------------------

#[derive(Clone, Debug, Serialize, Deserialize, Hash, PartialEq)]
pub enum Op {
    Add,
    /// removes the `idx(k, held)`-th handle this thread holds (skipped when it holds none)
    Remove { k: u16, lock: bool },
    /// first one of a thread: `get_state`, afterwards `update_state`
    Refresh,
    /// waits until thread 0 has ended, then `recover(owner of thread 0)`; skipped on thread 0
    RecoverDead { pred: u8, lock: bool },
    /// the thread forgets all its handles and recovers its own owner id
    RecoverSelf { pred: u8, lock: bool },
}

#[derive(Clone, Debug, Serialize, Deserialize, Hash)]
pub struct Case {
    pub cap: usize,
    /// one program per thread; thread t adds with owner id t+1
    pub progs: Vec<Vec<Op>>,
    pub sched: Schedule,
}

/// recover predicate: true = remove the entry
pub fn pred_removes(pred: u8, id: u64) -> bool {
    match pred {
        0 => true,
        1 => id % 2 == 0,
        _ => false,
    }
}

#[derive(Clone, Debug)]
pub enum Ev {
    AddB { id: u64 },
    /// res: 0 ok, 1 OutOfSpace, 2 IsLocked
    AddE { id: u64, res: u8, index: usize, ptr_ok: bool },
    RemB { id: u64, lock: bool },
    RemE { id: u64, ok: bool, locked: bool },
    RecB { owner: usize, pred: u8, lock: bool },
    RecE { locked: bool, seen: Vec<V> },
    RefB,
    RefE { changed: Option<bool>, view: Vec<(usize, V)>, fin: bool },
}

pub type Log = Vec<(usize, Ev)>;

struct Shared {
    log: Mutex<Log>,
    /// harness-side flag for `block_until` (std atomic: not a scheduling point)
    done0: AtomicBool,
    /// the same fact as an instrumented atomic, so that the weak-memory model knows that the
    /// end of thread 0 happens-before a recover of its owner id (as process death does)
    done0_hooked: iceoryx2_bb_concurrency::atomic::AtomicBool,
}

impl Shared {
    fn push(&self, t: usize, e: Ev) {
        self.log.lock().unwrap().push((t, e));
    }
}

struct Done0<'a>(&'a Shared, bool);
impl Drop for Done0<'_> {
    fn drop(&mut self) {
        if self.1 {
            self.0.done0_hooked.store(true, iceoryx2_bb_concurrency::atomic::Ordering::Release);
            self.0.done0.store(true, Ordering::SeqCst);
        }
    }
}

fn mode(lock: bool) -> ReleaseMode {
    if lock { ReleaseMode::LockIfLastIndex } else { ReleaseMode::Default }
}

pub fn snapshot(s: &ContainerState<V>) -> Vec<(usize, V)> {
    let mut view = vec![];
    s.for_each(|i, v| {
        view.push((i, *v));
        CallbackProgression::Continue
    });
    view
}

fn do_recover(c: &Container<V>, sh: &Shared, t: usize, owner: usize, pred: u8, lock: bool) {
    sh.push(t, Ev::RecB { owner, pred, lock });
    let mut seen = vec![];
    sched::op_begin();
    let r = unsafe {
        c.recover(
            OwnerId::new(owner as u64 + 1).unwrap(),
            |v: V| {
                seen.push(v);
                pred_removes(pred, v.id())
            },
            mode(lock),
        )
    };
    sched::op_end();
    sh.push(t, Ev::RecE { locked: r == ReleaseState::Locked, seen });
}

fn run_thread(c: &Container<V>, sh: &Shared, t: usize, prog: &[Op]) -> Option<ContainerState<V>> {
    let _done = Done0(sh, t == 0);
    let owner = OwnerId::new(t as u64 + 1).unwrap();
    let mut handles: Vec<(ContainerHandle, u64)> = vec![];
    let mut state: Option<ContainerState<V>> = None;
    for (i, op) in prog.iter().enumerate() {
        match op {
            Op::Add => {
                let id = (t as u64 + 1) * 100 + i as u64;
                let v = V::make(id);
                sh.push(t, Ev::AddB { id });
                sched::op_begin();
                let r = unsafe { c.add(v, owner) };
                sched::op_end();
                match r {
                    Ok((ptr, h)) => {
                        let back = unsafe { *ptr };
                        sh.push(t, Ev::AddE { id, res: 0, index: h.index(), ptr_ok: back == v });
                        handles.push((h, id));
                    }
                    Err(ContainerAddFailure::OutOfSpace) => sh.push(t, Ev::AddE { id, res: 1, index: 0, ptr_ok: true }),
                    Err(ContainerAddFailure::IsLocked) => sh.push(t, Ev::AddE { id, res: 2, index: 0, ptr_ok: true }),
                }
            }
            Op::Remove { k, lock } => {
                if handles.is_empty() {
                    continue;
                }
                let (h, id) = handles.remove(idx(*k, handles.len()));
                sh.push(t, Ev::RemB { id, lock: *lock });
                sched::op_begin();
                let r = unsafe { c.remove(h, mode(*lock)) };
                sched::op_end();
                sh.push(t, Ev::RemE { id, ok: r.is_ok(), locked: r == Ok(ReleaseState::Locked) });
            }
            Op::Refresh => {
                sh.push(t, Ev::RefB);
                sched::op_begin();
                let changed = match &mut state {
                    None => {
                        state = Some(unsafe { c.get_state() });
                        None
                    }
                    Some(s) => Some(unsafe { c.update_state(s) }),
                };
                sched::op_end();
                sh.push(t, Ev::RefE { changed, view: snapshot(state.as_ref().unwrap()), fin: false });
            }
            Op::RecoverDead { pred, lock } => {
                if t == 0 {
                    continue;
                }
                if !sched::block_until(&|| sh.done0.load(Ordering::SeqCst)) {
                    return state;
                }
                let mut spins = 0;
                while !sh.done0_hooked.load(iceoryx2_bb_concurrency::atomic::Ordering::Acquire) {
                    spins += 1;
                    if spins > 1000 {
                        return state;
                    }
                }
                do_recover(c, sh, t, 0, *pred, *lock);
            }
            Op::RecoverSelf { pred, lock } => {
                handles.clear();
                do_recover(c, sh, t, t, *pred, *lock);
            }
        }
    }
    state
}

pub struct Outcome {
    pub info: sched::RunInfo,
}

pub fn run_case(c: &Case, obs: &mut Obs) -> Result<Outcome, Failure> {
    let boxed = Boxed::<V>::new(c.cap);
    let cont = boxed.get();
    let sh = Shared { log: Mutex::new(vec![]), done0: AtomicBool::new(false), done0_hooked: iceoryx2_bb_concurrency::atomic::AtomicBool::new(false) };
    let shr = &sh;
    let states: Mutex<Vec<(usize, ContainerState<V>)>> = Mutex::new(vec![]);
    let statesr = &states;
    let mut bodies: Vec<Box<dyn FnOnce() + Send + '_>> = vec![];
    for (t, p) in c.progs.iter().enumerate() {
        bodies.push(Box::new(move || {
            if let Some(s) = run_thread(cont, shr, t, p) {
                statesr.lock().unwrap().push((t, s));
            }
        }));
    }
    let info = sched::run(bodies, &c.sched);
    ensure!(info.panics.is_empty(), "panic", "thread panicked: {:?}", info.panics);
    ensure!(!info.deadlock, "deadlock", "lock-free code deadlocked: blocked {:?}", info.blocked);
    if info.budget_exhausted {
        obs.discarded = true;
        return Ok(Outcome { info });
    }
    // ---- quiescence: (e) one refresh of every state is exact, the next reports no change ----
    let mut states = states.into_inner().unwrap();
    states.sort_by_key(|x| x.0);
    for (t, s) in states.iter_mut() {
        for _ in 0..2 {
            sh.push(*t, Ev::RefB);
            let changed = unsafe { cont.update_state(s) };
            sh.push(*t, Ev::RefE { changed: Some(changed), view: snapshot(s), fin: true });
        }
    }
    sh.push(oracle::FRESH, Ev::RefB);
    let fresh = unsafe { cont.get_state() };
    sh.push(oracle::FRESH, Ev::RefE { changed: None, view: snapshot(&fresh), fin: true });
    let len = cont.len();
    let log = sh.log.into_inner().unwrap();
    if std::env::var("C10_DEBUG").is_ok() {
        eprintln!("{}", oracle::render(&log));
        eprintln!("len {} locked {} info {:?}", len, cont.is_locked(), info);
    }
    let facts = oracle::analyze(c.cap, &log, info.stale_reads == 0, len)?;
    obs.nontrivial = facts.reuse_during_refresh;
    for (on, name) in [
        (facts.slot_reuse, "slot_reuse"),
        (facts.reuse_during_refresh, "slot_reuse_during_refresh"),
        (facts.refresh_overlaps_write, "refresh_overlaps_write"),
        (facts.recover, "recover"),
        (facts.recover_effective, "recover_removed_entries"),
        (facts.recover_concurrent, "recover_overlaps_other_op"),
        (facts.out_of_space, "out_of_space"),
        (facts.locked, "locked"),
        (facts.unchanged_answer, "refresh_reported_unchanged"),
        (facts.view_nonempty, "snapshot_nonempty"),
        (info.preempt_inside, "preempted_inside_op"),
        (info.stale_reads > 0, "with_stale_read"),
        (info.cas_fail > 0, "cas_failed"),
        (c.progs.len() >= 3, "three_threads"),
    ] {
        if on {
            obs.class(name);
        }
    }
    Ok(Outcome { info })
}

fn case_shrinks(c: &Case) -> Vec<Case> {
    let mut out = vec![];
    for s in sched::shrink_schedule(&c.sched) {
        out.push(Case { sched: s, ..c.clone() });
    }
    for t in 0..c.progs.len() {
        for i in (0..c.progs[t].len()).rev() {
            let mut n = c.clone();
            n.progs[t].remove(i);
            out.push(n);
        }
    }
    if c.progs.len() > 1 && c.progs.last().unwrap().is_empty() {
        let mut n = c.clone();
        n.progs.pop();
        out.push(n);
    }
    for i in 0..c.sched.preempt.len() {
        if c.sched.preempt[i].0 > 1 {
            let mut n = c.clone();
            n.sched.preempt[i].0 -= 1;
            if i == 0 || n.sched.preempt[i - 1].0 < n.sched.preempt[i].0 {
                out.push(n);
            }
        }
    }
    out
}

fn fails_with(c: &Case, sig: &str) -> bool {
    matches!(Ctx::guarded(|| run_case(c, &mut Obs::default()).map(|_| ())), Err(f) if f.signature == sig)
}

/// runs a case; on failure shrinks it and files the violation; false = stop this part
fn exec_case(ctx: &mut Ctx, part: &str, c: &Case) -> bool {
    let mut obs = Obs::default();
    let r = Ctx::guarded(|| run_case(c, &mut obs).map(|_| ()));
    ctx.record(part, vcore::rng::hash_str(&format!("{c:?}")), &obs, || serde_json::to_value(c).unwrap());
    if let Err(f) = r {
        if ctx.is_open_finding(&f.signature) {
            ctx.violation(part, &f, serde_json::to_value(c).unwrap());
            return true;
        }
        if ctx.replay.is_some() {
            ctx.violation(part, &f, serde_json::to_value(c).unwrap());
            return false;
        }
        let sig = f.signature.clone();
        // only deletions that keep the schedule meaningful: the greedy loop re-runs every candidate
        let min = vcore::shrink::greedy(c.clone(), case_shrinks, |cand| fails_with(cand, &sig), 600);
        let fin = Ctx::guarded(|| run_case(&min, &mut Obs::default()).map(|_| ())).err().unwrap_or(f);
        ctx.violation(part, &fin, serde_json::to_value(&min).unwrap());
        return false;
    }
    true
}

// ------------------------------------------------------------------------------------------
// program families
// ------------------------------------------------------------------------------------------

const A: Op = Op::Add;
const F: Op = Op::Refresh;
const R0: Op = Op::Remove { k: 0, lock: false };
const RN: Op = Op::Remove { k: 0xffff, lock: false };
const RL: Op = Op::Remove { k: 0, lock: true };

/// all writer programs over {Add, Remove(oldest), Remove(newest)} up to `maxlen` in which
/// every Remove finds a handle (counting every Add as successful)
fn writer_programs(maxlen: usize) -> Vec<Vec<Op>> {
    let mut out = vec![];
    let mut frontier: Vec<(Vec<Op>, usize)> = vec![(vec![], 0)];
    for _ in 0..maxlen {
        let mut next = vec![];
        for (p, held) in &frontier {
            let mut q = p.clone();
            q.push(A);
            next.push((q, held + 1));
            if *held >= 1 {
                let mut q = p.clone();
                q.push(R0);
                next.push((q, held - 1));
            }
            if *held >= 2 {
                let mut q = p.clone();
                q.push(RN);
                next.push((q, held - 1));
            }
        }
        out.extend(next.iter().map(|x| x.0.clone()));
        frontier = next;
    }
    out
}

/// (capacity, programs, deep) of the exhaustive part; `deep` programs get one more preemption
fn exhaustive_family(ctx: &Ctx) -> Vec<(usize, Vec<Vec<Op>>, bool)> {
    let mut fam = vec![];
    let maxlen = ctx.scale(3, 4);
    for cap in 1..=2usize {
        // writer || reader, both start orders
        for w in writer_programs(maxlen) {
            for r in 2..=3usize {
                let reader = vec![F; r];
                let deep = w == vec![A, R0, A];
                fam.push((cap, vec![w.clone(), reader.clone()], deep));
                fam.push((cap, vec![reader, w.clone()], deep && r == 3));
            }
        }
        // two writers racing for the same slots, no reader (the final exactness check decides)
        for w0 in [vec![A, R0], vec![A, R0, A], vec![A, A, R0]] {
            for w1 in [vec![A], vec![A, R0], vec![A, R0, A]] {
                fam.push((cap, vec![w0.clone(), w1.clone()], w0.len() == 2 && w1.len() <= 2));
            }
        }
        // three threads, explicit preemption targets
        let rd = vec![F, F];
        let rec = Op::RecoverDead { pred: 0, lock: false };
        for (w0, w1) in [
            (vec![A, R0], vec![A]),
            (vec![A, R0], vec![A, R0]),
            (vec![A, R0, A], vec![A]),
            (vec![A], vec![rec.clone(), A]),
            (vec![A, A], vec![A, rec.clone()]),
            (vec![A, RL], vec![A]),
        ] {
            fam.push((cap, vec![w0, w1, rd.clone()], false));
        }
        // recover by the reader while a third thread adds into the recovered slot
        fam.push((cap, vec![vec![A], vec![A, A], vec![F, rec.clone(), F]], false));
        // recovering reader, self-recovering writer, locking writer
        fam.push((cap, vec![vec![A, A], vec![F, rec.clone(), F]], false));
        fam.push((cap, vec![vec![A, R0, A], vec![F, rec.clone(), F]], false));
        fam.push((cap, vec![vec![A, Op::RecoverSelf { pred: 0, lock: false }, A], vec![F, F, F]], false));
        fam.push((cap, vec![vec![A, A, Op::RecoverSelf { pred: 1, lock: false }], vec![F, F]], false));
        fam.push((cap, vec![vec![A, RL, A], vec![F, F]], false));
    }
    fam
}

/// calls `f` with every preemption list of at most `bound` entries (small to large per level)
fn for_each_list(yields: u32, targets: &[u8], bound: usize, f: &mut dyn FnMut(&[(u32, u8)]) -> bool) -> bool {
    fn rec(from: u32, yields: u32, targets: &[u8], left: usize, cur: &mut Vec<(u32, u8)>, f: &mut dyn FnMut(&[(u32, u8)]) -> bool) -> bool {
        if left == 0 {
            return f(cur);
        }
        for y in from..=yields {
            for t in targets {
                cur.push((y, *t));
                let go = rec(y + 1, yields, targets, left - 1, cur, f);
                cur.pop();
                if !go {
                    return false;
                }
            }
        }
        true
    }
    for n in 0..=bound {
        if !rec(1, yields, targets, n, &mut vec![], f) {
            return false;
        }
    }
    true
}

fn est_yields(c: &Case) -> u32 {
    let cap = c.cap as u32;
    let mut n = 4;
    for p in &c.progs {
        for op in p {
            n += match op {
                Op::Add => 9,
                Op::Remove { lock, .. } => 6 + if *lock { 4 + cap } else { 0 },
                Op::Refresh => 1 + 2 * cap,
                _ => 4 + 6 * cap,
            };
        }
    }
    n
}

fn gen_writer(rng: &mut vcore::rng::SplitMix, t: usize, len: usize, lock_ok: bool, recover_ok: bool) -> Vec<Op> {
    let mut p = vec![];
    for _ in 0..len {
        let x = rng.below(100);
        let lock = lock_ok && rng.chance(1, 3);
        p.push(if x < 50 || (x >= 90 && !recover_ok) {
            Op::Add
        } else if x < 86 {
            Op::Remove { k: rng.below(1 << 16) as u16, lock }
        } else if x < 90 {
            Op::Refresh
        } else if x < 94 || t == 0 {
            Op::RecoverSelf { pred: rng.below(3) as u8, lock }
        } else {
            Op::RecoverDead { pred: rng.below(3) as u8, lock }
        });
    }
    p
}

fn gen_reader(rng: &mut vcore::rng::SplitMix, lock_ok: bool, recover_ok: bool) -> Vec<Op> {
    let n = rng.range(2, 5) as usize;
    let mut p = vec![Op::Refresh; n];
    if recover_ok && rng.chance(1, 3) {
        let at = rng.range(1, n as u64) as usize;
        p.insert(at, Op::RecoverDead { pred: rng.below(3) as u8, lock: lock_ok && rng.chance(1, 3) });
    }
    if rng.chance(1, 8) {
        let at = rng.range(1, p.len() as u64) as usize;
        p.insert(at, Op::Add);
    }
    p
}

fn gen_case(rng: &mut vcore::rng::SplitMix, weak: bool, maxp: u64) -> Case {
    let cap = rng.range(1, 3) as usize;
    let lock_ok = rng.chance(1, 6);
    let recover_ok = rng.chance(1, 2);
    let shape = rng.below(10);
    let wl = |rng: &mut vcore::rng::SplitMix| rng.range(2, 5) as usize;
    let progs = match shape {
        0..=5 => {
            let (a, b) = (wl(rng), wl(rng));
            vec![gen_writer(rng, 0, a, lock_ok, recover_ok), gen_writer(rng, 1, b, lock_ok, recover_ok), gen_reader(rng, lock_ok, recover_ok)]
        }
        6 => {
            let a = wl(rng);
            vec![gen_reader(rng, lock_ok, false), gen_writer(rng, 1, a, lock_ok, false), gen_writer(rng, 2, 2, lock_ok, false)]
        }
        7 => {
            let a = wl(rng) + 1;
            vec![gen_writer(rng, 0, a, lock_ok, recover_ok), gen_reader(rng, lock_ok, recover_ok)]
        }
        8 => {
            let (a, b) = (wl(rng), wl(rng));
            vec![gen_writer(rng, 0, a, lock_ok, recover_ok), gen_writer(rng, 1, b, lock_ok, recover_ok)]
        }
        _ => {
            let a = wl(rng);
            vec![gen_writer(rng, 0, a, lock_ok, recover_ok), gen_reader(rng, lock_ok, recover_ok), gen_reader(rng, lock_ok, recover_ok)]
        }
    };
    let mut c = Case { cap, progs, sched: Schedule::default() };
    let nthreads = c.progs.len() as u8;
    let np = rng.range(1, maxp) as usize;
    let est = est_yields(&c);
    c.sched.preempt = sched::random_preemptions(rng, est, nthreads, np).into_iter().map(|(y, t)| (y, if nthreads == 2 { OTHER as u8 } else { t })).collect();
    if weak {
        c.sched.weak = true;
        c.sched.stale = (0..rng.range(1, 14)).map(|_| if rng.chance(1, 2) { rng.range(1, 3) as u8 } else { 0 }).collect();
    }
    c
}

fn sched_parts(ctx: &mut Ctx) {
    for part in ["snap.exhaustive", "snap.random", "snap.weak"] {
        if let Some(c) = ctx.replay_case::<Case>(part) {
            exec_case(ctx, part, &c);
            return;
        }
    }
    if ctx.replay.is_some() {
        return;
    }
    if ctx.part_enabled("snap.exhaustive") {
        let bound2 = ctx.scale(2, 3); // two-thread programs (+1 for the `deep` ones)
        let bound3 = ctx.scale(2, 3); // three-thread programs
        let mut counter = 0u64;
        let mut ok = true;
        let mut nprog = 0;
        for (cap, progs, deep) in exhaustive_family(ctx) {
            nprog += 1;
            let base = Case { cap, progs, sched: Schedule::default() };
            let y = match run_case(&base, &mut Obs::default()) {
                Ok(o) => o.info.yields,
                Err(_) => {
                    ok = exec_case(ctx, "snap.exhaustive", &base);
                    if !ok {
                        break;
                    }
                    continue;
                }
            };
            let two = base.progs.len() == 2;
            let targets: Vec<u8> = if two { vec![OTHER as u8] } else { (0..base.progs.len() as u8).collect() };
            let bound = if two { bound2 + deep as usize } else { bound3 };
            let ctxp: *mut Ctx = ctx;
            let go = for_each_list(y + 2, &targets, bound, &mut |l| {
                let ctx = unsafe { &mut *ctxp };
                counter += 1;
                if !ctx.mine(counter) {
                    return true;
                }
                let c = Case { sched: Schedule { preempt: l.to_vec(), ..Default::default() }, ..base.clone() };
                exec_case(ctx, "snap.exhaustive", &c)
            });
            if !go {
                ok = false;
                break;
            }
        }
        if ok {
            ctx.mark_exhaustive(format!(
                "snap.exhaustive: all preemption lists with <= {bound2} preemptions for every writer program of length <= {} over {{add, remove oldest, remove newest}} against a reader with 1..2 refreshes after get_state (both start orders), for 9 two-writer programs and 5 recover/lock two-thread programs; <= {} preemptions for writer (add, remove, add) || reader and for writer (add, remove) || writer (add[, remove]); all lists with <= {bound3} preemptions and explicit targets for 7 three-thread programs incl. recover of a dead owner and LockIfLastIndex; capacities 1..2; {nprog} programs",
                ctx.scale(3, 4),
                bound2 + 1
            ));
        }
    }
    for (part, weak) in [("snap.random", false), ("snap.weak", true)] {
        if !ctx.part_enabled(part) {
            continue;
        }
        let total = if weak { ctx.scale(250_000u64, 3_000_000) } else { ctx.scale(700_000u64, 8_000_000) };
        let div = std::env::var("C10_DIV").ok().and_then(|s| s.parse::<u64>().ok()).unwrap_or(1).max(1);
        let n = ctx.share(total / div);
        let mut rng = ctx.rng(part);
        let maxp = ctx.scale(4, 6);
        for _ in 0..n {
            let c = gen_case(&mut rng, weak, maxp);
            if !exec_case(ctx, part, &c) {
                break;
            }
        }
    }
}

fn body(ctx: &mut Ctx) {
    iceoryx2_log::set_log_level(iceoryx2_log::LogLevel::Fatal);
    sched::install();
    stress::part(ctx);
    ctx.pin_to_one_cpu();
    sched_parts(ctx);
    crash::part(ctx);
}

fn main() {
    vcore::main(SPEC, body);
}
