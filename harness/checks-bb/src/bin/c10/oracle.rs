//! Oracle of the scheduler parts: the log holds begin / end events of every operation in
//! real-time order (one thread runs at a time; the events are pushed outside the operation),
//! so `[begin, end]` positions are a superset of the true operation interval.
use crate::{Ev, Log, V, pred_removes};
use std::collections::BTreeMap;
use vcore::{Failure, ensure};

/// pseudo thread id of the fresh `get_state` taken after the run
pub const FRESH: usize = 99;
pub const SIG_WEAK_HANDOVER: &str = "weak.lost_add_after_slot_handover";

#[derive(Default, Debug)]
pub struct Facts {
    pub slot_reuse: bool,
    pub reuse_during_refresh: bool,
    pub refresh_overlaps_write: bool,
    pub recover: bool,
    pub recover_effective: bool,
    pub recover_concurrent: bool,
    pub out_of_space: bool,
    pub locked: bool,
    pub unchanged_answer: bool,
    pub view_nonempty: bool,
}

#[derive(Debug)]
struct Val {
    id: u64,
    owner: usize,
    b: usize,
    e: usize,
    res: u8,
    index: usize,
    ptr_ok: bool,
    /// interval in which the entry was taken out (Remove, or the covering Recover calls)
    rem: Option<(usize, usize)>,
    removed_by_remove: bool,
}

#[derive(Debug)]
struct Rem {
    t: usize,
    id: u64,
    b: usize,
    e: usize,
    lock: bool,
    ok: bool,
    locked: bool,
}

#[derive(Debug)]
struct Rec {
    t: usize,
    owner: usize,
    pred: u8,
    lock: bool,
    b: usize,
    e: usize,
    locked: bool,
    seen: Vec<V>,
    covered: usize,
}

#[derive(Debug)]
struct Rf {
    t: usize,
    b: usize,
    e: usize,
    changed: Option<bool>,
    view: Vec<(usize, V)>,
    fin: bool,
}

pub fn render(log: &Log) -> String {
    let mut s = String::new();
    for (i, (t, e)) in log.iter().enumerate() {
        let txt = match e {
            Ev::AddB { id } => format!("add({id}) begin"),
            Ev::AddE { id, res, index, .. } => format!("add({id}) -> {}", ["ok", "OutOfSpace", "IsLocked"][*res as usize]) + &if *res == 0 { format!(" @{index}") } else { String::new() },
            Ev::RemB { id, lock } => format!("remove({id}{}) begin", if *lock { ", lock" } else { "" }),
            Ev::RemE { id, ok, locked } => format!("remove({id}) -> {}{}", if *ok { "ok" } else { "ERR" }, if *locked { " Locked" } else { "" }),
            Ev::RecB { owner, pred, lock } => format!("recover(owner of t{owner}, pred {pred}{}) begin", if *lock { ", lock" } else { "" }),
            Ev::RecE { locked, seen } => format!("recover -> {} saw {:?}", if *locked { "Locked" } else { "Unlocked" }, seen.iter().map(|v| v.id()).collect::<Vec<_>>()),
            Ev::RefB => "refresh begin".to_string(),
            Ev::RefE { changed, view, fin } => format!(
                "refresh{} -> {} {:?}",
                if *fin { "(after run)" } else { "" },
                match changed {
                    None => "get_state",
                    Some(true) => "changed",
                    Some(false) => "unchanged",
                },
                view.iter().map(|(i, v)| (*i, v.id())).collect::<Vec<_>>()
            ),
        };
        s.push_str(&format!("{i}:t{t} {txt}; "));
    }
    s
}

/// `strict` = the run had no C11-stale read (sequentially consistent run)
pub fn analyze(cap: usize, log: &Log, strict: bool, len_at_end: usize) -> Result<Facts, Failure> {
    let mut any_handover = false;
    match analyze_inner(cap, log, strict, len_at_end, &mut any_handover) {
        // Known finding (weak memory only): the hand-over of a slot between two threads carries no
        // happens-before; add may read a stale even element counter and flip the parity of the
        // slot. The entry added there is invisible while registered, visible once removed, and a
        // later recover takes it for "died inside add". All symptoms are quiescent-state errors.
        Err(f) if !strict && any_handover && f.signature.starts_with("final.") => Err(Failure::new(SIG_WEAK_HANDOVER, format!("(run with stale reads, a slot was handed over between threads) {}", f.message))),
        r => r,
    }
}

fn analyze_inner(cap: usize, log: &Log, strict: bool, len_at_end: usize, any_handover: &mut bool) -> Result<Facts, Failure> {
    let inf = log.len() + 1;
    let mut vals: Vec<Val> = vec![];
    let mut rems: Vec<Rem> = vec![];
    let mut recs: Vec<Rec> = vec![];
    let mut rfs: Vec<Rf> = vec![];
    let mut open: BTreeMap<usize, usize> = BTreeMap::new(); // thread -> position of its begin event
    for (pos, (t, e)) in log.iter().enumerate() {
        match e {
            Ev::AddB { id } => {
                vals.push(Val { id: *id, owner: *t, b: pos, e: inf, res: 3, index: 0, ptr_ok: true, rem: None, removed_by_remove: false });
            }
            Ev::AddE { id, res, index, ptr_ok } => {
                let v = vals.iter_mut().find(|v| v.id == *id).expect("add end without begin");
                v.e = pos;
                v.res = *res;
                v.index = *index;
                v.ptr_ok = *ptr_ok;
            }
            Ev::RemB { id, lock } => rems.push(Rem { t: *t, id: *id, b: pos, e: inf, lock: *lock, ok: false, locked: false }),
            Ev::RemE { id, ok, locked } => {
                let r = rems.iter_mut().find(|r| r.id == *id).expect("remove end without begin");
                r.e = pos;
                r.ok = *ok;
                r.locked = *locked;
            }
            Ev::RecB { owner, pred, lock } => {
                open.insert(*t, recs.len());
                recs.push(Rec { t: *t, owner: *owner, pred: *pred, lock: *lock, b: pos, e: inf, locked: false, seen: vec![], covered: 0 });
            }
            Ev::RecE { locked, seen } => {
                let r = &mut recs[open[t]];
                r.e = pos;
                r.locked = *locked;
                r.seen = seen.clone();
            }
            Ev::RefB => {
                open.insert(*t, rfs.len());
                rfs.push(Rf { t: *t, b: pos, e: inf, changed: None, view: vec![], fin: false });
            }
            Ev::RefE { changed, view, fin } => {
                let r = &mut rfs[open[t]];
                r.e = pos;
                r.changed = *changed;
                r.view = view.clone();
                r.fin = *fin;
            }
        }
    }
    let dump = || render(log);
    let mut facts = Facts::default();

    // ---- adds and removes by themselves ------------------------------------------------
    for v in &vals {
        ensure!(v.ptr_ok, "add.pointer", "the pointer returned by add({}) does not show the added value: {}", v.id, dump());
        ensure!(v.res != 0 || v.index < cap, "add.index", "add({}) returned index {} >= capacity {cap}", v.id, v.index);
        if v.res == 1 {
            facts.out_of_space = true;
        }
    }
    for r in &rems {
        ensure!(r.e == inf || r.ok, "remove.failed", "remove({}) of an own, live handle failed: {}", r.id, dump());
        if let Some(v) = vals.iter_mut().find(|v| v.id == r.id) {
            v.rem = Some((r.b, r.e));
            v.removed_by_remove = true;
        }
    }

    // ---- recover: what the predicate was shown, what was taken out ----------------------
    let mut covering: BTreeMap<u64, Vec<usize>> = BTreeMap::new();
    let spans: Vec<(usize, usize, usize)> = recs.iter().map(|r| (r.owner, r.b, r.e)).collect();
    for (ri, r) in recs.iter_mut().enumerate() {
        facts.recover = true;
        // Two recover calls for the same owner may overlap; the loser of the race for a cell can
        // hand the value of the slot's next tenant to its predicate (its CAS on the cell then
        // fails, nothing is removed). Nothing forbids that, so such values are only ignored.
        let raced = spans.iter().enumerate().any(|(j, (o, b, e))| j != ri && *o == r.owner && *b < r.e && r.b < *e);
        for sv in &r.seen {
            ensure!(sv.intact(), "recover.torn", "recover handed a torn value {:?} to the predicate: {}", sv, render(log));
            let v = vals.iter().find(|v| v.id == sv.id());
            let okv = matches!(v, Some(v) if v.owner == r.owner && v.res == 0 && v.e < r.b && !v.removed_by_remove);
            // (with C11-stale reads of the cell the same can happen without an overlap)
            if !okv && (raced || !strict) && matches!(v, Some(v) if v.b < r.e && v.res == 0) {
                continue;
            }
            ensure!(okv, "recover.predicate_value", "recover of the owner of t{} showed {} to the predicate, which is not a live entry of that owner: {}", r.owner, sv.id(), render(log));
            if pred_removes(r.pred, sv.id()) {
                covering.entry(sv.id()).or_default().push(ri);
                r.covered += 1;
            }
        }
        if r.covered > 0 {
            facts.recover_effective = true;
        }
    }
    for (id, list) in &covering {
        // the recover calls are in begin order already
        let first = &recs[list[0]];
        let (b, mut e) = (first.b, first.e);
        for ri in &list[1..] {
            let r = &recs[*ri];
            ensure!(r.b < e || !strict, "recover.predicate_value", "recover showed {id} to the predicate although an earlier recover had removed it and returned: {}", dump());
            e = e.max(r.e);
        }
        let v = vals.iter_mut().find(|v| v.id == *id).unwrap();
        v.rem = Some((b, e));
    }
    let has_lock_ops = rems.iter().any(|r| r.lock) || recs.iter().any(|r| r.lock);
    if strict && !has_lock_ops {
        for r in &recs {
            for v in &vals {
                if v.owner == r.owner && v.res == 0 && v.e < r.b && !v.removed_by_remove && pred_removes(r.pred, v.id) {
                    let done = covering.get(&v.id).map(|l| l.iter().any(|ri| recs[*ri].b < r.e)).unwrap_or(false);
                    ensure!(done, "recover.incomplete", "recover of the owner of t{} returned without offering its live entry {} to the predicate: {}", r.owner, v.id, dump());
                }
            }
        }
    }

    *any_handover = vals.iter().any(|v| {
        v.res == 0
            && vals.iter().any(|u| {
                u.id != v.id && u.res == 0 && u.index == v.index && u.e < v.e && {
                    let by_remove = rems.iter().any(|r| r.id == u.id && r.t != v.owner);
                    let by_recover = covering.get(&u.id).map(|l| l.iter().any(|ri| recs[*ri].t != v.owner)).unwrap_or(false);
                    by_remove || by_recover
                }
            })
    });
    // ---- snapshots ---------------------------------------------------------------------
    for rf in &rfs {
        let mut ids = vec![];
        for (index, sv) in &rf.view {
            facts.view_nonempty = true;
            ensure!(*index < cap, "snapshot.index", "entry at index {index} >= capacity: {}", dump());
            ensure!(sv.intact(), "snapshot.torn", "torn entry {:?} at index {index} (refresh at {}): {}", sv, rf.b, dump());
            let v = vals.iter().find(|v| v.id == sv.id());
            let v = match v {
                Some(v) if v.b < rf.e && (v.res == 0 || v.res == 3) => v,
                _ => {
                    return Err(Failure::new("snapshot.ghost", format!("refresh at {} shows {} which was never (successfully) added before it returned: {}", rf.b, sv.id(), dump())));
                }
            };
            ensure!(v.res != 0 || v.index == *index, "snapshot.index", "entry {} is shown at index {index}, add returned index {}: {}", v.id, v.index, dump());
            ensure!(!ids.contains(&v.id), "snapshot.duplicate", "entry {} appears twice: {}", v.id, dump());
            ids.push(v.id);
            if let Some((_, re)) = v.rem {
                if rf.fin {
                    return Err(Failure::new("final.not_exact", format!("after the run the state of t{} still shows the removed entry {}: {}", rf.t, v.id, dump())));
                }
                ensure!(!strict || re > rf.b, "snapshot.stale_entry", "refresh invoked at {} shows {} whose removal had returned at {re}: {}", rf.b, v.id, dump());
            }
        }
        for v in &vals {
            if v.res == 0 && v.e < rf.b && !ids.contains(&v.id) {
                match v.rem {
                    None if rf.fin => {
                        return Err(Failure::new("final.not_exact", format!("after the run the state of t{} lacks the registered entry {}: {}", rf.t, v.id, dump())));
                    }
                    None => ensure!(!strict, "snapshot.missing_entry", "refresh invoked at {} lacks {} whose add had returned at {} and which was never removed: {}", rf.b, v.id, v.e, dump()),
                    Some((rb, _)) => ensure!(!strict || rb < rf.e, "snapshot.missing_entry", "refresh [{}, {}] lacks {} whose add had returned at {} and whose removal began only at {rb}: {}", rf.b, rf.e, v.id, v.e, dump()),
                }
            }
        }
    }
    // the second refresh after the run reports "nothing changed"
    let mut fin_seen: BTreeMap<usize, usize> = BTreeMap::new();
    for rf in rfs.iter().filter(|r| r.fin && r.t != FRESH) {
        let n = fin_seen.entry(rf.t).or_default();
        *n += 1;
        if *n == 2 {
            ensure!(rf.changed == Some(false), "final.not_quiescent", "second refresh after the run still reports a change (t{}): {}", rf.t, dump());
        }
    }

    // ---- the 'changed' answer ----------------------------------------------------------
    // writes that bump the change counter: successful add / remove, every recover
    let mut bumps: Vec<(usize, usize, bool)> = vec![]; // (begin, end, must be noticed)
    for v in &vals {
        if v.res == 0 {
            bumps.push((v.b, v.e, true));
        }
    }
    for r in &rems {
        if r.ok {
            bumps.push((r.b, r.e, true));
        }
    }
    for r in &recs {
        bumps.push((r.b, r.e, r.covered > 0));
    }
    if strict {
        let mut threads: Vec<usize> = rfs.iter().map(|r| r.t).collect();
        threads.sort();
        threads.dedup();
        for t in threads {
            let mut prev: Option<&Rf> = None;
            for rf in rfs.iter().filter(|r| r.t == t) {
                match rf.changed {
                    None => prev = Some(rf),
                    Some(true) => {
                        let p = prev.expect("update_state before get_state");
                        let possible = bumps.iter().any(|(b, e, _)| *b < rf.e && *e > p.b);
                        ensure!(possible, "snapshot.spurious_change", "refresh [{}, {}] of t{t} reports a change although no add/remove/recover ran since its previous effective refresh began at {}: {}", rf.b, rf.e, p.b, dump());
                        prev = Some(rf);
                    }
                    Some(false) => {
                        facts.unchanged_answer = true;
                        let p = prev.expect("update_state before get_state");
                        let missed = bumps.iter().find(|(b, e, must)| *must && *e < rf.b && *b > p.e);
                        ensure!(missed.is_none(), "snapshot.change_missed", "refresh invoked at {} of t{t} reports 'unchanged' although the write [{}, {}] completed after its previous effective refresh returned at {}: {}", rf.b, missed.unwrap().0, missed.unwrap().1, p.e, dump());
                    }
                }
            }
        }
    }

    // ---- admissibility of OutOfSpace / success / lock answers ----------------------------
    let locked_ops: Vec<(usize, usize)> = rems.iter().filter(|r| r.locked).map(|r| (r.b, r.e)).chain(recs.iter().filter(|r| r.locked).map(|r| (r.b, r.e))).collect();
    facts.locked = !locked_ops.is_empty();
    if strict {
        for a in &vals {
            // entries that may hold a slot at some instant of a's interval / hold one throughout
            let may = vals.iter().filter(|v| v.id != a.id && (v.res == 0 || v.res == 2 || v.res == 3) && v.b < a.e && !matches!(v.rem, Some((_, re)) if re < a.b)).count();
            let surely = vals.iter().filter(|v| v.id != a.id && v.res == 0 && v.e < a.b && !matches!(v.rem, Some((rb, _)) if rb < a.e)).count();
            match a.res {
                1 => ensure!(may >= cap, "add.spurious_full", "add({}) failed with OutOfSpace although at most {may} of {cap} slots could be in use during the call: {}", a.id, dump()),
                0 => {
                    ensure!(surely < cap, "add.over_capacity", "add({}) succeeded although {surely} entries held all {cap} slots throughout the call: {}", a.id, dump());
                    let after_lock = locked_ops.iter().any(|(_, e)| *e < a.b);
                    ensure!(!after_lock, "lock.add_after_lock", "add({}) succeeded after an operation had returned Locked: {}", a.id, dump());
                }
                2 => {
                    let src = locked_ops.iter().any(|(b, _)| *b < a.e);
                    ensure!(src, "lock.spurious_is_locked", "add({}) failed with IsLocked although no operation locked the container: {}", a.id, dump());
                }
                _ => {}
            }
        }
        // answers of LockIfLastIndex operations
        let lock_answers: Vec<(usize, usize, bool, Vec<u64>, bool)> = rems
            .iter()
            .filter(|r| r.lock && r.ok)
            .map(|r| (r.b, r.e, r.locked, vec![r.id], true))
            .chain(recs.iter().filter(|r| r.lock || r.locked).map(|r| {
                let own: Vec<u64> = r.seen.iter().filter(|v| pred_removes(r.pred, v.id())).map(|v| v.id()).collect();
                // the cell CAS of this call only surely succeeded (and lock() was only surely
                // called) when no other recover of the same owner ran at the same time
                let raced = recs.iter().any(|o| (o.b, o.e) != (r.b, r.e) && o.owner == r.owner && o.b < r.e && r.b < o.e);
                let released = !own.is_empty() && !raced;
                (r.b, r.e, r.locked, own, r.lock && released)
            }))
            .collect();
        for (b, e, locked, own, decisive) in &lock_answers {
            if *locked {
                let earlier = locked_ops.iter().any(|(ob, oe)| (*ob, *oe) != (*b, *e) && *ob < *e);
                let surely = vals.iter().filter(|v| !own.contains(&v.id) && v.res == 0 && v.e < *b && !matches!(v.rem, Some((rb, _)) if rb < *e)).count();
                ensure!(earlier || surely == 0, "lock.spurious_locked", "operation [{b}, {e}] returned Locked although {surely} other entries were registered throughout: {}", dump());
            } else if *decisive {
                let may = vals.iter().filter(|v| !own.contains(&v.id) && v.res != 1 && v.b < *e && !matches!(v.rem, Some((_, re)) if re < *b)).count();
                ensure!(may > 0, "lock.missed_lock", "LockIfLastIndex operation [{b}, {e}] released the last entry but returned Unlocked: {}", dump());
            }
        }
    }
    if !facts.locked && !vals.iter().any(|v| v.res == 2) {
        let live = vals.iter().filter(|v| v.res == 0 && v.rem.is_none()).count();
        ensure!(len_at_end == live, "final.len", "len() is {len_at_end} after the run, {live} entries are registered: {}", dump());
    }

    // ---- what this case exercised --------------------------------------------------------
    for a in vals.iter().filter(|v| v.res == 0) {
        let reused = vals.iter().any(|v| v.id != a.id && v.res == 0 && v.index == a.index && v.b < a.b);
        if reused {
            facts.slot_reuse = true;
            if rfs.iter().any(|r| !r.fin && r.t != a.owner && r.b < a.e && a.b < r.e) {
                facts.reuse_during_refresh = true;
            }
        }
    }
    for rf in rfs.iter().filter(|r| !r.fin) {
        if bumps.iter().any(|(b, e, _)| *b < rf.e && rf.b < *e) {
            facts.refresh_overlaps_write = true;
        }
    }
    for r in &recs {
        let overlaps = vals.iter().any(|v| v.owner != r.t && v.b < r.e && r.b < v.e) || rems.iter().any(|x| x.t != r.t && x.b < r.e && r.b < x.e) || rfs.iter().any(|x| !x.fin && x.t != r.t && x.b < r.e && r.b < x.e);
        if overlaps {
            facts.recover_concurrent = true;
        }
    }
    Ok(facts)
}
