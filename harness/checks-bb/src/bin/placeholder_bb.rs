fn main(){}
