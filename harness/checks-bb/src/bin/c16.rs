//! C16 — fixed-capacity containers match reference models, drop elements once.
//!
//! Parts are registered per container family in `checks_bb::c16::*`; this file holds the
//! vector family (the template the other families follow) and the `main`.
extern crate iceoryx2_bb_loggers;

use checks_bb::reloc::Block;
use checks_bb::tracked::{self, Tracked};
use iceoryx2_bb_container::vector::*;
use iceoryx2_bb_memory::heap_allocator::HeapAllocator;
use proptest::prelude::*;
use serde::{Deserialize, Serialize};
use vcore::util::idx;
use vcore::{Ctx, Failure, Obs, Spec, ensure};

const SPEC: Spec = Spec {
    prop: "C16",
    level: "exploration",
    rule: "operation sequences over each container type x storage flavour x capacity, bounded-exhaustive (all sequences up to length L over a reduced alphabet, values {0,1,2}) and proptest-random (long sequences, full alphabet); oracle = std container model compared after every op (return value, len/is_empty/is_full, full contents) plus exactly-once drop accounting; non-trivial = the case reached is_full and removed from a non-end position and inserted afterwards (strings: contained a rejected byte and a multi-byte edit); distinct = hash of (flavour, capacity, op sequence)",
    assumptions: &[
        "panics documented as caller contract violations are excluded by construction (ops are generated only inside documented preconditions)",
        "memory safety of the unsafe code is additionally exercised under ASan by the fuzz stage, not by this binary",
    ],
    watchdog_quick_s: 900,
    watchdog_thorough_s: 7200,
};

// ------------------------------------------------------------------------------------------
// vector family
// ------------------------------------------------------------------------------------------

#[derive(Clone, Debug, Serialize, Deserialize)]
pub enum VOp {
    Push(u8),
    Pop,
    Insert(u16, u8),
    Remove(u16),
    Clear,
    Truncate(u16),
    Resize(u16, u8),
    ResizeWith(u16, u8),
    Extend(Vec<u8>),
}

#[derive(Clone, Debug, Serialize, Deserialize)]
pub struct VCase {
    flavour: u8, // 0 static, 1 polymorphic, 2 relocatable
    cap: usize,
    ops: Vec<VOp>,
}

fn vop_strategy() -> impl Strategy<Value = VOp> {
    prop_oneof![
        4 => (0u8..6).prop_map(VOp::Push),
        2 => Just(VOp::Pop),
        3 => (any::<u16>(), 0u8..6).prop_map(|(i, v)| VOp::Insert(i, v)),
        3 => any::<u16>().prop_map(VOp::Remove),
        1 => Just(VOp::Clear),
        1 => any::<u16>().prop_map(VOp::Truncate),
        1 => (any::<u16>(), 0u8..6).prop_map(|(n, v)| VOp::Resize(n, v)),
        1 => (any::<u16>(), 0u8..6).prop_map(|(n, v)| VOp::ResizeWith(n, v)),
        1 => proptest::collection::vec(0u8..6, 0..4).prop_map(VOp::Extend),
    ]
}

fn vals(v: &[Tracked]) -> Vec<u8> {
    v.iter().map(|t| t.val()).collect()
}

/// applies the ops to `v` and to the model; compares after every step
fn run_vec_ops<V: Vector<Tracked>>(v: &mut V, cap: usize, ops: &[VOp], obs: &mut Obs) -> Result<(), Failure> {
    let mut m: Vec<u8> = Vec::new();
    let mut was_full = false;
    let mut removed_inner_when_full = false;
    ensure!(v.capacity() == cap, "vec.capacity", "capacity() = {} expected {}", v.capacity(), cap);
    for (step, op) in ops.iter().enumerate() {
        match op {
            VOp::Push(x) => {
                let r = v.push(Tracked::new(*x));
                if m.len() < cap {
                    ensure!(r.is_ok(), "vec.push", "step {step}: push failed below capacity");
                    m.push(*x);
                } else {
                    ensure!(r == Err(VectorModificationError::InsertWouldExceedCapacity), "vec.push", "step {step}: push on full vec returned {r:?}");
                }
            }
            VOp::Pop => {
                let r = v.pop().map(|t| t.val());
                ensure!(r == m.pop(), "vec.pop", "step {step}: pop returned {r:?}");
            }
            VOp::Insert(i, x) => {
                // index range 0..=len+1 so that out-of-bounds is reached as well
                let i = idx(*i, m.len() + 2);
                let r = v.insert(i, Tracked::new(*x));
                let full = m.len() == cap;
                let oob = i > m.len();
                if !full && !oob {
                    ensure!(r.is_ok(), "vec.insert", "step {step}: insert({i}) failed: {r:?}");
                    if was_full && removed_inner_when_full {
                        obs.nontrivial = true;
                    }
                    m.insert(i, *x);
                } else {
                    let ok = match r {
                        Err(VectorModificationError::InsertWouldExceedCapacity) => full,
                        Err(VectorModificationError::OutOfBounds) => oob,
                        Ok(()) => false,
                    };
                    ensure!(ok, "vec.insert", "step {step}: insert({i}) with len {} cap {cap} returned {r:?}", m.len());
                }
            }
            VOp::Remove(i) => {
                let i = idx(*i, m.len() + 1);
                let r = v.remove(i).map(|t| t.val());
                let e = if i < m.len() {
                    if was_full && i + 1 < m.len() {
                        removed_inner_when_full = true;
                    }
                    Some(m.remove(i))
                } else {
                    None
                };
                ensure!(r == e, "vec.remove", "step {step}: remove({i}) returned {r:?} expected {e:?}");
            }
            VOp::Clear => {
                v.clear();
                m.clear();
            }
            VOp::Truncate(n) => {
                let n = idx(*n, cap + 2);
                v.truncate(n);
                m.truncate(n);
            }
            VOp::Resize(n, x) | VOp::ResizeWith(n, x) => {
                let n = idx(*n, cap + 2);
                let r = if matches!(op, VOp::Resize(..)) { v.resize(n, Tracked::new(*x)) } else { v.resize_with(n, || Tracked::new(*x)) };
                if n <= cap {
                    ensure!(r.is_ok(), "vec.resize", "step {step}: resize({n}) failed");
                    m.resize(n, *x);
                } else {
                    ensure!(r == Err(VectorModificationError::InsertWouldExceedCapacity), "vec.resize", "step {step}: resize({n}) beyond capacity returned {r:?}");
                }
            }
            VOp::Extend(xs) => {
                let ts: Vec<Tracked> = xs.iter().map(|x| Tracked::new(*x)).collect();
                let r = v.extend_from_slice(&ts);
                if m.len() + xs.len() <= cap {
                    ensure!(r.is_ok(), "vec.extend", "step {step}: extend_from_slice failed");
                    m.extend_from_slice(xs);
                } else {
                    ensure!(r == Err(VectorModificationError::InsertWouldExceedCapacity), "vec.extend", "step {step}: extend beyond capacity returned {r:?}");
                }
            }
        }
        if m.len() == cap && cap > 0 {
            was_full = true;
            obs.class("reached_full");
        }
        ensure!(v.len() == m.len(), "vec.len", "step {step} {op:?}: len {} expected {}", v.len(), m.len());
        ensure!(v.is_empty() == m.is_empty(), "vec.is_empty", "step {step}: is_empty mismatch");
        ensure!(v.is_full() == (m.len() == cap), "vec.is_full", "step {step}: is_full mismatch");
        let got = vals(v.as_slice());
        ensure!(got == m, "vec.contents", "step {step} {op:?}: contents {got:?} expected {m:?}");
        let got_iter: Vec<u8> = v.iter().map(|t| t.val()).collect();
        ensure!(got_iter == m, "vec.iter", "step {step}: iteration order differs");
    }
    Ok(())
}

macro_rules! with_static_vec {
    ($cap:expr, $v:ident, $body:block) => {
        match $cap {
            0 => { let mut $v = StaticVec::<Tracked, 0>::new(); $body }
            1 => { let mut $v = StaticVec::<Tracked, 1>::new(); $body }
            2 => { let mut $v = StaticVec::<Tracked, 2>::new(); $body }
            3 => { let mut $v = StaticVec::<Tracked, 3>::new(); $body }
            4 => { let mut $v = StaticVec::<Tracked, 4>::new(); $body }
            16 => { let mut $v = StaticVec::<Tracked, 16>::new(); $body }
            64 => { let mut $v = StaticVec::<Tracked, 64>::new(); $body }
            _ => unreachable!("capacity not instantiated"),
        }
    };
}

fn run_vec_case(c: &VCase, obs: &mut Obs) -> Result<(), Failure> {
    tracked::reset();
    let r = match c.flavour {
        0 => with_static_vec!(c.cap, v, { run_vec_ops(&mut v, c.cap, &c.ops, obs) }),
        1 => {
            // the heap allocator rejects zero-sized requests: capacity 0 is refused cleanly
            match PolymorphicVec::<Tracked, HeapAllocator>::new(HeapAllocator::global(), c.cap) {
                Ok(mut v) => run_vec_ops(&mut v, c.cap, &c.ops, obs),
                Err(e) => {
                    ensure!(c.cap == 0, "vec.polymorphic_new", "PolymorphicVec::new({}) failed: {e:?}", c.cap);
                    obs.class("polymorphic_capacity_zero_refused");
                    Ok(())
                }
            }
        }
        _ => {
            match Block::<RelocatableVec<Tracked>>::try_new(c.cap) {
                Ok(mut b) => {
                    let r = run_vec_ops(b.get(), c.cap, &c.ops, obs);
                    b.drop_in_place();
                    r
                }
                Err(e) => {
                    ensure!(c.cap == 0, "vec.relocatable_init", "RelocatableVec::init({}) failed: {e:?}", c.cap);
                    obs.class("relocatable_capacity_zero_refused");
                    Ok(())
                }
            }
        }
    };
    r?;
    tracked::verdict().map_err(|e| Failure::new("vec.drop_accounting", e))
}

const CAPS: [usize; 7] = [0, 1, 2, 3, 4, 16, 64];

fn vec_parts(ctx: &mut Ctx) {
    // bounded-exhaustive: reduced alphabet, all sequences up to length L
    let alphabet: Vec<VOp> = vec![
        VOp::Push(1),
        VOp::Push(2),
        VOp::Pop,
        VOp::Insert(0, 0),
        VOp::Insert(40000, 0),
        VOp::Remove(0),
        VOp::Remove(30000),
        VOp::Truncate(20000),
        VOp::Extend(vec![1, 2]),
    ];
    let max_len = ctx.scale(5, 6);
    let mut cases = vec![];
    for flavour in 0..3u8 {
        for cap in 0..=3usize {
            let mut seqs: Vec<Vec<VOp>> = vec![vec![]];
            let mut frontier: Vec<Vec<VOp>> = vec![vec![]];
            for _ in 0..max_len {
                let mut next = vec![];
                for s in &frontier {
                    for o in &alphabet {
                        let mut n = s.clone();
                        n.push(o.clone());
                        next.push(n);
                    }
                }
                seqs.extend(next.iter().cloned());
                frontier = next;
            }
            // only maximal sequences and their prefixes are distinct work; every prefix is
            // checked while running the longer sequence, so run the maximal ones only
            for s in frontier {
                cases.push(VCase { flavour, cap, ops: s });
            }
            drop(seqs);
        }
    }
    ctx.enumerate(
        "vec.exhaustive",
        &format!("all op sequences of length {max_len} (every prefix checked) over a 9-op alphabet, 3 flavours, capacities 0..3"),
        cases.into_iter(),
        run_vec_case,
    );
    // random: long sequences, all capacities
    let n = ctx.scale(6000, 150_000);
    let strat = (0u8..3, 0usize..CAPS.len(), proptest::collection::vec(vop_strategy(), 0..200))
        .prop_map(|(flavour, ci, ops)| VCase { flavour, cap: CAPS[ci], ops });
    ctx.proptest("vec.random", n, strat, run_vec_case);
    // few very long sequences (up to 10^4 ops)
    let n = ctx.scale(48, 800);
    let strat = (0u8..3, 3usize..CAPS.len(), proptest::collection::vec(vop_strategy(), 5000..10000))
        .prop_map(|(flavour, ci, ops)| VCase { flavour, cap: CAPS[ci], ops });
    ctx.proptest("vec.long", n, strat, run_vec_case);
}

fn body(ctx: &mut Ctx) {
    checks_bb::silence_iceoryx_log();
    vec_parts(ctx);
}

fn main() {
    vcore::main(SPEC, body);
}
