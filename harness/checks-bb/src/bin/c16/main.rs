//! C16 — fixed-capacity containers match reference models, drop elements once.
//!
//! One module per container family; the op alphabets, strategies, models and interpreters live in
//! `checks_bb::models::*` (shared with C14). Every family has three parts:
//! `<family>.exhaustive` (all op sequences of a fixed length over a reduced alphabet, every prefix
//! checked on the way, all flavours, capacities 0..3), `<family>.random` (proptest histories up to
//! 200 ops, capacities {0,1,2,3,4,16,64}) and `<family>.long` (a few histories of up to 10^4 ops).
extern crate iceoryx2_bb_loggers;

mod flatmaps;
mod options;
mod queues;
mod semantics;
mod slotmaps;
mod strings;
mod vecs;

use checks_bb::models::Known;
use checks_bb::tracked;
use serde::{Deserialize, Serialize};
use vcore::{Ctx, Failure, Obs, Spec};

const SPEC: Spec = Spec {
    prop: "C16",
    level: "exploration",
    rule: "operation sequences over each container type x storage flavour x capacity, bounded-exhaustive (all sequences of length L over a reduced alphabet, every prefix checked) and proptest-random (histories up to 200 ops, a few up to 10^4, full alphabet); oracle = std container model compared after every op (return value, len/is_empty/is_full/capacity, full contents) plus exactly-once drop accounting; non-trivial = the case reached is_full and removed from a non-end position and inserted afterwards (queues: popped after full and pushed again / evicted by an overflowing push; strings: contained a rejected byte and a multi-byte edit; option: replaced a Some and took it); distinct = hash of (flavour, capacity, op sequence)",
    assumptions: &[
        "panics documented as caller contract violations are excluded by construction (ops are generated only inside documented preconditions)",
        "memory-safety defects are visible to this binary only through their functional effects (contents, return values, drop accounting, observation of a dropped element, panics); no sanitizer runs here and the libFuzzer/ASan stage of the design is not part of this binary",
        "String::retain follows the conformance test retain_works (characters satisfying f are removed); the rustdoc of String::retain says the opposite",
        "slot map contains/get/get_mut are only called with keys below the capacity; the key order of iteration / list_keys and which free key insert hands out are not documented and not demanded",
        "push_with_overflow on a queue of capacity 0 has no documented result and is not generated; FixedSize* containers and StaticString with capacity 0 cannot be constructed and are skipped",
    ],
    watchdog_quick_s: 1800,
    watchdog_thorough_s: 14400,
};

pub const CAPS: [usize; 7] = [0, 1, 2, 3, 4, 16, 64];

/// flavours: 0 = inline fixed-size, 1 = heap-backed / polymorphic, 2 = relocatable in a `Block`
#[derive(Clone, Debug, Serialize, Deserialize)]
pub struct Case<O> {
    pub flavour: u8,
    pub cap: usize,
    /// relocatable flavour only: move the memory block after every n-th op (0 = never)
    pub reloc: u8,
    pub ops: Vec<O>,
}

/// dispatch of a run-time capacity onto the instantiated const generics
#[macro_export]
macro_rules! with_cap {
    ($cap:expr, $n:ident, $body:block) => {
        match $cap {
            0 => {
                const $n: usize = 0;
                $body
            }
            1 => {
                const $n: usize = 1;
                $body
            }
            2 => {
                const $n: usize = 2;
                $body
            }
            3 => {
                const $n: usize = 3;
                $body
            }
            4 => {
                const $n: usize = 4;
                $body
            }
            16 => {
                const $n: usize = 16;
                $body
            }
            64 => {
                const $n: usize = 64;
                $body
            }
            _ => unreachable!("capacity not instantiated"),
        }
    };
}

/// end of a case with `Tracked` elements: the interpreter's result, then the drop accounting,
/// then a tolerated known-finding hit (so that it is counted)
pub fn finish(family: &str, known: &Known, r: Result<(), Failure>) -> Result<(), Failure> {
    r?;
    tracked::verdict().map_err(|e| Failure::new(format!("{family}.drop_accounting"), e))?;
    known.take_hit()
}

pub fn begin(known: &Known) {
    tracked::reset();
    known.begin_case();
}

/// relocation hook for a `RefCell<Block<_>>`
#[macro_export]
macro_rules! reloc_hook {
    ($cell:expr, $every:expr) => {
        |step: usize| {
            if $every != 0 && (step + 1) % ($every as usize) == 0 {
                $cell.borrow_mut().relocate();
            }
        }
    };
}

/// (flavour, capacity) grid of the bounded-exhaustive parts, without the combinations that cannot
/// be constructed (those are still visited by the random parts, which show the refusal)
pub fn combos(nflavours: u8, unusable: impl Fn(u8, usize) -> bool) -> Vec<(u8, usize)> {
    let mut v = vec![];
    for flavour in 0..nflavours {
        for cap in 0..=3usize {
            if !unusable(flavour, cap) {
                v.push((flavour, cap));
            }
        }
    }
    v
}

pub fn note_reloc(obs: &mut Obs, relocations: usize) {
    if relocations > 0 {
        obs.class("relocated_mid_history");
    }
}

fn body(ctx: &mut Ctx) {
    checks_bb::silence_iceoryx_log();
    vecs::parts(ctx);
    queues::parts(ctx);
    slotmaps::parts(ctx);
    flatmaps::parts(ctx);
    strings::parts(ctx);
    semantics::parts(ctx);
    options::parts(ctx);
}

fn main() {
    vcore::main(SPEC, body);
}
