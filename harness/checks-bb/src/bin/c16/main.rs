//! C16 — fixed-capacity containers match reference models, drop elements once.
//!
//! One module per container family; the op alphabets, strategies, models and interpreters live in
//! `checks_bb::models::*` (shared with C14). Every family has three parts:
//! `<family>.exhaustive` (all op sequences of a fixed length over a reduced alphabet, every prefix
//! checked on the way, all flavours, capacities 0..3), `<family>.random` (proptest histories up to
//! 200 ops, capacities {0,1,2,3,4,16,64}) and `<family>.long` (a few histories of up to 10^4 ops).
extern crate iceoryx2_bb_loggers;

use checks_bb::families::{flatmaps, options, queues, semantics, slotmaps, strings, vecs};
use vcore::{Ctx, Spec};

const SPEC: Spec = Spec {
    prop: "C16",
    level: "exploration",
    rule: "operation sequences over each container type x storage flavour x capacity, bounded-exhaustive (all sequences of length L over a reduced alphabet, every prefix checked) and proptest-random (histories up to 200 ops, a few up to 10^4, full alphabet); oracle = std container model compared after every op (return value, len/is_empty/is_full/capacity, full contents) plus exactly-once drop accounting; non-trivial = the case reached is_full and removed from a non-end position and inserted afterwards (queues: popped after full and pushed again / evicted by an overflowing push; strings: contained a rejected byte and a multi-byte edit; option: replaced a Some and took it); distinct = hash of (flavour, capacity, op sequence)",
    assumptions: &[
        "panics documented as caller contract violations are excluded by construction (ops are generated only inside documented preconditions)",
        "memory-safety defects are visible to this binary only through their functional effects (contents, return values, drop accounting, observation of a dropped element, panics); no sanitizer runs here and the libFuzzer/ASan stage of the design is not part of this binary",
        "String::retain follows the conformance test retain_works (characters satisfying f are removed); the rustdoc of String::retain says the opposite",
        "slot map contains/get/get_mut are only called with keys below the capacity; the key order of iteration / list_keys and which free key insert hands out are not documented and not demanded",
        "push_with_overflow on a queue of capacity 0 has no documented result and is not generated; FixedSize* containers and StaticString with capacity 0 cannot be constructed and are skipped",
    ],
    watchdog_quick_s: 1800,
    watchdog_thorough_s: 14400,
};

fn body(ctx: &mut Ctx) {
    checks_bb::silence_iceoryx_log();
    vecs::parts(ctx);
    queues::parts(ctx);
    slotmaps::parts(ctx);
    flatmaps::parts(ctx);
    strings::parts(ctx);
    semantics::parts(ctx);
    options::parts(ctx);
}

fn main() {
    vcore::main(SPEC, body);
}
