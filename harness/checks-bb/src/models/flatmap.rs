//! Flat map family: `FlatMap`, `FixedSizeFlatMap`, `RelocatableFlatMap`; model = `BTreeMap<u8,u8>`.
//! Keys and values are both `Elem`s (with `Tracked` both take part in the drop accounting).
//! The order in which `list_keys` reports keys is not documented and not demanded.

use super::slotmap::SIG_CAPACITY_ZERO;
use super::{Elem, Known};
use iceoryx2_bb_container::flatmap::{FixedSizeFlatMap, FlatMap, FlatMapError, RelocatableFlatMap};
use iceoryx2_bb_elementary::CallbackProgression;
use proptest::prelude::*;
use serde::{Deserialize, Serialize};
use std::collections::BTreeMap;
use vcore::util::idx;
use vcore::{Failure, Obs, ensure};

#[derive(Clone, Debug, Serialize, Deserialize)]
pub enum FOp {
    /// key mapped onto 0..=capacity+1 (more keys than slots), value
    Insert(u16, u8),
    Get(u16),
    GetRef(u16),
    GetMutRef(u16, u8),
    Remove(u16),
    Contains(u16),
    /// `list_keys` stopping after that many callbacks (0 = never stop)
    ListKeys(u8),
}

/// known-finding signatures that can show through this family
pub const SIGNATURES: &[&str] = &[SIG_CAPACITY_ZERO];

pub fn fop_strategy() -> impl Strategy<Value = FOp> {
    prop_oneof![
        6 => (any::<u16>(), 0u8..8).prop_map(|(k, v)| FOp::Insert(k, v)),
        1 => any::<u16>().prop_map(FOp::Get),
        1 => any::<u16>().prop_map(FOp::GetRef),
        1 => (any::<u16>(), 0u8..8).prop_map(|(k, v)| FOp::GetMutRef(k, v)),
        5 => any::<u16>().prop_map(FOp::Remove),
        1 => any::<u16>().prop_map(FOp::Contains),
        1 => (0u8..4).prop_map(FOp::ListKeys),
    ]
}

/// with capacity c the key index i*(c+2)>>16: 0 -> key 0, 30000 -> a middle key, 65535 -> key c+1
pub fn fop_alphabet() -> Vec<FOp> {
    vec![
        FOp::Insert(0, 1),
        FOp::Insert(30000, 2),
        FOp::Insert(65535, 3),
        FOp::Remove(0),
        FOp::Remove(30000),
        FOp::Remove(65535),
        FOp::GetMutRef(0, 4),
        FOp::ListKeys(1),
    ]
}

pub trait FlatMapApi<K, V> {
    fn insert(&mut self, k: K, v: V) -> Result<(), FlatMapError>;
    fn get(&self, k: &K) -> Option<V>;
    fn get_ref(&self, k: &K) -> Option<&V>;
    fn get_mut_ref(&mut self, k: &K) -> Option<&mut V>;
    fn remove(&mut self, k: &K) -> Option<V>;
    fn contains(&self, k: &K) -> bool;
    fn len(&self) -> usize;
    fn is_empty(&self) -> bool;
    fn is_full(&self) -> bool;
    fn list_keys(&self, f: &mut dyn FnMut(&K) -> CallbackProgression);
}

macro_rules! impl_api {
    ($($u:tt)?) => {
        fn insert(&mut self, k: K, v: V) -> Result<(), FlatMapError> {
            $($u)? { Self::insert(self, k, v) }
        }
        fn get(&self, k: &K) -> Option<V> {
            $($u)? { Self::get(self, k) }
        }
        fn get_ref(&self, k: &K) -> Option<&V> {
            $($u)? { Self::get_ref(self, k) }
        }
        fn get_mut_ref(&mut self, k: &K) -> Option<&mut V> {
            $($u)? { Self::get_mut_ref(self, k) }
        }
        fn remove(&mut self, k: &K) -> Option<V> {
            $($u)? { Self::remove(self, k) }
        }
        fn contains(&self, k: &K) -> bool {
            $($u)? { Self::contains(self, k) }
        }
        fn len(&self) -> usize {
            Self::len(self)
        }
        fn is_empty(&self) -> bool {
            Self::is_empty(self)
        }
        fn is_full(&self) -> bool {
            Self::is_full(self)
        }
        fn list_keys(&self, f: &mut dyn FnMut(&K) -> CallbackProgression) {
            Self::list_keys(self, f)
        }
    };
}

impl<K: Eq, V: Clone> FlatMapApi<K, V> for FlatMap<K, V> {
    impl_api!();
}
impl<K: Eq, V: Clone, const N: usize> FlatMapApi<K, V> for FixedSizeFlatMap<K, V, N> {
    impl_api!();
}
// SAFETY: `init` was called by `Block::try_new`.
impl<K: Eq, V: Clone> FlatMapApi<K, V> for RelocatableFlatMap<K, V> {
    impl_api!(unsafe);
}

pub fn run_flatmap_ops<'a, K: Elem + 'a, V: Elem + 'a, M: FlatMapApi<K, V> + 'a>(
    fetch: &mut dyn FnMut() -> &'a mut M,
    cap: usize,
    ops: &[FOp],
    hook: &mut dyn FnMut(usize),
    obs: &mut Obs,
    known: &Known,
) -> Result<(), Failure> {
    let mut m: BTreeMap<u8, u8> = BTreeMap::new();
    let nkeys = (cap + 2).min(250);
    let key = |k: u16| idx(k, nkeys) as u8;
    let mut was_full = false;
    let mut removed_inner_when_full = false;
    {
        let f = fetch();
        ensure!(f.is_empty() && f.len() == 0, "flatmap.len", "new flat map is not empty");
    }
    for (step, op) in ops.iter().enumerate() {
        let f = fetch();
        match op {
            // the flat map sits on a slot map: with capacity 0 `insert` runs into the slot map's
            // capacity-0 defect (panic instead of IsFull)
            FOp::Insert(..) if cap == 0 && known.exclude(SIG_CAPACITY_ZERO) => {}
            FOp::Insert(k, x) => {
                let k = key(*k);
                let r = f.insert(K::make(k), V::make(*x));
                let dup = m.contains_key(&k);
                let full = m.len() == cap;
                if dup || full {
                    let ok = match r {
                        Err(FlatMapError::KeyAlreadyExists) => dup,
                        Err(FlatMapError::IsFull) => full,
                        Ok(()) => false,
                    };
                    ensure!(ok, "flatmap.insert", "step {step}: insert({k}) returned {r:?} (duplicate key: {dup}, full: {full})");
                    if dup {
                        obs.class("flatmap.duplicate_key_refused");
                    }
                    if full {
                        obs.class("flatmap.insert_on_full_refused");
                    }
                } else {
                    ensure!(r.is_ok(), "flatmap.insert", "step {step}: insert({k}) of a new key below capacity returned {r:?}");
                    if was_full && removed_inner_when_full {
                        obs.nontrivial = true;
                    }
                    m.insert(k, *x);
                }
            }
            FOp::Get(k) => {
                let k = key(*k);
                let r = f.get(&K::make(k)).map(|v| v.val());
                ensure!(r == m.get(&k).copied(), "flatmap.get", "step {step}: get({k}) returned {r:?} expected {:?}", m.get(&k));
            }
            FOp::GetRef(k) => {
                let k = key(*k);
                let r = f.get_ref(&K::make(k)).map(|v| v.val());
                ensure!(r == m.get(&k).copied(), "flatmap.get_ref", "step {step}: get_ref({k}) returned {r:?} expected {:?}", m.get(&k));
            }
            FOp::GetMutRef(k, x) => {
                let k = key(*k);
                match f.get_mut_ref(&K::make(k)) {
                    Some(v) => {
                        ensure!(Some(v.val()) == m.get(&k).copied(), "flatmap.get_mut_ref", "step {step}: get_mut_ref({k}) saw {} expected {:?}", v.val(), m.get(&k));
                        v.set(*x);
                        m.insert(k, *x);
                    }
                    None => ensure!(!m.contains_key(&k), "flatmap.get_mut_ref", "step {step}: get_mut_ref({k}) returned None for a stored key"),
                }
            }
            FOp::Remove(k) => {
                let k = key(*k);
                let r = f.remove(&K::make(k)).map(|v| v.val());
                let last = m.keys().next_back().copied();
                let e = m.remove(&k);
                ensure!(r == e, "flatmap.remove", "step {step}: remove({k}) returned {r:?} expected {e:?}");
                if e.is_some() && was_full && Some(k) != last {
                    removed_inner_when_full = true;
                    obs.class("flatmap.removed_inner");
                }
            }
            FOp::Contains(k) => {
                let k = key(*k);
                let r = f.contains(&K::make(k));
                ensure!(r == m.contains_key(&k), "flatmap.contains", "step {step}: contains({k}) returned {r}");
            }
            FOp::ListKeys(stop_after) => {
                let mut seen: Vec<u8> = vec![];
                let stop = *stop_after as usize;
                f.list_keys(&mut |k: &K| {
                    seen.push(k.val());
                    if stop != 0 && seen.len() >= stop { CallbackProgression::Stop } else { CallbackProgression::Continue }
                });
                let expected_calls = if stop == 0 { m.len() } else { m.len().min(stop) };
                ensure!(seen.len() == expected_calls, "flatmap.list_keys", "step {step}: list_keys called back {} times, expected {expected_calls} (stop after {stop}, len {})", seen.len(), m.len());
                let mut d = seen.clone();
                d.sort();
                d.dedup();
                ensure!(d.len() == seen.len() && seen.iter().all(|k| m.contains_key(k)), "flatmap.list_keys", "step {step}: list_keys reported {seen:?}, stored keys {:?}", m.keys());
            }
        }
        if m.len() == cap && cap > 0 {
            was_full = true;
            obs.class("flatmap.reached_full");
        }
        ensure!(f.len() == m.len(), "flatmap.len", "step {step} {op:?}: len {} expected {}", f.len(), m.len());
        ensure!(f.is_empty() == m.is_empty(), "flatmap.is_empty", "step {step}: is_empty mismatch");
        ensure!(f.is_full() == (m.len() == cap), "flatmap.is_full", "step {step}: is_full mismatch");
        let mut keys: Vec<u8> = vec![];
        f.list_keys(&mut |k: &K| {
            keys.push(k.val());
            CallbackProgression::Continue
        });
        keys.sort();
        let exp: Vec<u8> = m.keys().copied().collect();
        ensure!(keys == exp, "flatmap.contents", "step {step} {op:?}: keys {keys:?} expected {exp:?}");
        for k in 0..nkeys as u8 {
            let probe = K::make(k);
            let g = f.get_ref(&probe).map(|v| v.val());
            ensure!(g == m.get(&k).copied(), "flatmap.contents", "step {step} {op:?}: value of key {k} is {g:?} expected {:?}", m.get(&k));
        }
        hook(step);
    }
    Ok(())
}
