//! Reusable model-based interpreters for the fixed-capacity containers of `iceoryx2-bb-container`
//! (used by C16; C14 re-uses them with a relocation hook).
//!
//! Every family module has: an op enum (serde, Clone, Debug), a proptest strategy, a small
//! harness-side trait that unifies the storage flavours, and `run_*_ops` which applies the ops
//! to the real container and to a std model and compares after every step.
//!
//! Conventions of all `run_*_ops` functions:
//! * `fetch` returns the container; it is called once per step and the reference is never kept
//!   across steps, so a caller may move the memory of a relocatable flavour inside `hook`.
//! * `hook(step)` is called after the checks of step `step` (0-based) passed.
//! * `known` carries the open known findings (see [`Known`]).

pub mod flatmap;
pub mod option;
pub mod queue;
pub mod semantic;
pub mod slotmap;
pub mod string;
pub mod vec;

use crate::tracked::Tracked;
use std::cell::RefCell;
use std::collections::BTreeMap;
use vcore::{Ctx, Failure};

/// element types the interpreters can store: built from a small value, value observable
pub trait Elem: Sized {
    fn make(v: u8) -> Self;
    fn val(&self) -> u8;
    fn set(&mut self, v: u8);
}

impl Elem for Tracked {
    fn make(v: u8) -> Self {
        Tracked::new(v)
    }
    fn val(&self) -> u8 {
        Tracked::val(self)
    }
    fn set(&mut self, v: u8) {
        self.set_val(v)
    }
}

/// `Copy` element (the queue's `get` needs `T: Copy`)
#[derive(Clone, Copy, Debug, PartialEq, Eq)]
pub struct Plain(pub u8);

impl Elem for Plain {
    fn make(v: u8) -> Self {
        Plain(v)
    }
    fn val(&self) -> u8 {
        self.0
    }
    fn set(&mut self, v: u8) {
        self.0 = v
    }
}

/// Turns a plain `&mut C` into the `fetch` closure the interpreters expect.
pub fn direct<'a, C>(c: &'a mut C) -> impl FnMut() -> &'a mut C + 'a {
    let p: *mut C = c;
    // SAFETY: the interpreters use the returned reference within one step only; two
    // results of this closure are never alive at the same time.
    move || unsafe { &mut *p }
}

/// a hook that does nothing
pub fn no_hook() -> impl FnMut(usize) {
    |_| {}
}

/// Open known findings, as seen by generator and oracle.
///
/// * `exclude(sig)`: generator side. The next input is the known-defective one; when the finding
///   is open the input is left out (and counted), otherwise it is executed under the strict oracle.
/// * `tolerate(sig, msg)`: oracle side, only for manifestations that leave the container state
///   intact (wrong return value of a read-only call). When the finding is open the hit is noted
///   and the case continues; [`Known::take_hit`] turns the first noted hit into the case's
///   failure at the very end so that the machinery counts it as a known-finding observation.
pub struct Known {
    open: Vec<String>,
    excluded: RefCell<BTreeMap<&'static str, u64>>,
    hit: RefCell<Option<Failure>>,
}

impl Known {
    /// strict: nothing is tolerated, nothing is excluded
    pub fn none() -> Self {
        Known { open: vec![], excluded: RefCell::new(BTreeMap::new()), hit: RefCell::new(None) }
    }

    pub fn from_ctx(ctx: &Ctx, signatures: &[&str]) -> Self {
        let mut k = Self::none();
        for s in signatures {
            if ctx.is_open_finding(s) {
                k.open.push(s.to_string());
            }
        }
        k
    }

    pub fn is_open(&self, sig: &str) -> bool {
        self.open.iter().any(|s| s == sig)
    }

    /// true = leave this input out
    pub fn exclude(&self, sig: &'static str) -> bool {
        if self.is_open(sig) {
            *self.excluded.borrow_mut().entry(sig).or_default() += 1;
            true
        } else {
            false
        }
    }

    pub fn tolerate(&self, sig: &'static str, msg: String) -> Result<(), Failure> {
        if self.is_open(sig) {
            let mut h = self.hit.borrow_mut();
            if h.is_none() {
                *h = Some(Failure::new(sig, msg));
            }
            Ok(())
        } else {
            Err(Failure::new(sig, msg))
        }
    }

    /// call at the begin of a case
    pub fn begin_case(&self) {
        *self.hit.borrow_mut() = None;
    }

    /// call at the end of a case that passed otherwise
    pub fn take_hit(&self) -> Result<(), Failure> {
        match self.hit.borrow_mut().take() {
            Some(f) => Err(f),
            None => Ok(()),
        }
    }

    /// moves the exclusion counters into the run statistics
    pub fn flush(&self, ctx: &mut Ctx) {
        let m = std::mem::take(&mut *self.excluded.borrow_mut());
        for (sig, n) in m {
            for _ in 0..n {
                ctx.count_excluded(sig);
            }
        }
    }
}

/// panics of the call become a failure with the given signature
pub fn guarded<R>(sig: &str, what: &str, f: impl FnOnce() -> R) -> Result<R, Failure> {
    match std::panic::catch_unwind(std::panic::AssertUnwindSafe(f)) {
        Ok(r) => Ok(r),
        Err(e) => Err(Failure::new(sig, format!("{what} panicked: {}", vcore::util::panic_message(&e)))),
    }
}

/// Lazy bounded-exhaustive enumeration: all sequences of exactly `len` symbols over an alphabet
/// of `alphabet` symbols (as digit vectors), in lexicographic order.
pub struct Sequences {
    alphabet: usize,
    digits: Vec<usize>,
    done: bool,
}

pub fn sequences(alphabet: usize, len: usize) -> Sequences {
    Sequences { alphabet, digits: vec![0; len], done: alphabet == 0 && len > 0 }
}

impl Iterator for Sequences {
    type Item = Vec<usize>;
    fn next(&mut self) -> Option<Vec<usize>> {
        if self.done {
            return None;
        }
        let out = self.digits.clone();
        let mut i = self.digits.len();
        loop {
            if i == 0 {
                self.done = true;
                break;
            }
            i -= 1;
            self.digits[i] += 1;
            if self.digits[i] < self.alphabet {
                break;
            }
            self.digits[i] = 0;
        }
        Some(out)
    }
}

/// `sequences` mapped onto a concrete alphabet
pub fn op_sequences<O: Clone>(alphabet: &[O], len: usize) -> impl Iterator<Item = Vec<O>> + '_ {
    sequences(alphabet.len(), len).map(move |d| d.into_iter().map(|i| alphabet[i].clone()).collect())
}
