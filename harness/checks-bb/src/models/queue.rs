//! Queue family: `Queue`, `FixedSizeQueue`, `RelocatableQueue`; model = `VecDeque<u8>`.
//!
//! The queues have no common trait in the repo; `QueueApi` is the harness-side one. `get` /
//! `get_unchecked` need `T: Copy`, so they are only available with the `Plain` element.

use super::{Elem, Known, Plain};
use crate::tracked::Tracked;
use iceoryx2_bb_container::queue::{FixedSizeQueue, Queue, RelocatableQueue};
use proptest::prelude::*;
use serde::{Deserialize, Serialize};
use std::collections::VecDeque;
use vcore::util::idx;
use vcore::{Failure, Obs, ensure};

#[derive(Clone, Debug, Serialize, Deserialize)]
pub enum QOp {
    Push(u8),
    Pop,
    Peek,
    /// overwrite the front element through `peek_mut`
    PeekMut(u8),
    PushOverflow(u8),
    Clear,
    /// `get(i)` / `get_unchecked(i)` with i < len (out of range is a documented fatal panic)
    Get(u16),
}

pub fn qop_strategy() -> impl Strategy<Value = QOp> {
    prop_oneof![
        5 => (0u8..8).prop_map(QOp::Push),
        4 => Just(QOp::Pop),
        1 => Just(QOp::Peek),
        1 => (0u8..8).prop_map(QOp::PeekMut),
        3 => (0u8..8).prop_map(QOp::PushOverflow),
        1 => Just(QOp::Clear),
        2 => any::<u16>().prop_map(QOp::Get),
    ]
}

pub fn qop_alphabet() -> Vec<QOp> {
    vec![QOp::Push(1), QOp::Push(2), QOp::Pop, QOp::PushOverflow(3), QOp::PeekMut(4), QOp::Clear]
}

pub trait QueueApi<E> {
    /// `get` / `get_unchecked` exist for this element type
    const HAS_GET: bool;
    fn push(&mut self, v: E) -> bool;
    fn pop(&mut self) -> Option<E>;
    fn peek(&self) -> Option<&E>;
    fn peek_mut(&mut self) -> Option<&mut E>;
    fn push_with_overflow(&mut self, v: E) -> Option<E>;
    fn clear(&mut self);
    fn len(&self) -> usize;
    fn is_empty(&self) -> bool;
    fn is_full(&self) -> bool;
    fn capacity(&self) -> usize;
    fn get(&self, _i: usize) -> Option<u8> {
        None
    }
    fn get_unchecked(&self, _i: usize) -> Option<u8> {
        None
    }
}

macro_rules! common_methods {
    () => {
        fn peek(&self) -> Option<&E> {
            Self::peek(self)
        }
        fn peek_mut(&mut self) -> Option<&mut E> {
            Self::peek_mut(self)
        }
        fn len(&self) -> usize {
            Self::len(self)
        }
        fn is_empty(&self) -> bool {
            Self::is_empty(self)
        }
        fn is_full(&self) -> bool {
            Self::is_full(self)
        }
        fn capacity(&self) -> usize {
            Self::capacity(self)
        }
    };
}

macro_rules! safe_methods {
    () => {
        fn push(&mut self, v: E) -> bool {
            Self::push(self, v)
        }
        fn pop(&mut self) -> Option<E> {
            Self::pop(self)
        }
        fn push_with_overflow(&mut self, v: E) -> Option<E> {
            Self::push_with_overflow(self, v)
        }
        fn clear(&mut self) {
            Self::clear(self)
        }
    };
}

// SAFETY of the relocatable flavour: `init` was called by `Block::try_new`.
macro_rules! unsafe_methods {
    () => {
        fn push(&mut self, v: E) -> bool {
            unsafe { Self::push(self, v) }
        }
        fn pop(&mut self) -> Option<E> {
            unsafe { Self::pop(self) }
        }
        fn push_with_overflow(&mut self, v: E) -> Option<E> {
            unsafe { Self::push_with_overflow(self, v) }
        }
        fn clear(&mut self) {
            unsafe { Self::clear(self) }
        }
    };
}

macro_rules! get_methods {
    () => {
        fn get(&self, i: usize) -> Option<u8> {
            Some(Self::get(self, i).0)
        }
        fn get_unchecked(&self, i: usize) -> Option<u8> {
            Some(unsafe { Self::get_unchecked(self, i) }.0)
        }
    };
}

type E = Tracked;
impl QueueApi<Tracked> for Queue<Tracked> {
    const HAS_GET: bool = false;
    common_methods!();
    safe_methods!();
}
impl<const N: usize> QueueApi<Tracked> for FixedSizeQueue<Tracked, N> {
    const HAS_GET: bool = false;
    common_methods!();
    safe_methods!();
}
impl QueueApi<Tracked> for RelocatableQueue<Tracked> {
    const HAS_GET: bool = false;
    common_methods!();
    unsafe_methods!();
}

mod plain_impls {
    use super::*;
    type E = Plain;
    impl QueueApi<Plain> for Queue<Plain> {
        const HAS_GET: bool = true;
        common_methods!();
        safe_methods!();
        get_methods!();
    }
    impl<const N: usize> QueueApi<Plain> for FixedSizeQueue<Plain, N> {
        const HAS_GET: bool = true;
        common_methods!();
        safe_methods!();
        get_methods!();
    }
    impl QueueApi<Plain> for RelocatableQueue<Plain> {
        const HAS_GET: bool = true;
        common_methods!();
        unsafe_methods!();
        get_methods!();
    }
}

/// Applies the ops to the queue and to the model; compares after every step; drains the queue at
/// the end (full content and order check even for element types without `get`).
pub fn run_queue_ops<'a, El: Elem + 'a, Q: QueueApi<El> + 'a>(
    fetch: &mut dyn FnMut() -> &'a mut Q,
    cap: usize,
    ops: &[QOp],
    hook: &mut dyn FnMut(usize),
    obs: &mut Obs,
    _known: &Known,
) -> Result<(), Failure> {
    let mut m: VecDeque<u8> = VecDeque::new();
    let mut was_full = false;
    let mut popped_after_full = false;
    let mut pushes: usize = 0; // successful writes into the ring
    {
        let q = fetch();
        ensure!(q.capacity() == cap, "queue.capacity", "capacity() = {} expected {}", q.capacity(), cap);
        ensure!(q.is_empty() && q.len() == 0, "queue.len", "new queue is not empty");
    }
    for (step, op) in ops.iter().enumerate() {
        let q = fetch();
        match op {
            QOp::Push(x) => {
                let r = q.push(El::make(*x));
                let e = m.len() < cap;
                ensure!(r == e, "queue.push", "step {step}: push returned {r} with len {} cap {cap}", m.len());
                if e {
                    m.push_back(*x);
                    pushes += 1;
                    if was_full && popped_after_full {
                        obs.nontrivial = true;
                    }
                } else {
                    obs.class("queue.push_on_full_refused");
                }
            }
            QOp::Pop => {
                let r = q.pop().map(|t| t.val());
                let e = m.pop_front();
                ensure!(r == e, "queue.fifo", "step {step}: pop returned {r:?} expected {e:?}");
                if e.is_some() && was_full {
                    popped_after_full = true;
                }
            }
            QOp::Peek => {
                let r = q.peek().map(|t| t.val());
                ensure!(r == m.front().copied(), "queue.peek", "step {step}: peek returned {r:?} expected {:?}", m.front());
            }
            QOp::PeekMut(x) => match q.peek_mut() {
                Some(t) => {
                    ensure!(Some(t.val()) == m.front().copied(), "queue.peek_mut", "step {step}: peek_mut saw {} expected {:?}", t.val(), m.front());
                    t.set(*x);
                    m[0] = *x;
                }
                None => ensure!(m.is_empty(), "queue.peek_mut", "step {step}: peek_mut returned None on a non-empty queue"),
            },
            QOp::PushOverflow(x) => {
                // With capacity 0 the documentation defines no result (nothing can be stored and
                // there is no oldest element): not a legal input, left out.
                if cap == 0 {
                    obs.class("queue.overflow_push_on_capacity_zero_skipped");
                } else {
                    let r = q.push_with_overflow(El::make(*x)).map(|t| t.val());
                    let e = if m.len() == cap { m.pop_front() } else { None };
                    ensure!(r == e, "queue.push_with_overflow", "step {step}: push_with_overflow returned {r:?} expected {e:?} (the oldest element iff full)");
                    if e.is_some() {
                        obs.class("queue.overflow_evicted");
                        popped_after_full = true;
                        if was_full {
                            obs.nontrivial = true;
                        }
                    }
                    m.push_back(*x);
                    pushes += 1;
                }
            }
            QOp::Clear => {
                q.clear();
                if !m.is_empty() && was_full {
                    popped_after_full = true;
                }
                m.clear();
            }
            QOp::Get(i) => {
                if Q::HAS_GET && !m.is_empty() {
                    let i = idx(*i, m.len());
                    let r = q.get(i);
                    ensure!(r == Some(m[i]), "queue.get", "step {step}: get({i}) returned {r:?} expected {}", m[i]);
                }
            }
        }
        if pushes > cap && cap > 0 {
            obs.class("queue.wrapped_around");
        }
        if m.len() == cap && cap > 0 {
            was_full = true;
            obs.class("queue.reached_full");
        }
        ensure!(q.len() == m.len(), "queue.len", "step {step} {op:?}: len {} expected {}", q.len(), m.len());
        ensure!(q.is_empty() == m.is_empty(), "queue.is_empty", "step {step}: is_empty mismatch");
        ensure!(q.is_full() == (m.len() == cap), "queue.is_full", "step {step}: is_full mismatch");
        ensure!(q.capacity() == cap, "queue.capacity", "step {step}: capacity changed to {}", q.capacity());
        let front = q.peek().map(|t| t.val());
        ensure!(front == m.front().copied(), "queue.peek", "step {step} {op:?}: front {front:?} expected {:?}", m.front());
        if Q::HAS_GET {
            for (i, e) in m.iter().enumerate() {
                let r = if (i + step) % 2 == 0 { q.get(i) } else { q.get_unchecked(i) };
                ensure!(r == Some(*e), "queue.contents", "step {step} {op:?}: element {i} is {r:?} expected {e} (model {m:?})");
            }
        }
        hook(step);
    }
    // drain: full content in FIFO order
    let q = fetch();
    let mut rest = vec![];
    while let Some(t) = q.pop() {
        rest.push(t.val());
        ensure!(rest.len() <= m.len(), "queue.fifo", "drain returned more elements than stored: {rest:?} model {m:?}");
    }
    let e: Vec<u8> = m.iter().copied().collect();
    ensure!(rest == e, "queue.fifo", "drain returned {rest:?} expected {e:?}");
    ensure!(q.is_empty() && q.len() == 0, "queue.len", "queue not empty after drain");
    Ok(())
}
