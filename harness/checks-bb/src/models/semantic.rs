//! `SemanticString` types (`FileName`, `Path`, `FilePath`, `UserName`, `GroupName`, `Base64Url`,
//! `RestrictedFileName<N>`): the generic operations of the trait against a byte-vector model.
//!
//! Oracle (from the rustdoc of the trait: every modifying operation "fails if it would create an
//! illegal content", `new` "fails if the value contains invalid characters, exceeds the maximum
//! length or is illegal content"): with `valid(b) := Type::new(b).is_ok()` and `after` the content
//! the byte-vector model produces, a modifying operation must succeed and leave exactly `after`
//! when `valid(after)`, and must return an error and leave the value untouched otherwise. The
//! value is valid after every step. Which error variant is returned is not demanded.

use super::{Known, guarded};
use super::string::{Needle, SIG_EMPTY_RANGE_WHEN_FULL, SIG_REMOVE_AT_LEN, find_model, retain_pred, rfind_model};
use iceoryx2_bb_container::semantic_string::SemanticString;
use proptest::prelude::*;
use serde::{Deserialize, Serialize};
use vcore::util::idx;
use vcore::{Failure, Obs, ensure};

/// `SemanticString::rfind` delegates to `find`
pub const SIG_RFIND: &str = "semantic_string.rfind_returns_first_occurrence";
/// `strip_prefix` / `strip_suffix` whose result would be illegal build their error message in a
/// `StaticString<123>` and index out of bounds for arguments longer than 123 bytes
pub const SIG_STRIP_LONG: &str = "semantic_string.strip_error_path_overflows_123_bytes";

pub const SIGNATURES: &[&str] = &[SIG_RFIND, SIG_STRIP_LONG, SIG_REMOVE_AT_LEN, SIG_EMPTY_RANGE_WHEN_FULL];

#[derive(Clone, Debug, Serialize, Deserialize)]
pub enum SemOp {
    Push(u8),
    PushBytes(Vec<u8>),
    /// index mapped onto 0..=len
    Insert(u16, u8),
    InsertBytes(u16, Vec<u8>),
    /// `n` copies of the byte appended with one `push_bytes` (reaches the capacity)
    PushRun(u8, u8),
    Pop,
    /// index mapped onto 0..=len+1
    Remove(u16),
    /// (index, len) mapped onto 0..=len+1
    RemoveRange(u16, u16),
    Retain(u8, u8),
    /// mapped onto 0..=len+1
    Truncate(u16),
    Find(Needle),
    Rfind(Needle),
    StripPrefix(Needle),
    StripSuffix(Needle),
    /// strips the first / last `n` bytes of the content (n mapped onto 0..=len): long arguments
    StripHead(u16),
    StripTail(u16),
}

/// bytes that matter for the validity rules of the system types, plus rejected ones
pub fn sem_byte_strategy() -> impl Strategy<Value = u8> {
    prop_oneof![
        10 => prop_oneof![Just(b'a'), Just(b'b'), Just(b'.'), Just(b'/'), Just(b'-'), Just(b'_'), Just(b'0'), Just(b'Z')],
        2 => prop_oneof![Just(b' '), Just(b'*'), Just(b'\\'), Just(b':'), Just(b'~')],
        1 => 1u8..=127,
        1 => prop_oneof![Just(0u8), Just(200u8), Just(0xC3u8), Just(0xA4u8)],
    ]
}

pub fn sem_bytes_strategy(max: usize) -> impl Strategy<Value = Vec<u8>> {
    proptest::collection::vec(sem_byte_strategy(), 0..=max)
}

fn sem_needle_strategy() -> impl Strategy<Value = Needle> {
    prop_oneof![
        2 => sem_bytes_strategy(3).prop_map(Needle::Lit),
        3 => (any::<u16>(), any::<u16>()).prop_map(|(s, l)| Needle::Slice(s, l)),
    ]
}

pub fn semop_strategy() -> impl Strategy<Value = SemOp> {
    prop_oneof![
        4 => sem_byte_strategy().prop_map(SemOp::Push),
        4 => sem_bytes_strategy(5).prop_map(SemOp::PushBytes),
        3 => (any::<u16>(), sem_byte_strategy()).prop_map(|(i, b)| SemOp::Insert(i, b)),
        4 => (any::<u16>(), sem_bytes_strategy(5)).prop_map(|(i, b)| SemOp::InsertBytes(i, b)),
        1 => (prop_oneof![Just(b'a'), Just(b'/'), Just(b'.')], any::<u8>()).prop_map(|(b, n)| SemOp::PushRun(b, n)),
        2 => Just(SemOp::Pop),
        3 => any::<u16>().prop_map(SemOp::Remove),
        3 => (any::<u16>(), any::<u16>()).prop_map(|(i, l)| SemOp::RemoveRange(i, l)),
        1 => (0u8..5, sem_byte_strategy()).prop_map(|(k, a)| SemOp::Retain(k, a)),
        1 => any::<u16>().prop_map(SemOp::Truncate),
        2 => sem_needle_strategy().prop_map(SemOp::Find),
        3 => sem_needle_strategy().prop_map(SemOp::Rfind),
        2 => sem_needle_strategy().prop_map(SemOp::StripPrefix),
        2 => sem_needle_strategy().prop_map(SemOp::StripSuffix),
        1 => any::<u16>().prop_map(SemOp::StripHead),
        1 => any::<u16>().prop_map(SemOp::StripTail),
    ]
}

pub fn semop_alphabet() -> Vec<SemOp> {
    vec![
        SemOp::Push(b'a'),
        SemOp::Push(b'.'),
        SemOp::InsertBytes(0, vec![b'/', b'a']),
        SemOp::InsertBytes(65535, vec![b'a', 200]),
        SemOp::Remove(0),
        SemOp::RemoveRange(20000, 30000),
        SemOp::Pop,
        SemOp::Rfind(Needle::Lit(vec![b'a'])),
        SemOp::StripPrefix(Needle::Slice(0, 20000)),
        SemOp::Truncate(30000),
    ]
}

/// Applies the ops to `s` (which must hold `init`, created with `S::new(init)`) and to the model.
pub fn run_semantic_ops<const C: usize, S: SemanticString<C>>(
    s: &mut S,
    init: &[u8],
    ops: &[SemOp],
    hook: &mut dyn FnMut(usize),
    obs: &mut Obs,
    known: &Known,
) -> Result<(), Failure> {
    let valid = |b: &[u8]| S::new(b).is_ok();
    let mut m: Vec<u8> = init.to_vec();
    let mut rejected = false;
    let mut multi = false;
    ensure!(s.as_bytes() == m.as_slice(), "semantic_string.new", "new({init:?}) holds {:?}", s.as_bytes());
    ensure!(s.capacity() == C, "semantic_string.capacity", "capacity() = {} expected {C}", s.capacity());
    for (step, op) in ops.iter().enumerate() {
        // `after`: what the byte-vector model produces; `ret`: what the call reported
        // (Ok(true) = reported success, Ok(false) = reported "nothing to do", Err = error)
        let before = m.clone();
        let mut after: Option<Vec<u8>> = None; // None = the op must not change anything
        let outcome: Result<(), String>; // Err(description) when the call returned an error
        match op {
            SemOp::Push(_) | SemOp::PushBytes(_) | SemOp::Insert(..) | SemOp::InsertBytes(..) | SemOp::PushRun(..) => {
                let (i, bytes, r) = match op {
                    SemOp::Push(b) => (m.len(), vec![*b], s.push(*b)),
                    SemOp::PushBytes(b) => (m.len(), b.clone(), s.push_bytes(b)),
                    SemOp::PushRun(b, n) => {
                        let v = vec![*b; *n as usize];
                        let r = s.push_bytes(&v);
                        (m.len(), v, r)
                    }
                    SemOp::Insert(i, b) => {
                        let i = idx(*i, m.len() + 1);
                        (i, vec![*b], s.insert(i, *b))
                    }
                    SemOp::InsertBytes(i, b) => {
                        let i = idx(*i, m.len() + 1);
                        (i, b.clone(), s.insert_bytes(i, b))
                    }
                    _ => unreachable!(),
                };
                let mut a = m.clone();
                a.splice(i..i, bytes.iter().copied());
                if bytes.iter().any(|c| *c == 0 || *c >= 128) {
                    rejected = true;
                    obs.class("semantic.rejected_byte");
                }
                if a.len() > C {
                    obs.class("semantic.exceeds_capacity");
                }
                if bytes.len() >= 2 && valid(&a) {
                    multi = true;
                }
                after = Some(a);
                outcome = r.map_err(|e| format!("{e:?}"));
            }
            SemOp::Pop => {
                let r = s.pop();
                if m.is_empty() {
                    ensure!(matches!(r, Ok(None)), "semantic_string.pop", "step {step}: pop on empty value returned {r:?}");
                    outcome = Ok(());
                } else {
                    let mut a = m.clone();
                    let last = a.pop();
                    if let Ok(v) = &r {
                        ensure!(*v == last, "semantic_string.pop", "step {step}: pop returned {v:?} expected {last:?}");
                    }
                    after = Some(a);
                    outcome = r.map(|_| ()).map_err(|e| format!("{e:?}"));
                }
            }
            SemOp::Remove(i) => {
                let i = idx(*i, m.len() + 2);
                if i == m.len() {
                    if known.exclude(SIG_REMOVE_AT_LEN) {
                        continue;
                    }
                    let r = guarded(SIG_REMOVE_AT_LEN, "remove(len)", || s.remove(i))?;
                    ensure!(matches!(r, Ok(None)), SIG_REMOVE_AT_LEN, "step {step}: remove({i}) with len {} returned {r:?} expected Ok(None)", m.len());
                    outcome = Ok(());
                } else if i > m.len() {
                    let r = s.remove(i);
                    ensure!(!matches!(r, Ok(Some(_))), "semantic_string.remove", "step {step}: remove({i}) beyond the end returned {r:?}");
                    outcome = Ok(());
                } else {
                    let r = s.remove(i);
                    let mut a = m.clone();
                    let x = a.remove(i);
                    if let Ok(v) = &r {
                        ensure!(*v == Some(x), "semantic_string.remove", "step {step}: remove({i}) returned {v:?} expected {x}");
                    }
                    after = Some(a);
                    outcome = r.map(|_| ()).map_err(|e| format!("{e:?}"));
                }
            }
            SemOp::RemoveRange(i, l) => {
                let i = idx(*i, m.len() + 2);
                let l = idx(*l, m.len() + 2);
                if l == 0 && i <= m.len() && m.len() == C {
                    if known.exclude(SIG_EMPTY_RANGE_WHEN_FULL) {
                        continue;
                    }
                    guarded(SIG_EMPTY_RANGE_WHEN_FULL, "remove_range(idx, 0) on a full value", || s.remove_range(i, l))?.ok();
                    outcome = Ok(());
                } else {
                    let r = s.remove_range(i, l);
                    if i + l <= m.len() {
                        let mut a = m.clone();
                        a.drain(i..i + l);
                        if l >= 2 && valid(&a) {
                            multi = true;
                        }
                        after = Some(a);
                        outcome = r.map_err(|e| format!("{e:?}"));
                    } else {
                        // out of range: nothing may change, the result is not documented
                        outcome = Ok(());
                    }
                }
            }
            SemOp::Retain(k, a) => {
                let r = s.retain(retain_pred(*k, *a));
                let mut p = retain_pred(*k, *a);
                let mut x = m.clone();
                x.retain(|c| !p(*c));
                after = Some(x);
                outcome = r.map_err(|e| format!("{e:?}"));
            }
            SemOp::Truncate(n) => {
                let n = idx(*n, m.len() + 2);
                let r = s.truncate(n);
                let mut a = m.clone();
                a.truncate(n);
                after = Some(a);
                outcome = r.map_err(|e| format!("{e:?}"));
            }
            SemOp::Find(n) => {
                let n = n.resolve(&m);
                let r = s.find(&n);
                let e = find_model(&m, &n);
                ensure!(r == e, "semantic_string.find", "step {step}: find({n:?}) in {m:?} returned {r:?} expected {e:?}");
                outcome = Ok(());
            }
            SemOp::Rfind(n) => {
                let n = n.resolve(&m);
                let r = s.rfind(&n);
                let e = rfind_model(&m, &n);
                let first = find_model(&m, &n);
                if e != first {
                    obs.class("semantic.rfind_differs_from_find");
                }
                if r != e {
                    let msg = format!("step {step}: rfind({n:?}) in {m:?} returned {r:?} expected {e:?}");
                    if r == first {
                        // exactly the known shape: the first instead of the last occurrence
                        known.tolerate(SIG_RFIND, msg)?;
                    } else {
                        return Err(Failure::new("semantic_string.rfind", msg));
                    }
                }
                outcome = Ok(());
            }
            SemOp::StripPrefix(_) | SemOp::StripSuffix(_) | SemOp::StripHead(_) | SemOp::StripTail(_) => {
                let prefix = matches!(op, SemOp::StripPrefix(_) | SemOp::StripHead(_));
                let n = match op {
                    SemOp::StripPrefix(n) | SemOp::StripSuffix(n) => n.resolve(&m),
                    SemOp::StripHead(k) => m[..idx(*k, m.len() + 1)].to_vec(),
                    SemOp::StripTail(k) => m[m.len() - idx(*k, m.len() + 1)..].to_vec(),
                    _ => unreachable!(),
                };
                let matches_ = if prefix { m.starts_with(&n) } else { m.ends_with(&n) };
                let mut a = m.clone();
                if matches_ {
                    if prefix {
                        a.drain(0..n.len());
                    } else {
                        a.truncate(m.len() - n.len());
                    }
                }
                let call = |s: &mut S| if prefix { s.strip_prefix(&n) } else { s.strip_suffix(&n) };
                let r = if n.is_empty() && m.len() == C {
                    if known.exclude(SIG_EMPTY_RANGE_WHEN_FULL) {
                        continue;
                    }
                    guarded(SIG_EMPTY_RANGE_WHEN_FULL, "strip of an empty byte string on a full value", || call(s))?
                } else if matches_ && n.len() > 123 && !valid(&a) {
                    if known.exclude(SIG_STRIP_LONG) {
                        continue;
                    }
                    guarded(SIG_STRIP_LONG, "strip with an argument longer than 123 bytes and an illegal result", || call(s))?
                } else {
                    call(s)
                };
                if matches_ {
                    if let Ok(v) = &r {
                        ensure!(*v, "semantic_string.strip", "step {step} {op:?}: {n:?} is a prefix/suffix of {m:?} but the call returned Ok(false)");
                    }
                    if n.len() >= 2 && valid(&a) {
                        multi = true;
                    }
                    after = Some(a);
                    outcome = r.map(|_| ()).map_err(|e| format!("{e:?}"));
                } else {
                    ensure!(matches!(r, Ok(false)), "semantic_string.strip", "step {step} {op:?}: {n:?} is no prefix/suffix of {m:?} but the call returned {r:?}");
                    outcome = Ok(());
                }
            }
        }
        // the common oracle
        match after {
            None => {
                ensure!(outcome.is_ok(), "semantic_string.error", "step {step} {op:?}: unexpected error {outcome:?}");
            }
            Some(a) => {
                if valid(&a) {
                    ensure!(outcome.is_ok(), "semantic_string.refused_valid", "step {step} {op:?}: {before:?} -> {a:?} is valid content but the call returned {outcome:?}");
                    m = a;
                } else {
                    ensure!(outcome.is_err(), "semantic_string.accepted_invalid", "step {step} {op:?}: {before:?} -> {a:?} is not valid content but the call succeeded (value now {:?})", s.as_bytes());
                    obs.class("semantic.illegal_result_refused");
                }
            }
        }
        ensure!(s.as_bytes() == m.as_slice(), "semantic_string.contents", "step {step} {op:?}: value {:?} expected {m:?} (before: {before:?})", s.as_bytes());
        ensure!(&**s == m.as_slice(), "semantic_string.contents", "step {step} {op:?}: deref differs");
        ensure!(s.len() == m.len() && s.is_empty() == m.is_empty() && s.is_full() == (m.len() == C), "semantic_string.len", "step {step} {op:?}: len/is_empty/is_full wrong for {m:?}");
        let wn = s.as_string();
        ensure!(iceoryx2_bb_container::string::String::as_bytes_with_nul(wn)[m.len()] == 0, "semantic_string.terminator", "step {step} {op:?}: no NUL after the content");
        ensure!(valid(&m) , "semantic_string.invalid_value", "step {step} {op:?}: the value {m:?} would be refused by new()");
        if m.len() == C {
            obs.class("semantic.reached_full");
        }
        if rejected && multi {
            obs.nontrivial = true;
        }
        hook(step);
    }
    Ok(())
}
