//! Vector family: `StaticVec`, `PolymorphicVec`, `RelocatableVec` behind the repo's `Vector` trait;
//! model = `Vec<u8>`.

use super::Elem;
use iceoryx2_bb_container::vector::*;
use proptest::prelude::*;
use serde::{Deserialize, Serialize};
use vcore::util::idx;
use vcore::{Failure, Obs, ensure};

#[derive(Clone, Debug, Serialize, Deserialize)]
pub enum VOp {
    Push(u8),
    Pop,
    Insert(u16, u8),
    Remove(u16),
    Clear,
    Truncate(u16),
    Resize(u16, u8),
    ResizeWith(u16, u8),
    Extend(Vec<u8>),
    /// writes through `as_mut_slice` / `DerefMut`
    Set(u16, u8),
}

pub fn vop_strategy() -> impl Strategy<Value = VOp> {
    prop_oneof![
        4 => (0u8..6).prop_map(VOp::Push),
        2 => Just(VOp::Pop),
        3 => (any::<u16>(), 0u8..6).prop_map(|(i, v)| VOp::Insert(i, v)),
        3 => any::<u16>().prop_map(VOp::Remove),
        1 => Just(VOp::Clear),
        1 => any::<u16>().prop_map(VOp::Truncate),
        1 => (any::<u16>(), 0u8..6).prop_map(|(n, v)| VOp::Resize(n, v)),
        1 => (any::<u16>(), 0u8..6).prop_map(|(n, v)| VOp::ResizeWith(n, v)),
        1 => proptest::collection::vec(0u8..6, 0..4).prop_map(VOp::Extend),
        1 => (any::<u16>(), 0u8..6).prop_map(|(i, v)| VOp::Set(i, v)),
    ]
}

/// reduced alphabet of the bounded-exhaustive part
pub fn vop_alphabet() -> Vec<VOp> {
    vec![
        VOp::Push(1),
        VOp::Push(2),
        VOp::Pop,
        VOp::Insert(0, 0),
        VOp::Insert(40000, 0),
        VOp::Remove(0),
        VOp::Remove(30000),
        VOp::Truncate(20000),
        VOp::Extend(vec![1, 2]),
    ]
}

fn vals<E: Elem>(v: &[E]) -> Vec<u8> {
    v.iter().map(|t| t.val()).collect()
}

/// Applies the ops to the vector and to the model; compares after every step.
pub fn run_vec_ops<'a, E: Elem + Clone + 'a, V: Vector<E> + 'a>(
    fetch: &mut dyn FnMut() -> &'a mut V,
    cap: usize,
    ops: &[VOp],
    hook: &mut dyn FnMut(usize),
    obs: &mut Obs,
) -> Result<(), Failure> {
    let mut m: Vec<u8> = Vec::new();
    let mut was_full = false;
    let mut removed_inner_when_full = false;
    {
        let v = fetch();
        ensure!(v.capacity() == cap, "vec.capacity", "capacity() = {} expected {}", v.capacity(), cap);
        ensure!(v.is_empty() && v.len() == 0, "vec.len", "new vector is not empty");
    }
    for (step, op) in ops.iter().enumerate() {
        let v = fetch();
        match op {
            VOp::Push(x) => {
                let r = v.push(E::make(*x));
                if m.len() < cap {
                    ensure!(r.is_ok(), "vec.push", "step {step}: push failed below capacity");
                    if was_full && removed_inner_when_full {
                        obs.nontrivial = true;
                    }
                    m.push(*x);
                } else {
                    ensure!(
                        r == Err(VectorModificationError::InsertWouldExceedCapacity),
                        "vec.push",
                        "step {step}: push on full vec returned {r:?}"
                    );
                }
            }
            VOp::Pop => {
                let r = v.pop().map(|t| t.val());
                ensure!(r == m.pop(), "vec.pop", "step {step}: pop returned {r:?}");
            }
            VOp::Insert(i, x) => {
                // index range 0..=len+1 so that out-of-bounds is reached as well
                let i = idx(*i, m.len() + 2);
                let r = v.insert(i, E::make(*x));
                let full = m.len() == cap;
                let oob = i > m.len();
                if !full && !oob {
                    ensure!(r.is_ok(), "vec.insert", "step {step}: insert({i}) failed: {r:?}");
                    if was_full && removed_inner_when_full {
                        obs.nontrivial = true;
                    }
                    m.insert(i, *x);
                } else {
                    let ok = match r {
                        Err(VectorModificationError::InsertWouldExceedCapacity) => full,
                        Err(VectorModificationError::OutOfBounds) => oob,
                        Ok(()) => false,
                    };
                    ensure!(ok, "vec.insert", "step {step}: insert({i}) with len {} cap {cap} returned {r:?}", m.len());
                }
            }
            VOp::Remove(i) => {
                let i = idx(*i, m.len() + 1);
                let r = v.remove(i).map(|t| t.val());
                let e = if i < m.len() {
                    if was_full && i + 1 < m.len() {
                        removed_inner_when_full = true;
                        obs.class("vec.removed_inner");
                    }
                    Some(m.remove(i))
                } else {
                    None
                };
                ensure!(r == e, "vec.remove", "step {step}: remove({i}) returned {r:?} expected {e:?}");
            }
            VOp::Clear => {
                v.clear();
                m.clear();
            }
            VOp::Truncate(n) => {
                let n = idx(*n, cap + 2);
                v.truncate(n);
                m.truncate(n);
            }
            VOp::Resize(n, x) | VOp::ResizeWith(n, x) => {
                let n = idx(*n, cap + 2);
                let r = if matches!(op, VOp::Resize(..)) { v.resize(n, E::make(*x)) } else { v.resize_with(n, || E::make(*x)) };
                if n <= cap {
                    ensure!(r.is_ok(), "vec.resize", "step {step}: resize({n}) failed");
                    m.resize(n, *x);
                } else {
                    ensure!(
                        r == Err(VectorModificationError::InsertWouldExceedCapacity),
                        "vec.resize",
                        "step {step}: resize({n}) beyond capacity returned {r:?}"
                    );
                    obs.class("vec.capacity_error");
                }
            }
            VOp::Extend(xs) => {
                let ts: Vec<E> = xs.iter().map(|x| E::make(*x)).collect();
                let r = v.extend_from_slice(&ts);
                if m.len() + xs.len() <= cap {
                    ensure!(r.is_ok(), "vec.extend", "step {step}: extend_from_slice failed");
                    m.extend_from_slice(xs);
                } else {
                    ensure!(
                        r == Err(VectorModificationError::InsertWouldExceedCapacity),
                        "vec.extend",
                        "step {step}: extend beyond capacity returned {r:?}"
                    );
                    obs.class("vec.capacity_error");
                }
            }
            VOp::Set(i, x) => {
                if !m.is_empty() {
                    let i = idx(*i, m.len());
                    if step % 2 == 0 {
                        v.as_mut_slice()[i].set(*x);
                    } else {
                        v[i].set(*x);
                    }
                    m[i] = *x;
                }
            }
        }
        if m.len() == cap && cap > 0 {
            was_full = true;
            obs.class("vec.reached_full");
        }
        ensure!(v.len() == m.len(), "vec.len", "step {step} {op:?}: len {} expected {}", v.len(), m.len());
        ensure!(v.is_empty() == m.is_empty(), "vec.is_empty", "step {step}: is_empty mismatch");
        ensure!(v.is_full() == (m.len() == cap), "vec.is_full", "step {step}: is_full mismatch");
        ensure!(v.capacity() == cap, "vec.capacity", "step {step}: capacity changed to {}", v.capacity());
        let got = vals(v.as_slice());
        ensure!(got == m, "vec.contents", "step {step} {op:?}: contents {got:?} expected {m:?}");
        let got_iter: Vec<u8> = v.iter().map(|t| t.val()).collect();
        ensure!(got_iter == m, "vec.iter", "step {step}: iteration order differs");
        hook(step);
    }
    Ok(())
}
