//! `RelocatableOption<T>`; model = `Option<u8>`.

use super::Elem;
use iceoryx2_bb_container::relocatable_option::RelocatableOption;
use proptest::prelude::*;
use serde::{Deserialize, Serialize};
use vcore::{Failure, Obs, ensure};

#[derive(Clone, Debug, Serialize, Deserialize)]
pub enum OOp {
    Replace(u8),
    Take,
    /// `take_if(|v| v < threshold)`; the predicate also adds 1 to the value through its `&mut`
    TakeIf(u8),
    /// overwrite through `as_option_mut` / `as_mut` / `as_deref_mut`-free accessors
    SetViaMut(u8),
    /// assign a fresh `Some` / `None` (drops the old content)
    Assign(Option<u8>),
    /// `take()` followed by one of the consuming accessors (selector)
    Consume(u8),
}

pub fn oop_strategy() -> impl Strategy<Value = OOp> {
    prop_oneof![
        3 => (0u8..8).prop_map(OOp::Replace),
        2 => Just(OOp::Take),
        2 => (0u8..10).prop_map(OOp::TakeIf),
        2 => (0u8..8).prop_map(OOp::SetViaMut),
        1 => proptest::option::of(0u8..8).prop_map(OOp::Assign),
        2 => (0u8..6).prop_map(OOp::Consume),
    ]
}

pub fn oop_alphabet() -> Vec<OOp> {
    vec![OOp::Replace(1), OOp::Replace(2), OOp::Take, OOp::TakeIf(2), OOp::TakeIf(0), OOp::SetViaMut(3), OOp::Assign(None), OOp::Assign(Some(4)), OOp::Consume(0), OOp::Consume(3)]
}

fn ov<E: Elem>(o: RelocatableOption<E>) -> Option<u8> {
    o.to_option().map(|e| e.val())
}

pub fn run_option_ops<'a, E: Elem + 'a>(
    fetch: &mut dyn FnMut() -> &'a mut RelocatableOption<E>,
    ops: &[OOp],
    hook: &mut dyn FnMut(usize),
    obs: &mut Obs,
) -> Result<(), Failure> {
    let mut m: Option<u8> = None;
    let mut replaced_some = false;
    ensure!(fetch().is_none(), "option.state", "a fresh RelocatableOption is not None");
    for (step, op) in ops.iter().enumerate() {
        let o = fetch();
        match op {
            OOp::Replace(x) => {
                let r = ov(o.replace(E::make(*x)));
                ensure!(r == m, "option.replace", "step {step}: replace returned {r:?} expected {m:?}");
                if m.is_some() {
                    replaced_some = true;
                    obs.class("option.replaced_some");
                }
                m = Some(*x);
            }
            OOp::Take => {
                let r = ov(o.take());
                ensure!(r == m, "option.take", "step {step}: take returned {r:?} expected {m:?}");
                if m.is_some() && replaced_some {
                    obs.nontrivial = true;
                }
                m = None;
            }
            OOp::TakeIf(th) => {
                let mut called = false;
                let r = ov(o.take_if(|v| {
                    called = true;
                    let old = v.val();
                    v.set(old.wrapping_add(1));
                    old < *th
                }));
                ensure!(called == m.is_some(), "option.take_if", "step {step}: predicate called: {called}, content {m:?}");
                let e = match m {
                    Some(v) if v < *th => {
                        m = None;
                        obs.class("option.take_if_taken");
                        Some(v.wrapping_add(1))
                    }
                    Some(v) => {
                        m = Some(v.wrapping_add(1));
                        obs.class("option.take_if_kept");
                        None
                    }
                    None => None,
                };
                ensure!(r == e, "option.take_if", "step {step}: take_if returned {r:?} expected {e:?}");
            }
            OOp::SetViaMut(x) => {
                let got = if step % 2 == 0 {
                    o.as_option_mut().map(|v| {
                        let old = v.val();
                        v.set(*x);
                        old
                    })
                } else {
                    o.as_mut().to_option().map(|v| {
                        let old = v.val();
                        v.set(*x);
                        old
                    })
                };
                ensure!(got == m, "option.as_mut", "step {step}: mutable access saw {got:?} expected {m:?}");
                if m.is_some() {
                    m = Some(*x);
                }
            }
            OOp::Assign(v) => {
                *o = match v {
                    Some(x) => RelocatableOption::Some(E::make(*x)),
                    None => RelocatableOption::None,
                };
                m = *v;
            }
            OOp::Consume(sel) => {
                let taken = o.take();
                let had = taken.is_some();
                let r: Option<u8> = match sel % 6 {
                    0 => taken.to_option().map(|e| e.val()),
                    1 => Some(taken.unwrap_or(E::make(200)).val()).filter(|v| had || *v != 200),
                    2 => Some(taken.unwrap_or_else(|| E::make(200)).val()).filter(|v| had || *v != 200),
                    3 => ov(taken.map(|e| e)),
                    4 => {
                        let mut seen = None;
                        let back = taken.inspect(|e| seen = Some(e.val()));
                        let b = ov(back);
                        ensure!(b == seen, "option.inspect", "step {step}: inspect saw {seen:?} but returned {b:?}");
                        seen
                    }
                    _ => {
                        let opt: Option<E> = taken.into();
                        let back: RelocatableOption<E> = opt.into();
                        ov(back)
                    }
                };
                ensure!(r == m, "option.consume", "step {step}: consuming accessor {sel} returned {r:?} expected {m:?}");
                m = None;
            }
        }
        ensure!(o.is_some() == m.is_some() && o.is_none() == m.is_none(), "option.state", "step {step} {op:?}: is_some/is_none wrong, expected {m:?}");
        let r = o.as_option_ref().map(|e| e.val());
        ensure!(r == m, "option.state", "step {step} {op:?}: content {r:?} expected {m:?}");
        let r = o.as_ref().to_option().map(|e| e.val());
        ensure!(r == m, "option.state", "step {step} {op:?}: as_ref() content {r:?} expected {m:?}");
        hook(step);
    }
    Ok(())
}
