//! String family: `StaticString<N>`, `PolymorphicString`, `RelocatableString` behind the repo's
//! `String` trait; model = `Vec<u8>` with the documented acceptance rule (bytes 1..=127 only,
//! length <= capacity, NUL terminator observable through `as_bytes_with_nul`).
//!
//! `retain`: the rustdoc of `String::retain` says "removes all characters where f(c) returns
//! false", the conformance test `retain_works` (and the rustdoc of `SemanticString::retain`)
//! state the opposite (characters that satisfy f are removed), which is what is implemented. The
//! model follows the conformance test.

use super::{Known, guarded};
use iceoryx2_bb_container::string::{String as IoxString, StringModificationError};
use iceoryx2_bb_elementary_traits::allocator::{Allocate, AllocationError, Deallocate};
use proptest::prelude::*;
use serde::{Deserialize, Serialize};
use std::alloc::Layout;
use std::cmp::Ordering;
use std::ptr::NonNull;
use vcore::util::idx;
use vcore::{Failure, Obs, ensure};

/// `remove(len)` returns `Some(0)` (the terminator) or, with inline storage and a full string,
/// indexes out of bounds
pub const SIG_REMOVE_AT_LEN: &str = "string.remove_at_len";
/// `remove_range(idx, 0)` (also via `strip_prefix(b"")` / `strip_suffix(b"")`) on a full string
/// with inline storage writes the terminator out of bounds (panic)
pub const SIG_EMPTY_RANGE_WHEN_FULL: &str = "string.empty_range_on_full_static_string_panics";
/// a polymorphic / relocatable string filled up to its capacity has no NUL terminator
pub const SIG_TERMINATOR_WHEN_FULL: &str = "string.no_terminator_when_filled_to_capacity";

/// `RelocatableString::init` does not write the terminator of the empty string (memory that is not
/// zeroed shows through `as_bytes_with_nul` / `as_c_str` until the first modification)
pub const SIG_TERMINATOR_AFTER_INIT: &str = "string.relocatable_init_writes_no_terminator";

pub const SIGNATURES: &[&str] = &[SIG_REMOVE_AT_LEN, SIG_EMPTY_RANGE_WHEN_FULL, SIG_TERMINATOR_WHEN_FULL, SIG_TERMINATOR_AFTER_INIT];

/// a byte string that is either literal or a slice of the current content (so that searches hit)
#[derive(Clone, Debug, Serialize, Deserialize)]
pub enum Needle {
    Lit(Vec<u8>),
    /// (start, len) mapped onto the current content
    Slice(u16, u16),
}

impl Needle {
    pub fn resolve(&self, m: &[u8]) -> Vec<u8> {
        match self {
            Needle::Lit(v) => v.clone(),
            Needle::Slice(s, l) => {
                let s = idx(*s, m.len() + 1);
                let l = idx(*l, (m.len() - s).min(8) + 1);
                m[s..s + l].to_vec()
            }
        }
    }
}

#[derive(Clone, Debug, Serialize, Deserialize)]
pub enum StrOp {
    Push(u8),
    PushBytes(Vec<u8>),
    /// index mapped onto 0..=len
    Insert(u16, u8),
    InsertBytes(u16, Vec<u8>),
    Pop,
    /// index mapped onto 0..=len+1
    Remove(u16),
    /// (index, len) each mapped onto 0..=len+1
    RemoveRange(u16, u16),
    /// predicate kind, argument: 0 c==arg, 1 c<arg, 2 c is even, 3 always, 4 never
    Retain(u8, u8),
    /// mapped onto 0..=capacity+1
    Truncate(u16),
    Clear,
    Find(Needle),
    Rfind(Needle),
    StripPrefix(Needle),
    StripSuffix(Needle),
    /// compare with another string of the same type holding these (valid) bytes
    Cmp(Vec<u8>),
    /// overwrite one byte through `as_mut_bytes` / `DerefMut` (valid byte)
    SetByte(u16, u8),
}

pub fn retain_pred(kind: u8, arg: u8) -> impl FnMut(u8) -> bool {
    move |c| match kind % 5 {
        0 => c == arg,
        1 => c < arg,
        2 => c % 2 == 0,
        3 => true,
        _ => false,
    }
}

/// mostly a small valid alphabet (so that searches and prefixes hit), sometimes any byte
pub fn byte_strategy() -> impl Strategy<Value = u8> {
    prop_oneof![
        8 => prop_oneof![Just(b'a'), Just(b'b'), Just(b'c'), Just(b'/'), Just(b'.')],
        2 => 1u8..=127,
        1 => Just(0u8),
        1 => 128u8..=255,
        1 => any::<u8>(),
    ]
}

pub fn valid_byte_strategy() -> impl Strategy<Value = u8> {
    prop_oneof![6 => prop_oneof![Just(b'a'), Just(b'b'), Just(b'c')], 1 => 1u8..=127]
}

pub fn bytes_strategy(max: usize) -> impl Strategy<Value = Vec<u8>> {
    proptest::collection::vec(byte_strategy(), 0..=max)
}

pub fn needle_strategy() -> impl Strategy<Value = Needle> {
    prop_oneof![
        2 => bytes_strategy(3).prop_map(Needle::Lit),
        3 => (any::<u16>(), any::<u16>()).prop_map(|(s, l)| Needle::Slice(s, l)),
    ]
}

pub fn strop_strategy() -> impl Strategy<Value = StrOp> {
    prop_oneof![
        4 => byte_strategy().prop_map(StrOp::Push),
        4 => bytes_strategy(5).prop_map(StrOp::PushBytes),
        3 => (any::<u16>(), byte_strategy()).prop_map(|(i, b)| StrOp::Insert(i, b)),
        4 => (any::<u16>(), bytes_strategy(5)).prop_map(|(i, b)| StrOp::InsertBytes(i, b)),
        2 => Just(StrOp::Pop),
        3 => any::<u16>().prop_map(StrOp::Remove),
        3 => (any::<u16>(), any::<u16>()).prop_map(|(i, l)| StrOp::RemoveRange(i, l)),
        1 => (0u8..5, byte_strategy()).prop_map(|(k, a)| StrOp::Retain(k, a)),
        1 => any::<u16>().prop_map(StrOp::Truncate),
        1 => Just(StrOp::Clear),
        2 => needle_strategy().prop_map(StrOp::Find),
        2 => needle_strategy().prop_map(StrOp::Rfind),
        2 => needle_strategy().prop_map(StrOp::StripPrefix),
        2 => needle_strategy().prop_map(StrOp::StripSuffix),
        1 => proptest::collection::vec(valid_byte_strategy(), 0..4).prop_map(StrOp::Cmp),
        1 => (any::<u16>(), valid_byte_strategy()).prop_map(|(i, b)| StrOp::SetByte(i, b)),
    ]
}

pub fn strop_alphabet() -> Vec<StrOp> {
    vec![
        StrOp::Push(b'a'),
        StrOp::PushBytes(vec![b'a', b'b']),
        StrOp::InsertBytes(0, vec![b'b', 0xC3]),
        StrOp::Insert(30000, b'c'),
        StrOp::Remove(0),
        StrOp::Remove(65535),
        StrOp::RemoveRange(20000, 30000),
        StrOp::Rfind(Needle::Lit(vec![b'a'])),
        StrOp::StripPrefix(Needle::Slice(0, 20000)),
        StrOp::Truncate(20000),
    ]
}

/// An allocator for the polymorphic flavour that hands out memory filled with 0x5A (an allocator
/// does not have to return zeroed memory; with `malloc` the content is merely unpredictable).
#[derive(Debug, Default)]
pub struct DirtyHeap;

impl Allocate<NonNull<u8>> for DirtyHeap {
    fn allocate(&self, layout: Layout) -> Result<NonNull<u8>, AllocationError> {
        if layout.size() == 0 {
            return Err(AllocationError::SizeIsZero);
        }
        let p = unsafe { std::alloc::alloc(layout) };
        match NonNull::new(p) {
            Some(p) => {
                unsafe { std::ptr::write_bytes(p.as_ptr(), 0x5A, layout.size()) };
                Ok(p)
            }
            None => Err(AllocationError::OutOfMemory),
        }
    }
}

impl Deallocate<NonNull<u8>> for DirtyHeap {
    unsafe fn deallocate(&self, ptr: NonNull<u8>, layout: Layout) {
        unsafe { std::alloc::dealloc(ptr.as_ptr(), layout) }
    }
}

pub fn find_model(m: &[u8], n: &[u8]) -> Option<usize> {
    if n.len() > m.len() {
        return None;
    }
    (0..=m.len() - n.len()).find(|i| &m[*i..*i + n.len()] == n)
}

pub fn rfind_model(m: &[u8], n: &[u8]) -> Option<usize> {
    if n.len() > m.len() {
        return None;
    }
    (0..=m.len() - n.len()).rev().find(|i| &m[*i..*i + n.len()] == n)
}

fn acceptable(b: &[u8]) -> bool {
    b.iter().all(|c| (1..=127).contains(c))
}

/// Applies the ops to the string and to the model; compares after every step.
///
/// * `inline_storage`: the flavour keeps exactly `capacity` bytes in its data slice (StaticString);
///   decides which of the known-finding shapes apply.
/// * `cmp(s, other_bytes)`: builds a second string of the same type holding `other_bytes` and
///   returns `(s.cmp(&other), s == other)`; `None` = comparison not available.
#[allow(clippy::too_many_arguments)]
pub fn run_string_ops<'a, S: IoxString + 'a>(
    fetch: &mut dyn FnMut() -> &'a mut S,
    cap: usize,
    inline_storage: bool,
    ops: &[StrOp],
    cmp: &mut dyn FnMut(&S, &[u8]) -> Option<(Ordering, bool)>,
    hook: &mut dyn FnMut(usize),
    obs: &mut Obs,
    known: &Known,
) -> Result<(), Failure> {
    let mut m: Vec<u8> = Vec::new();
    let mut rejected_byte = false;
    let mut multi_byte_edit = false;
    {
        let s = fetch();
        ensure!(s.capacity() == cap, "string.capacity", "capacity() = {} expected {}", s.capacity(), cap);
        ensure!(s.is_empty() && s.len() == 0, "string.len", "new string is not empty");
        let wn = s.as_bytes_with_nul();
        ensure!(wn.len() == 1, "string.terminator", "new string: as_bytes_with_nul() = {wn:?}");
        if wn[0] != 0 {
            let msg = format!("new string (capacity {cap}): as_bytes_with_nul() = {wn:?}");
            if inline_storage {
                return Err(Failure::new("string.terminator", msg));
            }
            known.tolerate(SIG_TERMINATOR_AFTER_INIT, msg)?;
        }
    }
    // no call that writes a terminator has happened yet
    let mut pristine = true;
    for (step, op) in ops.iter().enumerate() {
        let s = fetch();
        let before = m.clone();
        match op {
            StrOp::Push(_) | StrOp::PushBytes(_) | StrOp::Insert(..) | StrOp::InsertBytes(..) => {
                let (i, bytes, r): (usize, Vec<u8>, Result<(), StringModificationError>) = match op {
                    StrOp::Push(b) => (m.len(), vec![*b], s.push(*b)),
                    StrOp::PushBytes(b) => (m.len(), b.clone(), s.push_bytes(b)),
                    StrOp::Insert(i, b) => {
                        let i = idx(*i, m.len() + 1);
                        (i, vec![*b], s.insert(i, *b))
                    }
                    StrOp::InsertBytes(i, b) => {
                        let i = idx(*i, m.len() + 1);
                        (i, b.clone(), s.insert_bytes(i, b))
                    }
                    _ => unreachable!(),
                };
                let too_long = m.len() + bytes.len() > cap;
                let bad = !acceptable(&bytes);
                if too_long || bad {
                    let ok = match r {
                        Err(StringModificationError::InsertWouldExceedCapacity) => too_long,
                        Err(StringModificationError::InvalidCharacter) => bad,
                        Ok(()) => false,
                    };
                    ensure!(ok, "string.insert", "step {step} {op:?}: returned {r:?} (exceeds capacity: {too_long}, unsupported byte: {bad})");
                    if bad {
                        rejected_byte = true;
                        obs.class("string.rejected_byte");
                    }
                    if too_long {
                        obs.class("string.capacity_error");
                    }
                } else {
                    ensure!(r.is_ok(), "string.insert", "step {step} {op:?}: acceptable insertion returned {r:?}");
                    if bytes.len() >= 2 {
                        multi_byte_edit = true;
                        if i < m.len() {
                            obs.class("string.multi_byte_insert_in_the_middle");
                        }
                    }
                    m.splice(i..i, bytes.iter().copied());
                }
            }
            StrOp::Pop => {
                let r = s.pop();
                ensure!(r == m.pop(), "string.pop", "step {step}: pop returned {r:?}");
            }
            StrOp::Remove(i) => {
                let i = idx(*i, m.len() + 2);
                if i == m.len() && known.exclude(SIG_REMOVE_AT_LEN) {
                    // left out
                } else {
                    let r = if i == m.len() { guarded(SIG_REMOVE_AT_LEN, "remove(len)", || s.remove(i))? } else { s.remove(i) };
                    let sig = if i == m.len() { SIG_REMOVE_AT_LEN } else { "string.remove" };
                    let e = if i < m.len() { Some(m.remove(i)) } else { None };
                    ensure!(r == e, sig, "step {step}: remove({i}) with len {} returned {r:?} expected {e:?}", m.len() + e.is_some() as usize);
                }
            }
            StrOp::RemoveRange(i, l) => {
                let i = idx(*i, m.len() + 2);
                let l = idx(*l, m.len() + 2);
                if l == 0 && i <= m.len() && m.len() == cap && inline_storage && known.exclude(SIG_EMPTY_RANGE_WHEN_FULL) {
                    // left out
                } else {
                    let r = if l == 0 && m.len() == cap && inline_storage {
                        guarded(SIG_EMPTY_RANGE_WHEN_FULL, "remove_range(idx, 0) on a full string", || s.remove_range(i, l))?
                    } else {
                        s.remove_range(i, l)
                    };
                    let e = i + l <= m.len();
                    ensure!(r == e, "string.remove_range", "step {step}: remove_range({i}, {l}) with len {} returned {r}", m.len());
                    if e {
                        m.drain(i..i + l);
                        if l >= 2 {
                            multi_byte_edit = true;
                            if i + l < m.len() + l {
                                obs.class("string.multi_byte_removal_before_the_end");
                            }
                        }
                    }
                }
            }
            StrOp::Retain(k, a) => {
                s.retain(retain_pred(*k, *a));
                let mut p = retain_pred(*k, *a);
                m.retain(|c| !p(*c));
            }
            StrOp::Truncate(n) => {
                let n = idx(*n, cap + 2);
                s.truncate(n);
                m.truncate(n);
            }
            StrOp::Clear => {
                s.clear();
                m.clear();
            }
            StrOp::Find(n) => {
                let n = n.resolve(&m);
                let r = s.find(&n);
                let e = find_model(&m, &n);
                ensure!(r == e, "string.find", "step {step}: find({n:?}) in {m:?} returned {r:?} expected {e:?}");
            }
            StrOp::Rfind(n) => {
                let n = n.resolve(&m);
                let r = s.rfind(&n);
                let e = rfind_model(&m, &n);
                ensure!(r == e, "string.rfind", "step {step}: rfind({n:?}) in {m:?} returned {r:?} expected {e:?}");
                if e.is_some() && e != find_model(&m, &n) {
                    obs.class("string.rfind_differs_from_find");
                }
            }
            StrOp::StripPrefix(n) | StrOp::StripSuffix(n) => {
                let n = n.resolve(&m);
                let prefix = matches!(op, StrOp::StripPrefix(_));
                if n.is_empty() && m.len() == cap && inline_storage && known.exclude(SIG_EMPTY_RANGE_WHEN_FULL) {
                    // left out
                } else {
                    let r = if n.is_empty() && m.len() == cap && inline_storage {
                        guarded(SIG_EMPTY_RANGE_WHEN_FULL, "strip of an empty byte string on a full string", || if prefix { s.strip_prefix(&n) } else { s.strip_suffix(&n) })?
                    } else if prefix {
                        s.strip_prefix(&n)
                    } else {
                        s.strip_suffix(&n)
                    };
                    let e = if prefix { m.starts_with(&n) } else { m.ends_with(&n) };
                    ensure!(r == e, "string.strip", "step {step} {op:?}: stripping {n:?} from {m:?} returned {r}");
                    if e {
                        if prefix {
                            m.drain(0..n.len());
                        } else {
                            m.truncate(m.len() - n.len());
                        }
                        if n.len() >= 2 {
                            multi_byte_edit = true;
                        }
                    }
                }
            }
            StrOp::Cmp(other) => {
                if other.len() <= cap {
                    if let Some((o, eq)) = cmp(s, other) {
                        let e = m.as_slice().cmp(other.as_slice());
                        ensure!(o == e && eq == (e == Ordering::Equal), "string.cmp", "step {step}: {m:?} compared with {other:?} gives {o:?}/{eq} expected {e:?}");
                    }
                }
            }
            StrOp::SetByte(i, b) => {
                if !m.is_empty() {
                    let i = idx(*i, m.len());
                    if step % 2 == 0 {
                        s.as_mut_bytes()[i] = *b;
                    } else {
                        s[i] = *b;
                    }
                    m[i] = *b;
                }
            }
        }
        if m.len() == cap {
            obs.class("string.reached_full");
        }
        if rejected_byte && multi_byte_edit {
            obs.nontrivial = true;
        }
        ensure!(s.len() == m.len(), "string.len", "step {step} {op:?}: len {} expected {}", s.len(), m.len());
        ensure!(s.is_empty() == m.is_empty(), "string.is_empty", "step {step}: is_empty mismatch");
        ensure!(s.is_full() == (m.len() == cap), "string.is_full", "step {step}: is_full mismatch");
        ensure!(s.capacity() == cap, "string.capacity", "step {step}: capacity changed to {}", s.capacity());
        ensure!(s.as_bytes() == m.as_slice(), "string.contents", "step {step} {op:?}: content {:?} expected {m:?}", s.as_bytes());
        ensure!(&**s == m.as_slice(), "string.contents", "step {step} {op:?}: deref differs from the model");
        let wn = s.as_bytes_with_nul();
        ensure!(wn.len() == m.len() + 1 && wn[..m.len()] == m[..], "string.contents", "step {step} {op:?}: as_bytes_with_nul() = {wn:?}");
        // certain terminator writes: clear, an insertion that stays below the capacity, a removal
        let wrote = matches!(op, StrOp::Clear) || (m.len() > before.len() && m.len() < cap) || m.len() < before.len();
        pristine = pristine && !wrote;
        if wn[m.len()] != 0 {
            let msg = format!("step {step} {op:?}: as_bytes_with_nul() of {m:?} ends with {:#x} instead of NUL (len {} capacity {cap})", wn[m.len()], m.len());
            if pristine && m.is_empty() && !inline_storage {
                known.tolerate(SIG_TERMINATOR_AFTER_INIT, msg)?;
            } else if m.len() == cap && !inline_storage {
                known.tolerate(SIG_TERMINATOR_WHEN_FULL, msg)?;
            } else {
                return Err(Failure::new("string.terminator", msg));
            }
        }
        ensure!(s.as_str().as_bytes() == m.as_slice(), "string.contents", "step {step} {op:?}: as_str differs from the model");
        hook(step);
    }
    Ok(())
}
