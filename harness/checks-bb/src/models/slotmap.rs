//! Slot map family: `SlotMap`, `FixedSizeSlotMap`, `RelocatableSlotMap`; model = `BTreeMap<usize,u8>`
//! plus the free-key rule of the rustdoc:
//!
//! * `insert`: "returns the corresponding key; if the container is full None is returned" and the
//!   module doc "a static unique key for every stored value" => when not full the result is a key
//!   below the capacity that was not in use, no other entry changes.
//! * `next_free_key`: "the key that will be used when the user calls insert(); if the SlotMap is
//!   full it returns None" => None iff full, and the next `insert` returns exactly that key.
//! * `insert_at`: true for keys below the capacity (value stored, an existing one overridden),
//!   "if the provided key is out-of-bounds it returns false and adds nothing".
//! * `remove`: "if there was no value corresponding to the key it returns None".
//!
//! Which free key is handed out is not documented and not demanded. `contains/get/get_mut` are
//! only called with keys below the capacity (nothing is documented about foreign keys there).

use super::{Elem, Known};
use iceoryx2_bb_container::slotmap::{FixedSizeSlotMap, RelocatableSlotMap, SlotMap, SlotMapKey};
use proptest::prelude::*;
use serde::{Deserialize, Serialize};
use std::collections::BTreeMap;
use vcore::util::idx;
use vcore::{Failure, Obs, ensure};

/// `insert_at(k)` with k the head of the free list or an occupied key corrupts the free list
pub const SIG_INSERT_AT_FREE_LIST: &str = "slotmap.insert_at_corrupts_free_list";
/// `insert_at(capacity)` / `remove(capacity)` index out of bounds instead of returning false / None
pub const SIG_KEY_EQ_CAPACITY: &str = "slotmap.key_equal_capacity_panics";
/// a slot map with capacity 0 reports a free key and `insert` panics instead of returning None
pub const SIG_CAPACITY_ZERO: &str = "slotmap.capacity_zero_insert_panics";

pub const SIGNATURES: &[&str] = &[SIG_INSERT_AT_FREE_LIST, SIG_KEY_EQ_CAPACITY, SIG_CAPACITY_ZERO];

#[derive(Clone, Debug, Serialize, Deserialize)]
pub enum SOp {
    Insert(u8),
    /// key mapped onto 0..=capacity+2
    InsertAt(u16, u8),
    /// key mapped onto 0..=capacity+2
    Remove(u16),
    /// key mapped onto 0..capacity
    Get(u16),
    GetMut(u16, u8),
    Contains(u16),
    NextFreeKey,
}

pub fn sop_strategy() -> impl Strategy<Value = SOp> {
    prop_oneof![
        5 => (0u8..8).prop_map(SOp::Insert),
        3 => (any::<u16>(), 0u8..8).prop_map(|(k, v)| SOp::InsertAt(k, v)),
        5 => any::<u16>().prop_map(SOp::Remove),
        1 => any::<u16>().prop_map(SOp::Get),
        1 => (any::<u16>(), 0u8..8).prop_map(|(k, v)| SOp::GetMut(k, v)),
        1 => any::<u16>().prop_map(SOp::Contains),
        1 => Just(SOp::NextFreeKey),
    ]
}

/// reduced alphabet: keys 0, middle, last (in 0..=cap+2 the value 65535 maps to cap+2: out of bounds)
pub fn sop_alphabet() -> Vec<SOp> {
    vec![
        SOp::Insert(1),
        SOp::InsertAt(0, 2),
        SOp::InsertAt(30000, 3),
        SOp::InsertAt(65535, 4),
        SOp::Remove(0),
        SOp::Remove(20000),
        SOp::Remove(40000),
        SOp::GetMut(0, 5),
    ]
}

pub trait SlotMapApi<E> {
    fn insert(&mut self, v: E) -> Option<SlotMapKey>;
    fn insert_at(&mut self, k: SlotMapKey, v: E) -> bool;
    fn remove(&mut self, k: SlotMapKey) -> Option<E>;
    fn get(&self, k: SlotMapKey) -> Option<&E>;
    fn get_mut(&mut self, k: SlotMapKey) -> Option<&mut E>;
    fn contains(&self, k: SlotMapKey) -> bool;
    fn next_free_key(&self) -> Option<SlotMapKey>;
    fn len(&self) -> usize;
    fn capacity(&self) -> usize;
    fn is_empty(&self) -> bool;
    fn is_full(&self) -> bool;
    /// everything the iterator yields, in its order, mapped by `f`
    fn entries(&self, f: &mut dyn FnMut(usize, &E));
}

macro_rules! impl_api {
    ($($u:tt)?) => {
        fn insert(&mut self, v: E) -> Option<SlotMapKey> {
            $($u)? { Self::insert(self, v) }
        }
        fn insert_at(&mut self, k: SlotMapKey, v: E) -> bool {
            $($u)? { Self::insert_at(self, k, v) }
        }
        fn remove(&mut self, k: SlotMapKey) -> Option<E> {
            $($u)? { Self::remove(self, k) }
        }
        fn get(&self, k: SlotMapKey) -> Option<&E> {
            $($u)? { Self::get(self, k) }
        }
        fn get_mut(&mut self, k: SlotMapKey) -> Option<&mut E> {
            $($u)? { Self::get_mut(self, k) }
        }
        fn contains(&self, k: SlotMapKey) -> bool {
            $($u)? { Self::contains(self, k) }
        }
        fn next_free_key(&self) -> Option<SlotMapKey> {
            $($u)? { Self::next_free_key(self) }
        }
        fn len(&self) -> usize {
            Self::len(self)
        }
        fn capacity(&self) -> usize {
            Self::capacity(self)
        }
        fn is_empty(&self) -> bool {
            Self::is_empty(self)
        }
        fn is_full(&self) -> bool {
            Self::is_full(self)
        }
        fn entries(&self, f: &mut dyn FnMut(usize, &E)) {
            for (k, v) in $($u)? { Self::iter(self) } {
                f(k.value(), v);
            }
        }
    };
}

impl<E> SlotMapApi<E> for SlotMap<E> {
    impl_api!();
}
impl<E, const N: usize> SlotMapApi<E> for FixedSizeSlotMap<E, N> {
    impl_api!();
}
// SAFETY: `init` was called by `Block::try_new`.
impl<E> SlotMapApi<E> for RelocatableSlotMap<E> {
    impl_api!(unsafe);
}

pub fn run_slotmap_ops<'a, E: Elem + 'a, S: SlotMapApi<E> + 'a>(
    fetch: &mut dyn FnMut() -> &'a mut S,
    cap: usize,
    ops: &[SOp],
    hook: &mut dyn FnMut(usize),
    obs: &mut Obs,
    known: &Known,
) -> Result<(), Failure> {
    let mut m: BTreeMap<usize, u8> = BTreeMap::new();
    let mut was_full = false;
    let mut removed_inner_when_full = false;
    {
        let s = fetch();
        ensure!(s.capacity() == cap, "slotmap.capacity", "capacity() = {} expected {}", s.capacity(), cap);
        ensure!(s.is_empty() && s.len() == 0, "slotmap.len", "new slot map is not empty");
    }
    for (step, op) in ops.iter().enumerate() {
        let s = fetch();
        match op {
            SOp::Insert(x) => {
                if cap == 0 && known.exclude(SIG_CAPACITY_ZERO) {
                    // left out
                } else {
                    let predicted = s.next_free_key();
                    let r = s.insert(E::make(*x));
                    if m.len() == cap {
                        ensure!(r.is_none(), "slotmap.insert", "step {step}: insert on a full map returned {r:?}");
                        obs.class("slotmap.insert_on_full_refused");
                    } else {
                        let k = match r {
                            Some(k) => k.value(),
                            None => vcore::fail!("slotmap.insert", "step {step}: insert returned None with len {} cap {cap}", m.len()),
                        };
                        ensure!(k < cap, "slotmap.insert", "step {step}: insert returned key {k} >= capacity {cap}");
                        ensure!(!m.contains_key(&k), "slotmap.insert", "step {step}: insert returned key {k} which is in use (model {m:?})");
                        ensure!(predicted == r, "slotmap.next_free_key", "step {step}: next_free_key() said {predicted:?} but insert used {r:?}");
                        if was_full && removed_inner_when_full {
                            obs.nontrivial = true;
                            obs.class("slotmap.key_reused_after_full");
                        }
                        m.insert(k, *x);
                    }
                }
            }
            SOp::InsertAt(k, x) => {
                let k = idx(*k, cap + 3);
                let head = if cap == 0 && known.is_open(SIG_CAPACITY_ZERO) { None } else { s.next_free_key().map(|k| k.value()) };
                if k == cap && known.exclude(SIG_KEY_EQ_CAPACITY) {
                    // left out
                } else if k < cap && (m.contains_key(&k) || head == Some(k)) && known.exclude(SIG_INSERT_AT_FREE_LIST) {
                    // left out
                } else {
                    let r = s.insert_at(SlotMapKey::new(k), E::make(*x));
                    ensure!(r == (k < cap), "slotmap.insert_at", "step {step}: insert_at({k}) returned {r} with capacity {cap}");
                    if k < cap {
                        if m.insert(k, *x).is_some() {
                            obs.class("slotmap.insert_at_override");
                        } else if was_full && removed_inner_when_full {
                            obs.nontrivial = true;
                        }
                    } else {
                        obs.class("slotmap.insert_at_out_of_bounds");
                    }
                }
            }
            SOp::Remove(k) => {
                let k = idx(*k, cap + 3);
                if k == cap && known.exclude(SIG_KEY_EQ_CAPACITY) {
                    // left out
                } else {
                    let r = s.remove(SlotMapKey::new(k)).map(|t| t.val());
                    let largest = m.keys().next_back().copied();
                    let e = m.remove(&k);
                    ensure!(r == e, "slotmap.remove", "step {step}: remove({k}) returned {r:?} expected {e:?}");
                    if e.is_some() && was_full && Some(k) != largest {
                        removed_inner_when_full = true;
                        obs.class("slotmap.removed_inner");
                    }
                }
            }
            SOp::Get(k) => {
                if cap > 0 {
                    let k = idx(*k, cap);
                    let r = s.get(SlotMapKey::new(k)).map(|t| t.val());
                    ensure!(r == m.get(&k).copied(), "slotmap.get", "step {step}: get({k}) returned {r:?} expected {:?}", m.get(&k));
                }
            }
            SOp::GetMut(k, x) => {
                if cap > 0 {
                    let k = idx(*k, cap);
                    match s.get_mut(SlotMapKey::new(k)) {
                        Some(t) => {
                            ensure!(Some(t.val()) == m.get(&k).copied(), "slotmap.get_mut", "step {step}: get_mut({k}) saw {} expected {:?}", t.val(), m.get(&k));
                            t.set(*x);
                            m.insert(k, *x);
                        }
                        None => ensure!(!m.contains_key(&k), "slotmap.get_mut", "step {step}: get_mut({k}) returned None for a stored key"),
                    }
                }
            }
            SOp::Contains(k) => {
                if cap > 0 {
                    let k = idx(*k, cap);
                    let r = s.contains(SlotMapKey::new(k));
                    ensure!(r == m.contains_key(&k), "slotmap.contains", "step {step}: contains({k}) returned {r}");
                }
            }
            SOp::NextFreeKey => {}
        }
        if m.len() == cap && cap > 0 {
            was_full = true;
            obs.class("slotmap.reached_full");
        }
        ensure!(s.len() == m.len(), "slotmap.len", "step {step} {op:?}: len {} expected {}", s.len(), m.len());
        ensure!(s.is_empty() == m.is_empty(), "slotmap.is_empty", "step {step}: is_empty mismatch");
        ensure!(s.is_full() == (m.len() == cap), "slotmap.is_full", "step {step}: is_full mismatch");
        ensure!(s.capacity() == cap, "slotmap.capacity", "step {step}: capacity changed to {}", s.capacity());
        // free-key rule
        if !(cap == 0 && known.is_open(SIG_CAPACITY_ZERO)) {
            let nk = s.next_free_key().map(|k| k.value());
            if m.len() == cap {
                ensure!(nk.is_none(), "slotmap.next_free_key", "step {step} {op:?}: next_free_key() = {nk:?} on a full map");
            } else {
                match nk {
                    Some(k) => ensure!(k < cap && !m.contains_key(&k), "slotmap.next_free_key", "step {step} {op:?}: next_free_key() = {k} is not a free key (model {m:?}, capacity {cap})"),
                    None => vcore::fail!("slotmap.next_free_key", "step {step} {op:?}: next_free_key() = None with len {} < capacity {cap}", m.len()),
                }
            }
        }
        // contents: iteration (any order, every entry once), contains/get for every key in range
        let mut got: Vec<(usize, u8)> = vec![];
        s.entries(&mut |k, v| got.push((k, v.val())));
        got.sort();
        let exp: Vec<(usize, u8)> = m.iter().map(|(k, v)| (*k, *v)).collect();
        ensure!(got == exp, "slotmap.contents", "step {step} {op:?}: iteration yields {got:?} expected {exp:?}");
        for k in 0..cap {
            let key = SlotMapKey::new(k);
            ensure!(s.contains(key) == m.contains_key(&k), "slotmap.contains", "step {step} {op:?}: contains({k}) wrong");
            let g = s.get(key).map(|t| t.val());
            ensure!(g == m.get(&k).copied(), "slotmap.get", "step {step} {op:?}: get({k}) = {g:?} expected {:?}", m.get(&k));
        }
        hook(step);
    }
    Ok(())
}
