//! Helpers shared by the bb-level checks (C14, C16, …).
extern crate iceoryx2_bb_loggers;

pub mod families;
pub mod models;
pub mod reloc;
pub mod tracked;

pub fn silence_iceoryx_log() {
    iceoryx2_log::set_log_level(iceoryx2_log::LogLevel::Fatal);
}
