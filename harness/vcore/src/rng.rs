//! splitmix64: the only PRNG used outside proptest. Every stream is seeded from
//! (VERIF_SEED, worker, part) so a run is a pure function of code and seed.

#[derive(Clone, Debug)]
pub struct SplitMix(pub u64);

impl SplitMix {
    pub fn new(seed: u64) -> Self {
        SplitMix(seed)
    }
    pub fn next(&mut self) -> u64 {
        self.0 = self.0.wrapping_add(0x9E3779B97F4A7C15);
        let mut z = self.0;
        z = (z ^ (z >> 30)).wrapping_mul(0xBF58476D1CE4E5B9);
        z = (z ^ (z >> 27)).wrapping_mul(0x94D049BB133111EB);
        z ^ (z >> 31)
    }
    /// uniform in 0..n (n > 0)
    pub fn below(&mut self, n: u64) -> u64 {
        ((self.next() as u128 * n as u128) >> 64) as u64
    }
    pub fn range(&mut self, lo: u64, hi_incl: u64) -> u64 {
        lo + self.below(hi_incl - lo + 1)
    }
    pub fn chance(&mut self, num: u64, den: u64) -> bool {
        self.below(den) < num
    }
    pub fn pick<'a, T>(&mut self, v: &'a [T]) -> &'a T {
        &v[self.below(v.len() as u64) as usize]
    }
    pub fn shuffle<T>(&mut self, v: &mut [T]) {
        for i in (1..v.len()).rev() {
            let j = self.below(i as u64 + 1) as usize;
            v.swap(i, j);
        }
    }
}

pub fn mix(a: u64, b: u64) -> u64 {
    let mut s = SplitMix(a ^ b.rotate_left(32) ^ 0xA5A5_5A5A_DEAD_BEEF);
    s.next()
}

pub fn hash_str(s: &str) -> u64 {
    hash_bytes(s.as_bytes())
}

/// FNV-1a 64 followed by a splitmix finaliser (stable across runs and platforms)
pub fn hash_bytes(b: &[u8]) -> u64 {
    let mut h: u64 = 0xcbf29ce484222325;
    for x in b {
        h ^= *x as u64;
        h = h.wrapping_mul(0x100000001b3);
    }
    SplitMix(h).next()
}
