//! Shared machinery of the /verif checks: run context, worker processes, evidence,
//! known findings, proptest driver, shrinking helpers, controlled scheduler.

pub mod ctx;
pub mod rng;
#[allow(unused_parens)]
pub mod sched;
pub mod shrink;
pub mod util;

pub use ctx::*;
pub use serde_json::{Value, json};
