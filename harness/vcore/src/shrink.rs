//! Greedy shrinking for cases that are not produced by proptest (scheduler cases, crash cases).

/// Repeatedly replaces `case` by the first failing candidate until no candidate fails
/// or `budget` executions were spent.
pub fn greedy<C: Clone>(
    mut case: C,
    mut candidates: impl FnMut(&C) -> Vec<C>,
    mut fails: impl FnMut(&C) -> bool,
    mut budget: usize,
) -> C {
    loop {
        let mut progressed = false;
        for cand in candidates(&case) {
            if budget == 0 {
                return case;
            }
            budget -= 1;
            if fails(&cand) {
                case = cand;
                progressed = true;
                break;
            }
        }
        if !progressed {
            return case;
        }
    }
}

/// Candidates for a vector: remove chunks (halves … single elements).
pub fn vec_removals<T: Clone>(v: &[T]) -> Vec<Vec<T>> {
    let mut out = vec![];
    let n = v.len();
    let mut chunk = n / 2;
    while chunk >= 1 {
        let mut start = 0;
        while start + chunk <= n {
            let mut c = v[..start].to_vec();
            c.extend_from_slice(&v[start + chunk..]);
            out.push(c);
            start += chunk;
        }
        if chunk == 1 {
            break;
        }
        chunk /= 2;
    }
    out
}
