//! Run context: argument parsing, worker processes, statistics, evidence, known findings.
//!
//! A check binary calls `vcore::main(SPEC, body)`. Without `--worker` the process is the
//! parent: it starts N copies of itself (`--worker i/N`), merges what they measured, applies
//! the known-findings file, writes the evidence file and decides the exit code
//! (0 held, 1 violation, 2 inconclusive).

use crate::rng::{SplitMix, hash_str, mix};
#[allow(unused_imports)]
use crate::util::{panic_message, run_dir, verif_root};
use proptest::strategy::{Strategy, ValueTree};
use proptest::test_runner::{Config, RngSeed, TestCaseError, TestError, TestRunner};
use serde::Serialize;
use serde::de::DeserializeOwned;
use serde_json::{Value, json};
use std::collections::{BTreeMap, HashSet};
use std::io::Write;
use std::path::PathBuf;
use std::time::{Duration, Instant};

#[derive(Clone, Copy, PartialEq, Eq, Debug)]
pub enum Tier {
    Quick,
    Thorough,
}

pub struct Spec {
    pub prop: &'static str,
    /// exploration | fault_enumeration
    pub level: &'static str,
    /// how cases are generated and what makes one non-trivial
    pub rule: &'static str,
    pub assumptions: &'static [&'static str],
    /// hard limit for the whole run (seconds); exceeding it is inconclusive (exit 2)
    pub watchdog_quick_s: u64,
    pub watchdog_thorough_s: u64,
}

#[derive(Debug, Clone)]
pub struct Failure {
    /// stable classification of *what* failed (matched against known_findings.jsonl)
    pub signature: String,
    pub message: String,
}

impl Failure {
    pub fn new(signature: impl Into<String>, message: impl Into<String>) -> Self {
        Failure { signature: signature.into(), message: message.into() }
    }
}

#[macro_export]
macro_rules! fail {
    ($sig:expr, $($arg:tt)*) => {
        return Err($crate::Failure::new($sig, format!($($arg)*)))
    };
}

#[macro_export]
macro_rules! ensure {
    ($cond:expr, $sig:expr, $($arg:tt)*) => {
        if !($cond) {
            return Err($crate::Failure::new($sig, format!($($arg)*)));
        }
    };
}

/// Per-case observations made by the property body.
#[derive(Default)]
pub struct Obs {
    pub nontrivial: bool,
    pub classes: Vec<&'static str>,
    pub discarded: bool,
}

impl Obs {
    pub fn class(&mut self, c: &'static str) {
        if !self.classes.contains(&c) {
            self.classes.push(c);
        }
    }
}

#[derive(Debug, Clone)]
pub struct Finding {
    pub property: String,
    pub signature: String,
    pub what: String,
    pub status: String,
}

#[derive(Default)]
struct Stats {
    evaluations: u64,
    nontrivial: HashSet<u64>,
    classes: BTreeMap<String, u64>,
    parts: BTreeMap<String, (u64, u64)>,
    /// seconds spent per part in this worker (time between two `record` calls goes to the later one's part)
    part_s: BTreeMap<String, f64>,
    /// parent only: the slowest worker's seconds per part
    part_max_s: BTreeMap<String, f64>,
    last_record: Option<Instant>,
    samples: Vec<Value>,
    sample_per_part: BTreeMap<String, u32>,
    violations: Vec<Value>,
    known_hits: BTreeMap<String, u64>,
    excluded: BTreeMap<String, u64>,
    discarded: u64,
    inconclusive: Vec<String>,
    exhaustive: Vec<String>,
    notes: Vec<String>,
}

pub struct Ctx {
    pub prop: String,
    pub tier: Tier,
    pub seed: u64,
    pub worker: usize,
    pub nworkers: usize,
    /// `Some` in replay mode: the replay file
    pub replay: Option<Value>,
    /// only this part is executed (debugging aid: --part name)
    pub only_part: Option<String>,
    findings: Vec<Finding>,
    st: Stats,
    /// worker mode: where the measurements go (also written periodically, so that a run that
    /// is cut short by the watchdog still reports what it did)
    out: Option<PathBuf>,
    last_dump: Option<Instant>,
}

impl Ctx {
    fn dump(&mut self) {
        let Some(out) = self.out.clone() else { return };
        let tmp = out.with_extension("tmp");
        if std::fs::write(&tmp, serde_json::to_vec(&self.to_worker_json()).unwrap()).is_ok() {
            let _ = std::fs::rename(&tmp, &out);
        }
        let mut hb = Vec::with_capacity(self.st.nontrivial.len() * 8);
        for h in &self.st.nontrivial {
            hb.extend_from_slice(&h.to_le_bytes());
        }
        let tmp = out.with_extension("hashes.tmp");
        if std::fs::write(&tmp, hb).is_ok() {
            let _ = std::fs::rename(&tmp, out.with_extension("hashes"));
        }
        self.last_dump = Some(Instant::now());
    }

    fn maybe_dump(&mut self) {
        if self.out.is_none() || self.st.nontrivial.len() > 400_000 {
            return;
        }
        match self.last_dump {
            Some(t) if t.elapsed() < Duration::from_secs(30) => {}
            _ => self.dump(),
        }
    }

    /// Pins this worker process (all its threads) to one CPU. The controlled scheduler runs
    /// one thread at a time; on one CPU a baton hand-over is a plain context switch instead of
    /// a cross-CPU wake-up (which is very expensive inside a VM).
    pub fn pin_to_one_cpu(&self) {
        unsafe {
            let ncpu = libc::sysconf(libc::_SC_NPROCESSORS_ONLN).max(1) as usize;
            let mut set: libc::cpu_set_t = std::mem::zeroed();
            libc::CPU_SET(self.worker % ncpu, &mut set);
            libc::sched_setaffinity(0, std::mem::size_of::<libc::cpu_set_t>(), &set);
        }
    }

    pub fn quick(&self) -> bool {
        self.tier == Tier::Quick
    }

    /// picks the quick or the thorough value
    pub fn scale<T>(&self, quick: T, thorough: T) -> T {
        if self.quick() { quick } else { thorough }
    }

    /// seed of a named random stream of this worker
    pub fn stream_seed(&self, part: &str) -> u64 {
        mix(mix(self.seed, self.worker as u64 + 1), hash_str(part))
    }

    pub fn rng(&self, part: &str) -> SplitMix {
        SplitMix::new(self.stream_seed(part))
    }

    /// work splitting for enumerations: is item `i` executed by this worker?
    pub fn mine(&self, i: u64) -> bool {
        (i % self.nworkers as u64) == self.worker as u64
    }

    /// share of `total` random cases this worker runs
    pub fn share(&self, total: u64) -> u64 {
        let n = self.nworkers as u64;
        total / n + if (self.worker as u64) < total % n { 1 } else { 0 }
    }

    pub fn is_open_finding(&self, signature: &str) -> bool {
        self.findings
            .iter()
            .any(|f| f.property == self.prop && f.signature == signature && f.status == "open")
    }

    /// counts an input that the generator left out because of an open known finding
    pub fn count_excluded(&mut self, signature: &str) {
        *self.st.excluded.entry(signature.to_string()).or_default() += 1;
    }

    /// counts a case that could not be decided (budget); more than 1 % of them ⇒ exit 2
    pub fn count_discarded(&mut self) {
        self.st.discarded += 1;
    }

    /// should this part run? (replay mode: only the part named in the replay file)
    pub fn part_enabled(&self, part: &str) -> bool {
        if let Some(r) = &self.replay {
            return r.get("part").and_then(|p| p.as_str()) == Some(part);
        }
        match &self.only_part {
            Some(p) => p == part,
            None => true,
        }
    }

    pub fn replay_case<T: DeserializeOwned>(&self, part: &str) -> Option<T> {
        let r = self.replay.as_ref()?;
        if r.get("part").and_then(|p| p.as_str()) != Some(part) {
            return None;
        }
        match serde_json::from_value(r.get("case").cloned().unwrap_or(Value::Null)) {
            Ok(v) => Some(v),
            Err(e) => {
                eprintln!("replay file does not decode for part {part}: {e}");
                std::process::exit(2);
            }
        }
    }

    pub fn note(&mut self, s: impl Into<String>) {
        let s = s.into();
        if !self.st.notes.contains(&s) && self.st.notes.len() < 12 {
            self.st.notes.push(s);
        }
    }

    pub fn inconclusive(&mut self, why: impl Into<String>) {
        self.st.inconclusive.push(why.into());
    }

    pub fn mark_exhaustive(&mut self, dimension: impl Into<String>) {
        let d = dimension.into();
        if !self.st.exhaustive.contains(&d) {
            self.st.exhaustive.push(d);
        }
    }

    pub fn class(&mut self, name: &str, n: u64) {
        *self.st.classes.entry(name.to_string()).or_default() += n;
    }

    /// records one executed case
    pub fn record(&mut self, part: &str, key: u64, obs: &Obs, sample: impl FnOnce() -> Value) {
        self.st.evaluations += 1;
        if self.st.evaluations % 64 == 0 {
            self.maybe_dump();
        }
        let now = Instant::now();
        if let Some(t) = self.st.last_record {
            *self.st.part_s.entry(part.to_string()).or_default() += now.duration_since(t).as_secs_f64();
        }
        self.st.last_record = Some(now);
        let e = self.st.parts.entry(part.to_string()).or_default();
        e.0 += 1;
        if obs.discarded {
            self.st.discarded += 1;
        }
        for c in &obs.classes {
            *self.st.classes.entry(c.to_string()).or_default() += 1;
        }
        if obs.nontrivial {
            let fresh = self.st.nontrivial.insert(mix(key, hash_str(part)));
            if fresh {
                e.1 += 1;
                let n = self.st.sample_per_part.entry(part.to_string()).or_default();
                if *n < 2 && self.st.samples.len() < 24 {
                    *n += 1;
                    self.st.samples.push(json!({"part": part, "case": sample()}));
                }
            }
        }
    }

    /// records a violation (or a hit of an open known finding)
    pub fn violation(&mut self, part: &str, f: &Failure, case: Value) {
        if self.is_open_finding(&f.signature) {
            *self.st.known_hits.entry(f.signature.clone()).or_default() += 1;
            return;
        }
        if self.st.violations.len() < 20 {
            self.st.violations.push(json!({
                "property": self.prop, "part": part, "signature": f.signature, "message": f.message,
                "case": case, "seed": self.seed, "tier": if self.quick() {"quick"} else {"thorough"},
            }));
        }
    }

    /// Files a violation *before* it is shrunk and writes the worker's measurements out at once, so that a
    /// crash of the code under test during shrinking (re-execution of variants of the failing case) does
    /// not lose the failure. `replace_provisional` swaps in the shrunk case afterwards.
    pub fn violation_provisional(&mut self, part: &str, f: &Failure, case: Value) -> bool {
        let before = self.st.violations.len();
        self.violation(part, f, case);
        let filed = self.st.violations.len() > before;
        if filed {
            self.dump();
        }
        filed
    }

    pub fn replace_provisional(&mut self, part: &str, f: &Failure, case: Value) {
        self.st.violations.pop();
        self.violation(part, f, case);
    }

    pub fn violation_count(&self) -> usize {
        self.st.violations.len()
    }

    /// Probe of one known-finding signature with a dedicated case. `observed` = the defect
    /// shows. For an open finding that prints KNOWN-FINDING; for anything else it is a violation.
    pub fn probe_finding(&mut self, part: &str, signature: &str, observed: Option<String>, case: Value) {
        if let Some(msg) = observed {
            self.violation(part, &Failure::new(signature, msg), case);
        }
    }

    /// Runs `f` on one case with panic capture. Returns the failure, if any (known findings
    /// included; use `violation` to file it).
    pub fn guarded<R>(f: impl FnOnce() -> Result<R, Failure>) -> Result<R, Failure> {
        match std::panic::catch_unwind(std::panic::AssertUnwindSafe(f)) {
            Ok(r) => r,
            Err(e) => {
                let m = panic_message(&e);
                let short: String = m.chars().take(80).collect();
                Err(Failure::new(format!("panic: {short}"), format!("panic: {m}")))
            }
        }
    }

    /// Runs one case in a forked child process with a hard time limit. The calling process must be
    /// single-threaded. A case that does not finish within `limit` is killed and reported as
    /// `Failure{signature: hang_signature}` — use only where "the call returns" is part of the
    /// property (C04, C07) and with a limit that is orders of magnitude above the normal duration.
    /// A child that dies from a signal is reported as `<hang_signature>.crash`.
    pub fn forked(limit: Duration, hang_signature: &str, f: impl FnOnce(&mut Obs) -> Result<(), Failure>) -> (Obs, Result<(), Failure>) {
        let (obs, r) = Self::forked_value(limit, hang_signature, false, |obs| f(obs).map(|_| Value::Null));
        (obs, r.map(|_| ()))
    }

    /// Like `forked`, but the case hands a JSON value back to the caller, and with `capture_stderr`
    /// the child's stderr goes to a scratch file whose tail is appended to the message of a
    /// `<hang_signature>.crash` failure (so that an abort can be classified by what it printed).
    pub fn forked_value(limit: Duration, hang_signature: &str, capture_stderr: bool, f: impl FnOnce(&mut Obs) -> Result<Value, Failure>) -> (Obs, Result<Value, Failure>) {
        let mut fds = [0i32; 2];
        if unsafe { libc::pipe(fds.as_mut_ptr()) } != 0 {
            let mut obs = Obs::default();
            let r = Self::guarded(|| f(&mut obs));
            return (obs, r);
        }
        let errfile = crate::util::run_dir().join(format!("forked-stderr-{}", std::process::id()));
        let pid = unsafe { libc::fork() };
        if pid == 0 {
            unsafe { libc::close(fds[0]) };
            if capture_stderr {
                if let Ok(c) = std::ffi::CString::new(errfile.to_string_lossy().as_bytes()) {
                    let fd = unsafe { libc::open(c.as_ptr(), libc::O_CREAT | libc::O_WRONLY | libc::O_TRUNC, 0o600) };
                    if fd >= 0 {
                        unsafe {
                            libc::dup2(fd, 2);
                            libc::close(fd);
                        }
                    }
                }
            }
            let mut obs = Obs::default();
            let r = Self::guarded(|| f(&mut obs));
            let (value, failure) = match r {
                Ok(v) => (v, None),
                Err(f) => (Value::Null, Some(json!({"signature": f.signature, "message": f.message}))),
            };
            let j = json!({
                "nontrivial": obs.nontrivial, "discarded": obs.discarded, "classes": obs.classes,
                "failure": failure, "value": value,
            });
            let b = serde_json::to_vec(&j).unwrap_or_default();
            let mut off = 0;
            while off < b.len() {
                let n = unsafe { libc::write(fds[1], b[off..].as_ptr() as *const libc::c_void, b.len() - off) };
                if n <= 0 {
                    break;
                }
                off += n as usize;
            }
            unsafe { libc::_exit(0) };
        }
        unsafe { libc::close(fds[1]) };
        let t0 = Instant::now();
        let mut buf: Vec<u8> = vec![];
        let mut timed_out = false;
        let mut slow = false;
        let mut progress_note = String::new();
        unsafe {
            let flags = libc::fcntl(fds[0], libc::F_GETFL);
            libc::fcntl(fds[0], libc::F_SETFL, flags | libc::O_NONBLOCK);
        }
        loop {
            let mut chunk = [0u8; 4096];
            let n = unsafe { libc::read(fds[0], chunk.as_mut_ptr() as *mut libc::c_void, chunk.len()) };
            if n > 0 {
                buf.extend_from_slice(&chunk[..n as usize]);
                continue;
            }
            if n == 0 {
                break; // EOF: child closed the pipe (exited)
            }
            if t0.elapsed() > limit {
                // wall-clock alone cannot tell a hang from a starved machine: a case counts as
                // hanging only when it also burnt far more CPU (spin) or went to sleep far more
                // often (polling loop) than any terminating case does; otherwise keep waiting up
                // to 8 x limit and then give up on it as "slow" (discarded, not a violation)
                let stat = std::fs::read_to_string(format!("/proc/{pid}/stat")).unwrap_or_default();
                let f: Vec<&str> = stat.rsplit(')').next().unwrap_or("").split_whitespace().collect();
                let ticks = |i: usize| f.get(i).and_then(|v| v.parse::<u64>().ok()).unwrap_or(0);
                // fields after the command: state(0) ... utime(11) stime(12) cutime(13) cstime(14)
                let cpu_s = (ticks(11) + ticks(12) + ticks(13) + ticks(14)) / 100;
                let status = std::fs::read_to_string(format!("/proc/{pid}/status")).unwrap_or_default();
                let vol = status.lines().find_map(|l| l.strip_prefix("voluntary_ctxt_switches:")).and_then(|v| v.trim().parse::<u64>().ok()).unwrap_or(0);
                // "far more CPU than any terminating case": a case that is given `limit` normally takes
                // a small fraction of it, so 2 x limit of pure CPU time (at most 40 s) is a spin
                let hang_cpu = (limit.as_secs() * 2).clamp(3, 40);
                if cpu_s > hang_cpu || vol > 100_000 {
                    timed_out = true;
                    progress_note = format!("cpu {cpu_s} s, {vol} voluntary context switches");
                    break;
                }
                if t0.elapsed() > limit * 8 {
                    timed_out = true;
                    slow = true;
                    progress_note = format!("cpu {cpu_s} s, {vol} voluntary context switches");
                    break;
                }
            }
            std::thread::sleep(Duration::from_millis(2));
        }
        unsafe { libc::close(fds[0]) };
        let mut where_stuck = String::new();
        if timed_out {
            // diagnostics: where does the case process stand?
            let rd = |f: &str| std::fs::read_to_string(format!("/proc/{pid}/{f}")).unwrap_or_default();
            where_stuck = format!("wchan={} stack=[{}]", rd("wchan").trim(), rd("stack").lines().take(6).map(|l| l.trim().to_string()).collect::<Vec<_>>().join(" < "));
            if let Ok(kids) = std::fs::read_to_string(format!("/proc/{pid}/task/{pid}/children")) {
                for k in kids.split_whitespace() {
                    let st = std::fs::read_to_string(format!("/proc/{k}/stat")).unwrap_or_default();
                    let state = st.rsplit(')').next().unwrap_or("").trim().chars().next().unwrap_or('?');
                    let cmd = std::fs::read_to_string(format!("/proc/{k}/cmdline")).unwrap_or_default().replace('\0', " ");
                    let wch = std::fs::read_to_string(format!("/proc/{k}/wchan")).unwrap_or_default();
                    where_stuck.push_str(&format!(" child {k} state {state} wchan {wch} cmd [{}]", cmd.chars().take(120).collect::<String>()));
                }
            }
            unsafe {
                // the child may be a ptrace tracer with children of its own: kill its whole group is
                // not possible (same group as us), so kill the child; PTRACE_O_EXITKILL takes the rest
                libc::kill(pid, libc::SIGKILL);
            }
        }
        let mut status = 0;
        unsafe { libc::waitpid(pid, &mut status, 0) };
        let mut obs = Obs::default();
        if timed_out && slow {
            return (obs, Err(Failure::new("harness.slow", format!("the case did not finish within {} s but shows no sign of a hang ({progress_note}); {where_stuck}", limit.as_secs() * 8))));
        }
        if timed_out {
            return (obs, Err(Failure::new(hang_signature, format!("the case did not finish within {} s and is busy beyond anything a terminating case does ({progress_note}); {where_stuck}", limit.as_secs()))));
        }
        match serde_json::from_slice::<Value>(&buf) {
            Ok(j) => {
                obs.nontrivial = j["nontrivial"].as_bool().unwrap_or(false);
                obs.discarded = j["discarded"].as_bool().unwrap_or(false);
                if let Some(a) = j["classes"].as_array() {
                    for c in a {
                        if let Some(c) = c.as_str() {
                            obs.classes.push(Box::leak(c.to_string().into_boxed_str()));
                        }
                    }
                }
                let r = match j.get("failure") {
                    Some(Value::Object(o)) => Err(Failure::new(o["signature"].as_str().unwrap_or("?"), o["message"].as_str().unwrap_or("?"))),
                    _ => Ok(j.get("value").cloned().unwrap_or(Value::Null)),
                };
                if capture_stderr {
                    let _ = std::fs::remove_file(&errfile);
                }
                (obs, r)
            }
            Err(_) => {
                let why = if libc::WIFSIGNALED(status) { format!("signal {}", libc::WTERMSIG(status)) } else { format!("status {status:#x}") };
                let mut said = String::new();
                if capture_stderr {
                    if let Ok(b) = std::fs::read(&errfile) {
                        let t = String::from_utf8_lossy(&b).to_string();
                        let tail: String = t.chars().rev().take(1500).collect::<Vec<_>>().into_iter().rev().collect();
                        said = format!("; its last words on stderr: {}", tail.trim());
                    }
                    let _ = std::fs::remove_file(&errfile);
                }
                (obs, Err(Failure::new(format!("{hang_signature}.crash"), format!("the process running the case died ({why}) without reporting a result{said}"))))
            }
        }
    }

    /// Random search with proptest. `total_cases` is split over the workers. The closure is
    /// re-run during shrinking; counting stops at the first failure. Failures whose signature
    /// is an open known finding are counted and tolerated so the search continues behind them.
    pub fn proptest<S>(
        &mut self,
        part: &str,
        total_cases: u64,
        strategy: S,
        mut f: impl FnMut(&S::Value, &mut Obs) -> Result<(), Failure>,
    ) where
        S: Strategy,
        S::Value: Serialize + DeserializeOwned + Clone + std::fmt::Debug,
    {
        if !self.part_enabled(part) {
            return;
        }
        if let Some(case) = self.replay_case::<S::Value>(part) {
            let mut obs = Obs::default();
            let r = Self::guarded(|| f(&case, &mut obs));
            self.record(part, 0, &obs, || serde_json::to_value(&case).unwrap());
            if let Err(fl) = r {
                self.violation(part, &fl, serde_json::to_value(&case).unwrap());
            }
            return;
        }
        let cases = self.share(total_cases);
        if cases == 0 {
            return;
        }
        let seed = self.stream_seed(part);
        let cfg = Config {
            cases: cases as u32,
            failure_persistence: None,
            rng_seed: RngSeed::Fixed(seed),
            max_shrink_iters: 4000,
            max_global_rejects: 1_000_000,
            ..Config::default()
        };
        let mut runner = TestRunner::new(cfg);
        let failed = std::cell::Cell::new(false);
        let f = std::cell::RefCell::new(f);
        let part_s = part.to_string();
        // the closure needs &mut self for recording; collect into locals first
        let this: *mut Ctx = self;
        let result = runner.run(&strategy, |case| {
            let ctx = unsafe { &mut *this };
            let mut obs = Obs::default();
            let r = Self::guarded(|| (f.borrow_mut())(&case, &mut obs));
            if !failed.get() {
                let key = hash_str(&serde_json::to_string(&case).unwrap_or_default());
                ctx.record(&part_s, key, &obs, || serde_json::to_value(&case).unwrap());
            }
            match r {
                Ok(()) => Ok(()),
                Err(fl) => {
                    if ctx.is_open_finding(&fl.signature) {
                        if !failed.get() {
                            *ctx.st.known_hits.entry(fl.signature.clone()).or_default() += 1;
                        }
                        // tolerated only outside shrinking of another failure
                        return Ok(());
                    }
                    failed.set(true);
                    Err(TestCaseError::fail(fl.signature))
                }
            }
        });
        match result {
            Ok(()) => {}
            Err(TestError::Fail(_, minimal)) => {
                let mut obs = Obs::default();
                let fl = match Self::guarded(|| (f.borrow_mut())(&minimal, &mut obs)) {
                    Err(fl) => fl,
                    Ok(()) => Failure::new("flaky", "shrunk case passed when re-executed"),
                };
                self.violation(part, &fl, serde_json::to_value(&minimal).unwrap());
            }
            Err(TestError::Abort(r)) => self.inconclusive(format!("{part}: proptest aborted: {r}")),
        }
    }

    /// Bounded-exhaustive enumeration. `cases` yields the space in small-to-large order; the
    /// workers take alternating items; the part stops at its first failure (which is then
    /// among the smallest).
    pub fn enumerate<C>(
        &mut self,
        part: &str,
        dimension: &str,
        cases: impl Iterator<Item = C>,
        mut f: impl FnMut(&C, &mut Obs) -> Result<(), Failure>,
    ) where
        C: Serialize + DeserializeOwned + Clone,
    {
        if !self.part_enabled(part) {
            return;
        }
        if let Some(case) = self.replay_case::<C>(part) {
            let mut obs = Obs::default();
            let r = Self::guarded(|| f(&case, &mut obs));
            self.record(part, 0, &obs, || serde_json::to_value(&case).unwrap());
            if let Err(fl) = r {
                self.violation(part, &fl, serde_json::to_value(&case).unwrap());
            }
            return;
        }
        let mut complete = true;
        for (i, case) in cases.enumerate() {
            if !self.mine(i as u64) {
                continue;
            }
            let mut obs = Obs::default();
            let r = Self::guarded(|| f(&case, &mut obs));
            self.record(part, i as u64, &obs, || serde_json::to_value(&case).unwrap());
            if let Err(fl) = r {
                let known = self.is_open_finding(&fl.signature);
                self.violation(part, &fl, serde_json::to_value(&case).unwrap());
                if !known {
                    complete = false;
                    break;
                }
            }
        }
        if complete {
            self.mark_exhaustive(format!("{part}: {dimension}"));
        }
    }

    /// Shrinks by re-generating from a proptest value tree is not available for plain
    /// enumerations; this helper runs one explicit case and files the outcome.
    pub fn run_case<C: Serialize>(
        &mut self,
        part: &str,
        key: u64,
        case: &C,
        f: impl FnOnce(&mut Obs) -> Result<(), Failure>,
    ) -> bool {
        let mut obs = Obs::default();
        let r = Self::guarded(|| f(&mut obs));
        self.record(part, key, &obs, || serde_json::to_value(case).unwrap());
        match r {
            Ok(()) => true,
            Err(fl) => {
                self.violation(part, &fl, serde_json::to_value(case).unwrap());
                false
            }
        }
    }

    fn to_worker_json(&self) -> Value {
        json!({
            "evaluations": self.st.evaluations,
            "classes": self.st.classes,
            "parts": self.st.parts.iter().map(|(k, v)| (k.clone(), json!([v.0, v.1]))).collect::<serde_json::Map<_, _>>(),
            "part_s": self.st.part_s,
            "samples": self.st.samples,
            "violations": self.st.violations,
            "known_hits": self.st.known_hits,
            "excluded": self.st.excluded,
            "discarded": self.st.discarded,
            "inconclusive": self.st.inconclusive,
            "exhaustive": self.st.exhaustive,
            "notes": self.st.notes,
        })
    }
}

pub fn load_findings() -> Vec<Finding> {
    let p = verif_root().join("known_findings.jsonl");
    let mut v = vec![];
    if let Ok(s) = std::fs::read_to_string(&p) {
        for line in s.lines() {
            let line = line.trim();
            if line.is_empty() || line.starts_with('#') {
                continue;
            }
            if let Ok(j) = serde_json::from_str::<Value>(line) {
                v.push(Finding {
                    property: j["property"].as_str().unwrap_or("").to_string(),
                    signature: j["signature"].as_str().unwrap_or("").to_string(),
                    what: j["what"].as_str().unwrap_or("").to_string(),
                    status: j["status"].as_str().unwrap_or("open").to_string(),
                });
            }
        }
    }
    v
}

struct Args {
    tier: Tier,
    replay: Option<PathBuf>,
    worker: Option<(usize, usize)>,
    out: Option<PathBuf>,
    workers: usize,
    part: Option<String>,
    no_regressions: bool,
}

fn parse_args() -> Args {
    let mut a = Args {
        tier: match std::env::var("VERIF_TIER").as_deref() {
            Ok("thorough") => Tier::Thorough,
            _ => Tier::Quick,
        },
        replay: None,
        worker: None,
        out: None,
        workers: std::env::var("VERIF_WORKERS").ok().and_then(|s| s.parse().ok()).unwrap_or(16),
        part: None,
        no_regressions: false,
    };
    let argv: Vec<String> = std::env::args().collect();
    let mut i = 1;
    while i < argv.len() {
        match argv[i].as_str() {
            "--tier" => {
                i += 1;
                a.tier = if argv[i] == "thorough" { Tier::Thorough } else { Tier::Quick };
            }
            "--replay" => {
                i += 1;
                a.replay = Some(PathBuf::from(&argv[i]));
            }
            "--worker" => {
                i += 1;
                let (x, y) = argv[i].split_once('/').expect("--worker i/N");
                a.worker = Some((x.parse().unwrap(), y.parse().unwrap()));
            }
            "--out" => {
                i += 1;
                a.out = Some(PathBuf::from(&argv[i]));
            }
            "--workers" => {
                i += 1;
                a.workers = argv[i].parse().unwrap();
            }
            "--part" => {
                i += 1;
                a.part = Some(argv[i].clone());
            }
            "--no-regressions" => a.no_regressions = true,
            other => {
                eprintln!("unknown argument {other}");
                std::process::exit(2);
            }
        }
        i += 1;
    }
    a
}

fn seed_from_env() -> u64 {
    std::env::var("VERIF_SEED").ok().and_then(|s| s.trim().parse::<u64>().ok()).unwrap_or(20260923)
}

fn new_ctx(spec: &Spec, a: &Args, worker: usize, nworkers: usize) -> Ctx {
    Ctx {
        prop: spec.prop.to_string(),
        tier: a.tier,
        seed: seed_from_env(),
        worker,
        nworkers,
        replay: None,
        only_part: a.part.clone(),
        findings: load_findings(),
        st: Stats::default(),
        out: None,
        last_dump: None,
    }
}

fn regression_files(prop: &str) -> Vec<PathBuf> {
    let d = verif_root().join("regressions").join(prop);
    let mut v: Vec<PathBuf> = std::fs::read_dir(d)
        .map(|rd| rd.flatten().map(|e| e.path()).filter(|p| p.extension().map(|e| e == "json").unwrap_or(false)).collect())
        .unwrap_or_default();
    v.sort();
    v
}

pub fn main(spec: Spec, body: fn(&mut Ctx)) -> ! {
    let a = parse_args();
    crate::util::quiet_panics();
    // ---- replay mode -------------------------------------------------------------------
    if let Some(path) = &a.replay {
        let txt = std::fs::read_to_string(path).unwrap_or_else(|e| {
            eprintln!("cannot read replay file {}: {e}", path.display());
            std::process::exit(2)
        });
        let j: Value = serde_json::from_str(&txt).unwrap_or_else(|e| {
            eprintln!("replay file is not JSON: {e}");
            std::process::exit(2)
        });
        if j.get("kind").and_then(|k| k.as_str()) == Some("worker_rerun") {
            // a worker died from a signal: re-run exactly that worker
            let mut ctx = new_ctx(&spec, &a, j["worker"].as_u64().unwrap() as usize, j["nworkers"].as_u64().unwrap() as usize);
            ctx.seed = j["seed"].as_u64().unwrap();
            ctx.tier = if j["tier"] == "thorough" { Tier::Thorough } else { Tier::Quick };
            body(&mut ctx);
            finish_inline(&spec, &ctx, path);
        }
        let mut ctx = new_ctx(&spec, &a, 0, 1);
        if let Some(s) = j.get("seed").and_then(|s| s.as_u64()) {
            ctx.seed = s;
        }
        ctx.replay = Some(j);
        body(&mut ctx);
        finish_inline(&spec, &ctx, path);
    }
    // ---- worker mode -------------------------------------------------------------------
    if let Some((w, n)) = a.worker {
        let mut ctx = new_ctx(&spec, &a, w, n);
        ctx.out = a.out.clone();
        ctx.last_dump = Some(Instant::now());
        ctx.st.last_record = Some(Instant::now());
        if w == 0 && !a.no_regressions && a.part.is_none() {
            for f in regression_files(spec.prop) {
                if let Ok(txt) = std::fs::read_to_string(&f) {
                    if let Ok(j) = serde_json::from_str::<Value>(&txt) {
                        ctx.replay = Some(j);
                        let before = ctx.st.violations.len();
                        body(&mut ctx);
                        ctx.class("regression_files_replayed", 1);
                        if ctx.st.violations.len() > before {
                            ctx.note(format!("regression {} failed", f.display()));
                        }
                    }
                }
            }
            ctx.replay = None;
        }
        body(&mut ctx);
        assert!(a.out.is_some(), "--out");
        ctx.dump();
        std::process::exit(0);
    }
    // ---- parent ------------------------------------------------------------------------
    let t0 = Instant::now();
    let seed = seed_from_env();
    crate::util::sweep_dead_run_dirs();
    let dir = run_dir();
    let exe = std::env::current_exe().unwrap();
    let n = a.workers.max(1);
    let mut children = vec![];
    for w in 0..n {
        let out = dir.join(format!("w{w}.json"));
        let mut c = std::process::Command::new(&exe);
        c.arg("--tier").arg(if a.tier == Tier::Quick { "quick" } else { "thorough" });
        c.arg("--worker").arg(format!("{w}/{n}")).arg("--out").arg(&out);
        if let Some(p) = &a.part {
            c.arg("--part").arg(p);
        }
        if a.no_regressions {
            c.arg("--no-regressions");
        }
        c.env("VERIF_SEED", seed.to_string());
        c.env("VERIF_RUN_DIR", dir.join(format!("w{w}")));
        let child = c.spawn().expect("spawn worker");
        children.push((w, child, out));
    }
    let limit = Duration::from_secs(
        std::env::var("VERIF_WATCHDOG_S").ok().and_then(|v| v.parse().ok()).unwrap_or(if a.tier == Tier::Quick { spec.watchdog_quick_s } else { spec.watchdog_thorough_s }),
    );
    let mut merged = Stats::default();
    let mut crashed: Vec<(usize, String)> = vec![];
    let mut timed_out = false;
    let mut pending: Vec<_> = children.into_iter().map(|c| (c, false)).collect();
    loop {
        let mut all_done = true;
        for ((w, child, _), done) in pending.iter_mut() {
            if *done {
                continue;
            }
            match child.try_wait() {
                Ok(Some(st)) => {
                    *done = true;
                    if !st.success() {
                        use std::os::unix::process::ExitStatusExt;
                        let why = match st.signal() {
                            Some(s) => format!("signal {s}"),
                            None => format!("exit code {:?}", st.code()),
                        };
                        crashed.push((*w, why));
                    }
                }
                Ok(None) => all_done = false,
                Err(_) => *done = true,
            }
        }
        if all_done {
            break;
        }
        if t0.elapsed() > limit {
            timed_out = true;
            for ((_, child, _), done) in pending.iter_mut() {
                if !*done {
                    let _ = child.kill();
                    let _ = child.wait();
                }
            }
            break;
        }
        std::thread::sleep(Duration::from_millis(20));
    }
    for ((_w, _, out), _) in &pending {
        if let Ok(txt) = std::fs::read(out) {
            if let Ok(j) = serde_json::from_slice::<Value>(&txt) {
                merge(&mut merged, &j);
            }
        }
        if let Ok(hb) = std::fs::read(out.with_extension("hashes")) {
            for ch in hb.chunks_exact(8) {
                merged.nontrivial.insert(u64::from_le_bytes(ch.try_into().unwrap()));
            }
        }
    }
    if timed_out {
        merged.inconclusive.push(format!("watchdog: run exceeded {} s", limit.as_secs()));
    }
    let replay_dir = verif_root().join("replays");
    std::fs::create_dir_all(&replay_dir).ok();
    if a.part.is_none() {
        // replays/ holds the failures of the latest run of each property only
        if let Ok(rd) = std::fs::read_dir(&replay_dir) {
            for e in rd.flatten() {
                if e.file_name().to_string_lossy().starts_with(&format!("{}-", spec.prop)) {
                    let _ = std::fs::remove_file(e.path());
                }
            }
        }
    }
    let tier_s = if a.tier == Tier::Quick { "quick" } else { "thorough" };
    let mut violation_lines = vec![];
    for (w, why) in &crashed {
        // exit code 2 from a worker = it declared itself inconclusive (bad arguments etc.)
        if why == "exit code Some(2)" {
            merged.inconclusive.push(format!("worker {w} exited with code 2"));
            continue;
        }
        let j = json!({"kind": "worker_rerun", "property": spec.prop, "worker": w, "nworkers": n, "seed": seed, "tier": tier_s,
            "message": format!("worker process died ({why}); re-running this file repeats the worker's whole deterministic run")});
        let p = replay_dir.join(format!("{}-worker{}-seed{}.json", spec.prop, w, seed));
        std::fs::write(&p, serde_json::to_vec_pretty(&j).unwrap()).ok();
        violation_lines.push(format!("VIOLATION property={} replay={}", spec.prop, p.display()));
        eprintln!("worker {w} died: {why}");
    }
    for v in &merged.violations {
        let h = hash_str(&v.to_string());
        let p = replay_dir.join(format!("{}-{:016x}.json", spec.prop, h));
        std::fs::write(&p, serde_json::to_vec_pretty(v).unwrap()).ok();
        eprintln!(
            "violation in part {}: [{}] {}",
            v["part"].as_str().unwrap_or("?"),
            v["signature"].as_str().unwrap_or("?"),
            v["message"].as_str().unwrap_or("?")
        );
        violation_lines.push(format!("VIOLATION property={} replay={}", spec.prop, p.display()));
    }
    let findings = load_findings();
    let mut known_lines = vec![];
    // one line per listed open finding of this property: re-observed ones with their count; the others are
    // still listed (rare windows are not hit by every seed; partial runs with --part see only their part)
    for f in findings.iter().filter(|f| f.property == spec.prop && f.status == "open") {
        match merged.known_hits.get(&f.signature) {
            Some(hits) => known_lines.push(format!("KNOWN-FINDING: property={} {} — {} (observed {} times)", spec.prop, f.signature, f.what, hits)),
            None => known_lines.push(format!("KNOWN-FINDING: property={} {} — {} (listed; not re-observed by this run)", spec.prop, f.signature, f.what)),
        }
    }
    let nviol = violation_lines.len();
    let wall = t0.elapsed().as_secs_f64();
    let mut coverage = serde_json::Map::new();
    coverage.insert("evaluations".into(), json!(merged.evaluations));
    coverage.insert("distinct_nontrivial".into(), json!(merged.nontrivial.len()));
    coverage.insert("rule".into(), json!(spec.rule));
    coverage.insert("samples".into(), json!(merged.samples.iter().take(16).collect::<Vec<_>>()));
    coverage.insert("exhaustive".into(), json!(!merged.exhaustive.is_empty() && nviol == 0));
    coverage.insert("exhaustive_dimensions".into(), json!(merged.exhaustive));
    coverage.insert(
        "parts".into(),
        Value::Object(
            merged
                .parts
                .iter()
                .map(|(k, v)| {
                    let r = |x: f64| (x * 10.0).round() / 10.0;
                    (
                        k.clone(),
                        json!({"evaluations": v.0, "distinct_nontrivial": v.1,
                        "worker_seconds_total": r(merged.part_s.get(k).copied().unwrap_or(0.0)),
                        "slowest_worker_s": r(merged.part_max_s.get(k).copied().unwrap_or(0.0))}),
                    )
                })
                .collect(),
        ),
    );
    coverage.insert("classes".into(), json!(merged.classes));
    coverage.insert("discarded".into(), json!(merged.discarded));
    coverage.insert("excluded_by_known_finding".into(), json!(merged.excluded));
    coverage.insert("known_findings_observed".into(), json!(merged.known_hits));
    coverage.insert("workers".into(), json!(n));
    coverage.insert("notes".into(), json!(merged.notes));
    coverage.insert("inconclusive".into(), json!(merged.inconclusive));
    let ev = json!({
        "property_id": spec.prop, "tier": tier_s, "seed": seed, "level": spec.level,
        "coverage": Value::Object(coverage),
        "assumptions": spec.assumptions, "wall_s": wall, "violations": nviol,
    });
    // seeded-change runs (tools/seeded_run.sh) must not overwrite the evidence of the unchanged tree
    let evdir = std::env::var("VERIF_EVIDENCE_DIR").map(PathBuf::from).unwrap_or_else(|_| verif_root().join("evidence"));
    std::fs::create_dir_all(&evdir).ok();
    if a.part.is_none() {
        std::fs::write(evdir.join(format!("{}.json", spec.prop)), serde_json::to_vec_pretty(&ev).unwrap()).ok();
    }
    let _ = std::fs::remove_dir_all(&dir);
    let so = std::io::stdout();
    let mut so = so.lock();
    for l in &known_lines {
        writeln!(so, "{l}").ok();
    }
    for l in &violation_lines {
        writeln!(so, "{l}").ok();
    }
    writeln!(
        so,
        "{} {}: evaluations={} distinct_nontrivial={} violations={} known={} (of {} listed) discarded={} wall={:.1}s{}",
        spec.prop,
        tier_s,
        merged.evaluations,
        merged.nontrivial.len(),
        nviol,
        merged.known_hits.len(),
        known_lines.len(),
        merged.discarded,
        wall,
        if merged.inconclusive.is_empty() { String::new() } else { format!(" INCONCLUSIVE: {:?}", merged.inconclusive) }
    )
    .ok();
    drop(so);
    if nviol > 0 {
        std::process::exit(1);
    }
    if !merged.inconclusive.is_empty() || (merged.evaluations > 100 && merged.discarded * 100 > merged.evaluations) {
        std::process::exit(2);
    }
    std::process::exit(0);
}

fn finish_inline(spec: &Spec, ctx: &Ctx, path: &std::path::Path) -> ! {
    for (sig, hits) in &ctx.st.known_hits {
        println!("KNOWN-FINDING: property={} {} (observed {} times)", spec.prop, sig, hits);
    }
    for v in &ctx.st.violations {
        eprintln!("[{}] {}", v["signature"].as_str().unwrap_or("?"), v["message"].as_str().unwrap_or("?"));
    }
    if !ctx.st.violations.is_empty() {
        println!("VIOLATION property={} replay={}", spec.prop, path.display());
        std::process::exit(1);
    }
    if ctx.st.evaluations == 0 {
        eprintln!("replay executed no case (unknown part?)");
        std::process::exit(2);
    }
    println!("{} replay: no violation ({} cases)", spec.prop, ctx.st.evaluations);
    std::process::exit(0);
}

fn merge(m: &mut Stats, j: &Value) {
    m.evaluations += j["evaluations"].as_u64().unwrap_or(0);
    m.discarded += j["discarded"].as_u64().unwrap_or(0);
    if let Some(o) = j["classes"].as_object() {
        for (k, v) in o {
            *m.classes.entry(k.clone()).or_default() += v.as_u64().unwrap_or(0);
        }
    }
    if let Some(o) = j["parts"].as_object() {
        for (k, v) in o {
            let e = m.parts.entry(k.clone()).or_default();
            e.0 += v[0].as_u64().unwrap_or(0);
            e.1 += v[1].as_u64().unwrap_or(0);
        }
    }
    if let Some(o) = j["part_s"].as_object() {
        for (k, v) in o {
            let x = v.as_f64().unwrap_or(0.0);
            *m.part_s.entry(k.clone()).or_default() += x;
            let mx = m.part_max_s.entry(k.clone()).or_default();
            if x > *mx {
                *mx = x;
            }
        }
    }
    for key in ["known_hits", "excluded"] {
        if let Some(o) = j[key].as_object() {
            for (k, v) in o {
                let t = if key == "known_hits" { &mut m.known_hits } else { &mut m.excluded };
                *t.entry(k.clone()).or_default() += v.as_u64().unwrap_or(0);
            }
        }
    }
    if let Some(a) = j["samples"].as_array() {
        // interleave: keep at most 2 per part overall
        for s in a {
            let part = s["part"].as_str().unwrap_or("").to_string();
            let n = m.sample_per_part.entry(part).or_default();
            if *n < 2 {
                *n += 1;
                m.samples.push(s.clone());
            }
        }
    }
    if let Some(a) = j["violations"].as_array() {
        for v in a {
            // one replay file per (part, signature)
            let dup = m.violations.iter().any(|x| x["part"] == v["part"] && x["signature"] == v["signature"]);
            if !dup {
                m.violations.push(v.clone());
            }
        }
    }
    for (key, tgt) in [("inconclusive", 0), ("exhaustive", 1), ("notes", 2)] {
        if let Some(a) = j[key].as_array() {
            for s in a {
                let s = s.as_str().unwrap_or("").to_string();
                let t = match tgt {
                    0 => &mut m.inconclusive,
                    1 => &mut m.exhaustive,
                    _ => &mut m.notes,
                };
                if !t.contains(&s) {
                    t.push(s);
                }
            }
        }
    }
}

/// keeps proptest's ValueTree trait in scope for users of the helper module
pub fn _unused<T: ValueTree>(_: T) {}
