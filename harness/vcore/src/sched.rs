
//! vsched: controlled scheduler on top of the instrumented atomics (`--cfg iceoryx2_verif`).
//!
//! Exactly one registered thread runs between two atomic accesses; the `pre` hook is the
//! yield point; a schedule is a sparse preemption list `[(yield index, target thread)]`.
//! In weak-memory mode pure loads may additionally return a C11-permitted stale value,
//! selected by `Schedule::stale` (0 = newest).

use iceoryx2_pal_concurrency_sync::atomic as a;
use serde::{Deserialize, Serialize};
use std::cell::Cell;
use std::collections::HashMap;
use std::sync::atomic::{AtomicBool, AtomicPtr, Ordering as O};
use std::sync::{Condvar, Mutex, MutexGuard};

pub use a::Kind;

#[derive(Clone, Debug, Default, Serialize, Deserialize, PartialEq, Eq, Hash)]
pub struct Schedule {
    /// at global yield number `.0` (1-based) switch to thread `.1` if it is runnable
    pub preempt: Vec<(u32, u8)>,
    /// weak-memory mode: the i-th eligible-stale load returns the `stale[i]`-th newest
    /// admissible message (0 = newest); missing entries mean 0
    #[serde(default)]
    pub stale: Vec<u8>,
    #[serde(default)]
    pub weak: bool,
}

#[derive(Clone, Debug, Default)]
pub struct RunInfo {
    pub yields: u32,
    pub deadlock: bool,
    /// threads that were blocked when the deadlock was declared
    pub blocked: Vec<bool>,
    pub budget_exhausted: bool,
    /// a preemption took a thread off the CPU while it was between op_begin and op_end
    pub preempt_inside: bool,
    pub preemptions_taken: u32,
    pub cas_fail: u32,
    pub stale_reads: u32,
    /// number of loads for which more than one message was admissible
    pub stale_opportunities: u32,
    pub panics: Vec<(usize, String)>,
    pub forced_switches: u32,
}

#[derive(Clone, Copy, PartialEq, Debug)]
enum Ts {
    Runnable,
    Blocked,
    Finished,
}

type View = HashMap<usize, u32>;

fn join(a: &mut View, b: &View) {
    for (k, v) in b {
        let e = a.entry(*k).or_insert(0);
        if *e < *v {
            *e = *v;
        }
    }
}

struct Msg {
    ts: u32,
    value: u64,
    view: View,
}

#[derive(Default)]
struct TView {
    cur: View,
    acq: View,
    rel: View,
}

struct St {
    current: usize,
    ts: Vec<Ts>,
    pred: Vec<Option<*const (dyn Fn() -> bool)>>,
    yields: u32,
    preempt: Vec<(u32, u8)>,
    next_p: usize,
    free_run: bool,
    inside: Vec<bool>,
    info: RunInfo,
    spin: u32,
    // weak memory
    weak: bool,
    stale: Vec<u8>,
    next_stale: usize,
    locs: HashMap<usize, Vec<Msg>>,
    views: Vec<TView>,
    global: View,
}

unsafe impl Send for St {}

pub struct Sched {
    mu: Mutex<St>,
    cvs: Vec<Condvar>,
}

static SCHED: AtomicPtr<Sched> = AtomicPtr::new(std::ptr::null_mut());
static INSTALLED: AtomicBool = AtomicBool::new(false);

thread_local! { static TID: Cell<Option<usize>> = const { Cell::new(None) }; }

const YIELD_BUDGET: u32 = 60_000;
/// preemption target meaning "the next runnable thread other than the running one"
pub const OTHER: usize = 255;
const SPIN_LIMIT: u32 = 300;

fn sched() -> Option<&'static Sched> {
    let p = SCHED.load(O::Acquire);
    if p.is_null() { None } else { Some(unsafe { &*p }) }
}

fn hook_pre(_addr: usize, _size: u8, kind: Kind, _order: a::Ordering) {
    if let Some(t) = TID.get() {
        if let Some(s) = sched() {
            s.yield_point(t, kind);
        }
    }
}

fn hook_load(addr: usize, _size: u8, order: a::Ordering, real: u64) -> u64 {
    if let Some(t) = TID.get() {
        if let Some(s) = sched() {
            return s.on_load(t, addr, order, real);
        }
    }
    real
}

fn hook_post(addr: usize, _size: u8, kind: Kind, order: a::Ordering, old: u64, new: u64) {
    if let Some(t) = TID.get() {
        if let Some(s) = sched() {
            s.on_post(t, addr, kind, order, old, new);
        }
    }
}

static HOOKS: a::Hooks = a::Hooks { pre: hook_pre, load: hook_load, post: hook_post };

/// Installs the hook table (idempotent). Threads that are not registered with a running
/// schedule pass through untouched.
pub fn install() {
    if !INSTALLED.swap(true, O::SeqCst) {
        unsafe { a::set_hooks(&HOOKS) };
    }
}

fn is_acq(o: a::Ordering) -> bool {
    matches!(o, a::Ordering::Acquire | a::Ordering::AcqRel | a::Ordering::SeqCst)
}
fn is_rel(o: a::Ordering) -> bool {
    matches!(o, a::Ordering::Release | a::Ordering::AcqRel | a::Ordering::SeqCst)
}
fn is_sc(o: a::Ordering) -> bool {
    matches!(o, a::Ordering::SeqCst)
}

impl Sched {
    fn runnable(st: &St, t: usize) -> bool {
        match st.ts[t] {
            Ts::Runnable => true,
            Ts::Finished => false,
            Ts::Blocked => match st.pred[t] {
                Some(p) => unsafe { (*p)() },
                None => false,
            },
        }
    }

    fn pick(st: &St, preferred: Option<usize>, me: usize, allow_me: bool) -> Option<usize> {
        if let Some(p) = preferred {
            if Self::runnable(st, p) {
                return Some(p);
            }
        }
        if allow_me && Self::runnable(st, me) {
            return Some(me);
        }
        let n = st.ts.len();
        // round robin starting after me (keeps forced switches fair)
        (1..=n).map(|d| (me + d) % n).find(|&t| (allow_me || t != me) && Self::runnable(st, t))
    }

    fn declare_free_run(&self, st: &mut St) {
        st.free_run = true;
        for c in &self.cvs {
            c.notify_all();
        }
    }

    fn hand_over<'a>(&'a self, mut st: MutexGuard<'a, St>, me: usize, next: Option<usize>) -> MutexGuard<'a, St> {
        match next {
            Some(n) if n == me => {
                st.ts[me] = Ts::Runnable;
                st.pred[me] = None;
                st
            }
            Some(n) => {
                if st.ts[n] == Ts::Blocked {
                    st.ts[n] = Ts::Runnable;
                    st.pred[n] = None;
                }
                st.current = n;
                st.spin = 0;
                self.cvs[n].notify_one();
                if st.ts[me] == Ts::Finished {
                    return st;
                }
                while st.current != me && !st.free_run {
                    st = self.cvs[me].wait(st).unwrap();
                }
                if st.ts[me] == Ts::Blocked && st.current == me {
                    st.ts[me] = Ts::Runnable;
                    st.pred[me] = None;
                }
                st
            }
            None => {
                // nobody can run
                if st.ts.iter().any(|t| *t == Ts::Blocked) {
                    st.info.deadlock = true;
                    st.info.blocked = st.ts.iter().map(|t| *t == Ts::Blocked).collect();
                    self.declare_free_run(&mut st);
                }
                st
            }
        }
    }

    fn yield_point(&self, t: usize, kind: Kind) {
        let mut st = self.mu.lock().unwrap();
        if st.free_run {
            return;
        }
        st.yields += 1;
        if st.yields > YIELD_BUDGET {
            st.info.budget_exhausted = true;
            self.declare_free_run(&mut st);
            return;
        }
        let mut pref = None;
        if st.next_p < st.preempt.len() && st.preempt[st.next_p].0 == st.yields {
            pref = Some(st.preempt[st.next_p].1 as usize);
            st.next_p += 1;
        }
        // fairness for spin loops: a long run of pure loads by one thread forces a switch
        if kind == Kind::Load {
            st.spin += 1;
        }
        if st.spin > SPIN_LIMIT && pref.is_none() {
            st.spin = 0;
            if let Some(n) = Self::pick(&st, None, t, false) {
                st.info.forced_switches += 1;
                drop(self.hand_over(st, t, Some(n)));
                return;
            }
        }
        if let Some(mut p) = pref {
            if p == OTHER {
                // "the next runnable thread other than me" (all there is to say with two threads)
                p = Self::pick(&st, None, t, false).unwrap_or(t);
            }
            if p != t && p < st.ts.len() && Self::runnable(&st, p) {
                if st.inside[t] {
                    st.info.preempt_inside = true;
                }
                st.info.preemptions_taken += 1;
                drop(self.hand_over(st, t, Some(p)));
            }
        }
    }

    fn block_until(&self, t: usize, pred: &(dyn Fn() -> bool)) -> bool {
        let mut st = self.mu.lock().unwrap();
        if st.free_run {
            return false;
        }
        if pred() {
            return true;
        }
        st.ts[t] = Ts::Blocked;
        // lifetime erased: the pointer is only used while this thread is parked here
        let p: *const (dyn Fn() -> bool) = unsafe { std::mem::transmute(pred as *const (dyn Fn() -> bool)) };
        st.pred[t] = Some(p);
        let n = Self::pick(&st, None, t, true);
        let mut st = self.hand_over(st, t, n);
        st.pred[t] = None;
        if st.ts[t] == Ts::Blocked {
            st.ts[t] = Ts::Runnable;
        }
        !st.free_run
    }

    fn start(&self, t: usize) {
        TID.set(Some(t));
        let mut st = self.mu.lock().unwrap();
        while st.current != t && !st.free_run {
            st = self.cvs[t].wait(st).unwrap();
        }
    }

    fn finish(&self, t: usize) {
        TID.set(None);
        let mut st = self.mu.lock().unwrap();
        st.ts[t] = Ts::Finished;
        st.inside[t] = false;
        if st.free_run {
            return;
        }
        let n = Self::pick(&st, None, t, false);
        if n.is_none() && st.ts.iter().all(|x| *x == Ts::Finished) {
            return;
        }
        drop(self.hand_over(st, t, n));
    }

    // ---- weak memory -----------------------------------------------------------------

    fn on_load(&self, t: usize, addr: usize, order: a::Ordering, real: u64) -> u64 {
        let mut st = self.mu.lock().unwrap();
        if !st.weak || st.free_run {
            return real;
        }
        let st = &mut *st;
        let hist = st.locs.entry(addr).or_default();
        if hist.last().map(|m| m.value != real).unwrap_or(true) {
            // unknown or re-initialised location: history starts here
            hist.clear();
            hist.push(Msg { ts: 0, value: real, view: View::new() });
            for v in st.views.iter_mut() {
                v.cur.remove(&addr);
                v.acq.remove(&addr);
                v.rel.remove(&addr);
            }
            st.global.remove(&addr);
        }
        let tv = &mut st.views[t];
        if is_sc(order) {
            join(&mut tv.cur, &st.global);
        }
        let floor = *tv.cur.get(&addr).unwrap_or(&0);
        let newest = hist.len() - 1;
        let eligible_from = hist.iter().position(|m| m.ts >= floor).unwrap_or(newest);
        let mut pick = newest;
        if !is_sc(order) && eligible_from < newest {
            st.info.stale_opportunities += 1;
            let k = st.stale.get(st.next_stale).copied().unwrap_or(0) as usize;
            st.next_stale += 1;
            let k = k.min(newest - eligible_from);
            pick = newest - k;
            if k > 0 {
                st.info.stale_reads += 1;
            }
        }
        let m = &hist[pick];
        let e = tv.cur.entry(addr).or_insert(0);
        if *e < m.ts {
            *e = m.ts;
        }
        join(&mut tv.acq, &m.view);
        if is_acq(order) {
            join(&mut tv.cur, &m.view);
        }
        if is_sc(order) {
            let c = tv.cur.clone();
            join(&mut st.global, &c);
        }
        m.value
    }

    fn on_post(&self, t: usize, addr: usize, kind: Kind, order: a::Ordering, old: u64, new: u64) {
        let mut st = self.mu.lock().unwrap();
        if kind == Kind::CasFail {
            st.info.cas_fail += 1;
        } else {
            st.spin = 0;
        }
        if !st.weak || st.free_run {
            return;
        }
        let st = &mut *st;
        if kind == Kind::Fence {
            let tv = &mut st.views[t];
            if is_acq(order) {
                let a = tv.acq.clone();
                join(&mut tv.cur, &a);
            }
            if is_sc(order) {
                join(&mut tv.cur, &st.global);
                let c = tv.cur.clone();
                join(&mut st.global, &c);
            }
            if is_rel(order) {
                tv.rel = tv.cur.clone();
            }
            return;
        }
        let hist = st.locs.entry(addr).or_default();
        let reads = matches!(kind, Kind::Rmw | Kind::CasOk | Kind::CasFail);
        if reads || hist.is_empty() {
            if hist.last().map(|m| m.value != old).unwrap_or(true) {
                hist.clear();
                hist.push(Msg { ts: 0, value: old, view: View::new() });
            }
        }
        let tv = &mut st.views[t];
        if is_sc(order) {
            join(&mut tv.cur, &st.global);
        }
        let mut carried = View::new();
        if reads {
            // read part: always the newest message (atomicity of RMW)
            let m = hist.last().unwrap();
            let e = tv.cur.entry(addr).or_insert(0);
            if *e < m.ts {
                *e = m.ts;
            }
            join(&mut tv.acq, &m.view);
            if is_acq(order) {
                join(&mut tv.cur, &m.view);
            }
            carried = m.view.clone(); // release sequence continues through the RMW
        }
        if kind != Kind::CasFail {
            let ts = hist.last().map(|m| m.ts + 1).unwrap_or(0);
            tv.cur.insert(addr, ts);
            let mut view = if is_rel(order) { tv.cur.clone() } else { tv.rel.clone() };
            view.insert(addr, ts);
            join(&mut view, &carried);
            hist.push(Msg { ts, value: new, view });
            if hist.len() > 64 {
                hist.remove(0);
            }
        }
        if is_sc(order) {
            let c = tv.cur.clone();
            join(&mut st.global, &c);
        }
    }
}

/// Marks the begin of an operation of the structure under test on the calling thread
/// (for the "preemption landed inside an operation" statistic).
pub fn op_begin() {
    if let (Some(t), Some(s)) = (TID.get(), sched()) {
        s.mu.lock().unwrap().inside[t] = true;
    }
}

pub fn op_end() {
    if let (Some(t), Some(s)) = (TID.get(), sched()) {
        s.mu.lock().unwrap().inside[t] = false;
    }
}

/// Logical time: number of yield points passed so far (0 outside a run).
pub fn stamp() -> u32 {
    match sched() {
        Some(s) => s.mu.lock().unwrap().yields,
        None => 0,
    }
}

/// Explicit yield point for harness-side model primitives.
pub fn yield_now() {
    if let (Some(t), Some(s)) = (TID.get(), sched()) {
        s.yield_point(t, Kind::Rmw);
    }
}

/// Parks the calling registered thread until `pred` holds. Returns false when the run was
/// abandoned (deadlock declared or budget exhausted) — the caller must then return an error
/// to the code under test instead of blocking. For unregistered threads: spins.
pub fn block_until(pred: &(dyn Fn() -> bool)) -> bool {
    match (TID.get(), sched()) {
        (Some(t), Some(s)) => s.block_until(t, pred),
        _ => {
            let mut n = 0u32;
            while !pred() {
                std::thread::yield_now();
                n += 1;
                if n > 50_000_000 {
                    return false;
                }
            }
            true
        }
    }
}

pub fn is_registered() -> bool {
    TID.get().is_some()
}

/// Runs the thread bodies under the schedule. Thread 0 starts; a finished or blocked thread
/// passes the baton to the next runnable one (round robin).
pub fn run<'a>(bodies: Vec<Box<dyn FnOnce() + Send + 'a>>, sch: &Schedule) -> RunInfo {
    install();
    let n = bodies.len();
    let s = Sched {
        mu: Mutex::new(St {
            current: 0,
            ts: vec![Ts::Runnable; n],
            pred: vec![None; n],
            yields: 0,
            preempt: sch.preempt.clone(),
            next_p: 0,
            free_run: false,
            inside: vec![false; n],
            info: RunInfo::default(),
            spin: 0,
            weak: sch.weak,
            stale: sch.stale.clone(),
            next_stale: 0,
            locs: HashMap::new(),
            views: (0..n).map(|_| TView::default()).collect(),
            global: View::new(),
        }),
        cvs: (0..n).map(|_| Condvar::new()).collect(),
    };
    let sp: *const Sched = &s;
    SCHED.store(sp as *mut Sched, O::Release);
    let panics: Mutex<Vec<(usize, String)>> = Mutex::new(vec![]);
    std::thread::scope(|sc| {
        for (i, b) in bodies.into_iter().enumerate() {
            let panics = &panics;
            let s = &s;
            sc.spawn(move || {
                s.start(i);
                let r = std::panic::catch_unwind(std::panic::AssertUnwindSafe(b));
                if let Err(e) = r {
                    panics.lock().unwrap().push((i, crate::util::panic_message(&e)));
                }
                s.finish(i);
            });
        }
    });
    SCHED.store(std::ptr::null_mut(), O::Release);
    let st = s.mu.into_inner().unwrap();
    let mut info = st.info;
    info.yields = st.yields;
    info.panics = panics.into_inner().unwrap();
    info.panics.sort();
    info
}

/// All preemption lists with at most `bound` entries for a program with `yields` yield
/// points and `threads` threads, in small-to-large order.
pub fn enumerate_preemptions(yields: u32, threads: u8, bound: usize) -> Vec<Vec<(u32, u8)>> {
    let mut out: Vec<Vec<(u32, u8)>> = vec![vec![]];
    let mut frontier: Vec<Vec<(u32, u8)>> = vec![vec![]];
    for _ in 0..bound {
        let mut next = vec![];
        for l in &frontier {
            let from = l.last().map(|x| x.0 + 1).unwrap_or(1);
            for y in from..=yields {
                for t in 0..threads {
                    let mut c = l.clone();
                    c.push((y, t));
                    next.push(c);
                }
            }
        }
        out.extend(next.iter().cloned());
        frontier = next;
    }
    out
}

/// Random preemption list: `k` change points uniform over the measured length (PCT style).
pub fn random_preemptions(rng: &mut crate::rng::SplitMix, yields: u32, threads: u8, k: usize) -> Vec<(u32, u8)> {
    let mut pts: Vec<u32> = (0..k).map(|_| rng.range(1, yields.max(1) as u64) as u32).collect();
    pts.sort();
    pts.dedup();
    pts.into_iter().map(|y| (y, rng.below(threads as u64) as u8)).collect()
}

/// Shrink candidates of a schedule: fewer preemptions, earlier preemptions, fewer stale reads.
pub fn shrink_schedule(s: &Schedule) -> Vec<Schedule> {
    let mut out = vec![];
    for i in 0..s.preempt.len() {
        let mut c = s.clone();
        c.preempt.remove(i);
        out.push(c);
    }
    for i in 0..s.stale.len() {
        if s.stale[i] != 0 {
            let mut c = s.clone();
            c.stale[i] = 0;
            out.push(c);
        }
    }
    if s.stale.iter().all(|x| *x == 0) && !s.stale.is_empty() {
        let mut c = s.clone();
        c.stale.clear();
        out.push(c);
    }
    out
}
