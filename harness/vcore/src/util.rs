use std::path::{Path, PathBuf};

/// Monotone index mapping (keeps proptest shrinking effective): maps a u16 onto 0..len.
pub fn idx(i: u16, len: usize) -> usize {
    if len == 0 { 0 } else { ((i as usize) * len) >> 16 }
}

pub fn verif_root() -> PathBuf {
    PathBuf::from(std::env::var("VERIF_ROOT").unwrap_or_else(|_| "/verif".into()))
}

/// Scratch directory of this process (removed by the parent at exit).
pub fn run_dir() -> PathBuf {
    // tmpfs: iceoryx2 fsyncs every static storage it writes; on a disk file system the ipc
    // checks spend most of their time in journal commits (measured 3.7x for request-response)
    let base = std::env::var("VERIF_RUN_DIR").map(PathBuf::from).unwrap_or_else(|_| {
        let shm = PathBuf::from("/dev/shm/verif-run");
        let root = if std::fs::create_dir_all(&shm).is_ok() { shm } else { verif_root().join("run") };
        root.join(format!("{}", std::process::id()))
    });
    std::fs::create_dir_all(&base).ok();
    base
}

pub fn list_dir_recursive(p: &Path, out: &mut Vec<PathBuf>) {
    if let Ok(rd) = std::fs::read_dir(p) {
        for e in rd.flatten() {
            let path = e.path();
            if path.is_dir() && !path.is_symlink() {
                out.push(path.clone());
                list_dir_recursive(&path, out);
            } else {
                out.push(path);
            }
        }
    }
}

/// Names in /dev/shm that contain `needle`.
pub fn shm_entries_containing(needle: &str) -> Vec<String> {
    let mut v = vec![];
    if let Ok(rd) = std::fs::read_dir("/dev/shm") {
        for e in rd.flatten() {
            let n = e.file_name().to_string_lossy().to_string();
            if n.contains(needle) {
                v.push(n);
            }
        }
    }
    v.sort();
    v
}

pub fn panic_message(e: &Box<dyn std::any::Any + Send>) -> String {
    if let Some(s) = e.downcast_ref::<&str>() {
        s.to_string()
    } else if let Some(s) = e.downcast_ref::<String>() {
        s.clone()
    } else {
        "<non-string panic>".into()
    }
}

/// Silences the default panic hook output (the harness catches panics and reports them itself).
pub fn quiet_panics() {
    if std::env::var("VERIF_PANIC_VERBOSE").is_ok() {
        return;
    }
    std::panic::set_hook(Box::new(|_| {}));
}

/// Removes run directories of processes that no longer exist (left behind by killed runs).
pub fn sweep_dead_run_dirs() {
    for root in [PathBuf::from("/dev/shm/verif-run"), verif_root().join("run")] {
        if let Ok(rd) = std::fs::read_dir(&root) {
            for e in rd.flatten() {
                let n = e.file_name().to_string_lossy().to_string();
                if !n.is_empty() && n.chars().all(|c| c.is_ascii_digit()) && !Path::new(&format!("/proc/{n}")).exists() {
                    let _ = std::fs::remove_dir_all(e.path());
                }
            }
        }
    }
}

/// Is the address range mapped in this process? (mincore probe: lets a check turn "the memory behind a
/// held reference was unmapped" into a reported failure instead of dying from SIGSEGV)
pub fn mapped(addr: usize, len: usize) -> bool {
    if len == 0 {
        return true;
    }
    let page = 4096usize;
    let first = addr & !(page - 1);
    let span = (addr + len).div_ceil(page) * page - first;
    let mut vec = vec![0u8; span / page];
    let r = unsafe { libc::mincore(first as *mut libc::c_void, span, vec.as_mut_ptr()) };
    r == 0
}
