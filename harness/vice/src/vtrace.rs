//! vtrace: a minimal ptrace-based process stepper. The harness owns the progress of a traced
//! child at system-call granularity: it can run the child to the entry of its next
//! state-changing call, let that call execute, inspect the system from its own process while the
//! child is frozen at the boundary, kill it there, or interleave several traced children
//! deterministically (two children never run at the same time unless the harness says so).
//!
//! Must be used from one thread per tracee (ptrace requests are bound to the attaching thread).

use std::ffi::CString;
use std::path::Path;

/// x86_64 numbers of the state-changing calls that count as crash / interleaving points
const TABLE: &[(i64, &str)] = &[
    (1, "write"),
    (2, "open"),
    (3, "close"),
    (9, "mmap"),
    (11, "munmap"),
    (18, "pwrite64"),
    (41, "socket"),
    (42, "connect"),
    (44, "sendto"),
    (46, "sendmsg"),
    (48, "shutdown"),
    (49, "bind"),
    (50, "listen"),
    (53, "socketpair"),
    (72, "fcntl"),
    (73, "flock"),
    (77, "ftruncate"),
    (82, "rename"),
    (83, "mkdir"),
    (84, "rmdir"),
    (85, "creat"),
    (86, "link"),
    (87, "unlink"),
    (88, "symlink"),
    (90, "chmod"),
    (91, "fchmod"),
    (257, "openat"),
    (258, "mkdirat"),
    (263, "unlinkat"),
    (264, "renameat"),
    (265, "linkat"),
    (266, "symlinkat"),
    (268, "fchmodat"),
    (285, "fallocate"),
    (316, "renameat2"),
    (452, "fchmodat2"),
];

pub fn syscall_name(nr: i64) -> Option<&'static str> {
    TABLE.iter().find(|(n, _)| *n == nr).map(|(_, s)| *s)
}

#[derive(Debug, Clone, PartialEq)]
pub enum Event {
    /// the child is stopped at the entry of a state-changing call (it has not executed yet)
    Entry { nr: i64, name: &'static str, detail: String },
    /// a phase marker `write(-1, "VERIF_PHASE:<name>")` was passed
    Marker(String),
    /// the child is gone: exit status (None = killed by a signal)
    Exited(Option<i32>),
}

pub struct Tracee {
    pub pid: i32,
    in_syscall: bool,
    /// the tracee is stopped at a syscall entry that `next` reported and that was not yet executed
    pending_entry: bool,
    exited: Option<Option<i32>>,
}

fn errno() -> i32 {
    unsafe { *libc::__errno_location() }
}

impl Tracee {
    /// Starts `exe args…` traced; the child is stopped right after exec.
    pub fn spawn(exe: &Path, args: &[String], envs: &[(String, String)]) -> Result<Tracee, String> {
        let c_exe = CString::new(exe.to_str().unwrap()).unwrap();
        let mut c_args: Vec<CString> = vec![c_exe.clone()];
        c_args.extend(args.iter().map(|a| CString::new(a.as_str()).unwrap()));
        let mut env_strings: Vec<CString> = std::env::vars().filter(|(k, _)| !envs.iter().any(|(e, _)| e == k)).map(|(k, v)| CString::new(format!("{k}={v}")).unwrap()).collect();
        env_strings.extend(envs.iter().map(|(k, v)| CString::new(format!("{k}={v}")).unwrap()));
        let mut argv: Vec<*const libc::c_char> = c_args.iter().map(|a| a.as_ptr()).collect();
        argv.push(std::ptr::null());
        let mut envp: Vec<*const libc::c_char> = env_strings.iter().map(|a| a.as_ptr()).collect();
        envp.push(std::ptr::null());
        let pid = unsafe { libc::fork() };
        if pid < 0 {
            return Err(format!("fork failed: errno {}", errno()));
        }
        if pid == 0 {
            unsafe {
                // child: silence stdio, request tracing, exec
                let devnull = libc::open(c"/dev/null".as_ptr(), libc::O_RDWR);
                if devnull >= 0 {
                    libc::dup2(devnull, 0);
                    libc::dup2(devnull, 1);
                    if std::env::var_os("VERIF_CHILD_STDERR").is_none() {
                        libc::dup2(devnull, 2);
                    }
                }
                libc::prctl(libc::PR_SET_PDEATHSIG, libc::SIGKILL);
                libc::ptrace(libc::PTRACE_TRACEME, 0, 0, 0);
                libc::raise(libc::SIGSTOP);
                libc::execve(c_exe.as_ptr(), argv.as_ptr(), envp.as_ptr());
                libc::_exit(127);
            }
        }
        let mut status = 0;
        let r = unsafe { libc::waitpid(pid, &mut status, libc::__WALL) };
        if r != pid || !libc::WIFSTOPPED(status) {
            return Err(format!("child did not stop after fork (status {status:#x})"));
        }
        let opts = libc::PTRACE_O_TRACESYSGOOD | libc::PTRACE_O_EXITKILL | libc::PTRACE_O_TRACEEXEC;
        if unsafe { libc::ptrace(libc::PTRACE_SETOPTIONS, pid, 0, opts) } != 0 {
            return Err(format!("PTRACE_SETOPTIONS failed: errno {}", errno()));
        }
        Ok(Tracee { pid, in_syscall: false, pending_entry: false, exited: None })
    }

    fn regs(&self) -> Option<libc::user_regs_struct> {
        let mut regs: libc::user_regs_struct = unsafe { std::mem::zeroed() };
        let r = unsafe { libc::ptrace(libc::PTRACE_GETREGS, self.pid, 0, &mut regs as *mut _) };
        if r == 0 { Some(regs) } else { None }
    }

    fn read_mem(&self, addr: u64, len: usize) -> Vec<u8> {
        use std::io::{Read, Seek, SeekFrom};
        let mut v = vec![0u8; len.min(4096)];
        if let Ok(mut f) = std::fs::File::open(format!("/proc/{}/mem", self.pid)) {
            if f.seek(SeekFrom::Start(addr)).is_ok() {
                let n = f.read(&mut v).unwrap_or(0);
                v.truncate(n);
                return v;
            }
        }
        vec![]
    }

    fn read_cstr(&self, addr: u64) -> String {
        let b = self.read_mem(addr, 256);
        let end = b.iter().position(|c| *c == 0).unwrap_or(b.len());
        String::from_utf8_lossy(&b[..end]).to_string()
    }

    /// resumes until the next syscall stop / exit; returns false when the child is gone
    fn step(&mut self, sig: i32) -> Option<i32> {
        loop {
            if unsafe { libc::ptrace(libc::PTRACE_SYSCALL, self.pid, 0, sig) } != 0 {
                // tracee vanished
                let mut status = 0;
                unsafe { libc::waitpid(self.pid, &mut status, libc::__WALL) };
                self.exited = Some(if libc::WIFEXITED(status) { Some(libc::WEXITSTATUS(status)) } else { None });
                return None;
            }
            let mut status = 0;
            let r = unsafe { libc::waitpid(self.pid, &mut status, libc::__WALL) };
            if r != self.pid {
                self.exited = Some(None);
                return None;
            }
            if libc::WIFEXITED(status) {
                self.exited = Some(Some(libc::WEXITSTATUS(status)));
                return None;
            }
            if libc::WIFSIGNALED(status) {
                self.exited = Some(None);
                return None;
            }
            if libc::WIFSTOPPED(status) {
                return Some(status);
            }
        }
    }

    /// Runs the child up to its next state-changing call (stopped at the entry, call not yet
    /// executed), phase marker, or exit. A previously reported entry is executed first.
    pub fn next(&mut self) -> Event {
        if let Some(e) = self.exited {
            return Event::Exited(e);
        }
        self.pending_entry = false;
        let mut sig = 0;
        loop {
            let Some(status) = self.step(sig) else {
                return Event::Exited(self.exited.unwrap());
            };
            sig = 0;
            let stopsig = libc::WSTOPSIG(status);
            if stopsig == (libc::SIGTRAP | 0x80) {
                let Some(regs) = self.regs() else { continue };
                // x86_64: at a syscall-entry stop rax holds -ENOSYS
                self.in_syscall = regs.rax as i64 == -(libc::ENOSYS as i64);
                if !self.in_syscall {
                    continue; // syscall exit
                }
                let nr = regs.orig_rax as i64;
                let Some(name) = syscall_name(nr) else { continue };
                if nr == 1 && regs.rdi as i64 as i32 == -1 {
                    let txt = String::from_utf8_lossy(&self.read_mem(regs.rsi, regs.rdx as usize)).to_string();
                    if let Some(p) = txt.strip_prefix("VERIF_PHASE:") {
                        return Event::Marker(p.to_string());
                    }
                }
                let detail = match nr {
                    2 | 85 | 87 | 83 | 84 | 90 => self.read_cstr(regs.rdi),
                    82 | 86 | 88 => format!("{} -> {}", self.read_cstr(regs.rdi), self.read_cstr(regs.rsi)),
                    257 | 258 | 263 | 268 | 452 => self.read_cstr(regs.rsi),
                    264 | 316 | 265 => format!("{} -> {}", self.read_cstr(regs.rsi), self.read_cstr(regs.r10)),
                    72 => format!("fd {} cmd {}", regs.rdi, regs.rsi),
                    _ => format!("{:#x}", regs.rdi),
                };
                self.pending_entry = true;
                return Event::Entry { nr, name, detail };
            } else if stopsig == libc::SIGTRAP {
                // exec event or plain trap: not forwarded
                continue;
            } else if stopsig == libc::SIGSTOP {
                continue;
            } else {
                sig = stopsig; // deliver the signal to the child
            }
        }
    }

    /// Kills the child where it stands (at a call entry: the call never executes).
    pub fn kill(&mut self) {
        if self.exited.is_some() {
            return;
        }
        unsafe {
            libc::kill(self.pid, libc::SIGKILL);
            let mut status = 0;
            // reap (the tracee may need several waits: ptrace stop, then death)
            loop {
                let r = libc::waitpid(self.pid, &mut status, libc::__WALL);
                if r < 0 || libc::WIFEXITED(status) || libc::WIFSIGNALED(status) {
                    break;
                }
                libc::ptrace(libc::PTRACE_CONT, self.pid, 0, 0);
            }
        }
        self.exited = Some(None);
    }

    /// Lets the child run to completion without further stops; returns its exit code.
    pub fn finish(&mut self) -> Option<i32> {
        if let Some(e) = self.exited {
            return e;
        }
        loop {
            if let Event::Exited(e) = self.next() {
                return e;
            }
        }
    }

    pub fn is_alive(&self) -> bool {
        self.exited.is_none()
    }
}

impl Drop for Tracee {
    fn drop(&mut self) {
        self.kill();
    }
}

/// One recorded step of a reference run.
#[derive(Debug, Clone)]
pub struct Step {
    pub index: usize,
    pub name: &'static str,
    pub detail: String,
    pub phase: String,
}

/// Runs the child to completion and records its state-changing calls between the `begin` and
/// `end` markers.
pub fn reference_run(exe: &Path, args: &[String], envs: &[(String, String)]) -> Result<Vec<Step>, String> {
    let mut t = Tracee::spawn(exe, args, envs)?;
    let mut steps = vec![];
    let mut phase = String::new();
    let mut in_region = false;
    loop {
        match t.next() {
            Event::Marker(p) => {
                in_region = p != "end" && (in_region || p == "begin");
                phase = p;
            }
            Event::Entry { name, detail, .. } => {
                if in_region {
                    steps.push(Step { index: steps.len(), name, detail, phase: phase.clone() });
                }
            }
            Event::Exited(code) => {
                if code != Some(0) {
                    return Err(format!("reference run of {args:?} exited with {code:?}"));
                }
                return Ok(steps);
            }
        }
    }
}

/// Spawns the child and runs it until it stands at the entry of region step `n` (0-based, counted
/// from the `begin` marker). `Ok(None)`: the child exited before reaching it.
pub fn run_to_step(exe: &Path, args: &[String], envs: &[(String, String)], n: usize) -> Result<Option<Tracee>, String> {
    let mut t = Tracee::spawn(exe, args, envs)?;
    let mut in_region = false;
    let mut k = 0usize;
    loop {
        match t.next() {
            Event::Marker(p) => {
                if p == "begin" {
                    in_region = true;
                }
                if p == "end" {
                    in_region = false;
                }
            }
            Event::Entry { .. } => {
                if in_region {
                    if k == n {
                        return Ok(Some(t));
                    }
                    k += 1;
                }
            }
            Event::Exited(_) => return Ok(None),
        }
    }
}
