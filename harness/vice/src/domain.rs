//! An isolated iceoryx2 domain per case: own root directory (under the run directory of
//! this process) and a unique prefix, so that cases and worker processes never see each other.
//! `leftovers()` is the shared oracle "nothing the application created remains" (C17, C02, C04,
//! C06): everything under the root and every /dev/shm entry carrying the prefix, minus what is
//! documented to persist per domain (the directories themselves and the global management
//! segment of the domain).

use iceoryx2::config::Config;
use iceoryx2_bb_container::semantic_string::SemanticString;
use iceoryx2_bb_system_types::file_name::FileName;
use iceoryx2_bb_system_types::path::Path;
use std::path::PathBuf;
use std::sync::atomic::{AtomicU64, Ordering};

static COUNTER: AtomicU64 = AtomicU64::new(0);

pub struct Domain {
    pub config: Config,
    pub root: PathBuf,
    pub prefix: String,
}

impl Domain {
    /// Fresh domain with iceoryx2's automatic dead-node cleanup switched off (checks that want it
    /// switch it on in `config`).
    pub fn new() -> Domain {
        let n = COUNTER.fetch_add(1, Ordering::Relaxed);
        let prefix = format!("v{}x{}_", std::process::id(), n);
        // the root is unique per process as well: forked case processes inherit the counter
        Self::with(&prefix, &format!("d{}_{n}", std::process::id()))
    }

    /// Domain with an explicit prefix and root directory name (for the isolation checks).
    pub fn with(prefix: &str, root_name: &str) -> Domain {
        Self::at(prefix, &vcore::util::run_dir().join(root_name))
    }

    /// Domain with an explicit prefix and an absolute root path (child processes join the
    /// domain of their parent this way).
    pub fn at(prefix: &str, root: &std::path::Path) -> Domain {
        let root = root.to_path_buf();
        std::fs::create_dir_all(&root).expect("create domain root");
        let mut config = Config::default();
        config.global.set_root_path(&Path::new(root.to_str().unwrap().as_bytes()).expect("root path is a valid Path"));
        config.global.prefix = FileName::new(prefix.as_bytes()).expect("prefix is a valid FileName");
        config.global.node.cleanup_dead_nodes_on_creation = false;
        config.global.node.cleanup_dead_nodes_on_destruction = false;
        config.global.service.cleanup_dead_nodes_on_open = false;
        Domain { config, root, prefix: prefix.to_string() }
    }

    fn is_domain_wide(name: &str, config: &Config) -> bool {
        let suffix = String::from_utf8_lossy(config.global.node.global_mgmt_suffix.as_bytes()).to_string();
        name.ends_with(&suffix)
    }

    /// Everything that still exists and is not documented to persist per domain.
    pub fn leftovers(&self) -> Vec<String> {
        let mut out = vec![];
        let mut files = vec![];
        vcore::util::list_dir_recursive(&self.root, &mut files);
        let node_dir = self.root.join(String::from_utf8_lossy(self.config.global.node.directory.as_bytes()).to_string());
        let service_dir = self.root.join(String::from_utf8_lossy(self.config.global.service.directory.as_bytes()).to_string());
        for f in files {
            if f == node_dir || f == service_dir {
                continue;
            }
            let name = f.file_name().map(|n| n.to_string_lossy().to_string()).unwrap_or_default();
            if Self::is_domain_wide(&name, &self.config) {
                continue;
            }
            out.push(f.strip_prefix(&self.root).unwrap_or(&f).display().to_string());
        }
        for n in vcore::util::shm_entries_containing(&self.prefix) {
            if Self::is_domain_wide(&n, &self.config) {
                continue;
            }
            out.push(format!("/dev/shm/{n}"));
        }
        out.sort();
        out
    }

    /// Removes the domain-wide objects and the root (end of a case).
    pub fn cleanup(&self) {
        unsafe {
            let _ = iceoryx2::testing::remove_global_mgmt_segment::<iceoryx2::service::ipc::Service>(&self.config);
            let _ = iceoryx2::testing::remove_global_mgmt_segment::<iceoryx2::service::local::Service>(&self.config);
        }
        for n in vcore::util::shm_entries_containing(&self.prefix) {
            let _ = std::fs::remove_file(format!("/dev/shm/{n}"));
        }
        let _ = std::fs::remove_dir_all(&self.root);
    }
}

impl Default for Domain {
    fn default() -> Self {
        Self::new()
    }
}

/// Janitor: removes /dev/shm objects of domains whose creating process no longer exists
/// (left behind by killed runs: prefix `v<pid>x<n>_`).
pub fn sweep_dead_domains() {
    if let Ok(rd) = std::fs::read_dir("/dev/shm") {
        for e in rd.flatten() {
            let n = e.file_name().to_string_lossy().to_string();
            let Some(rest) = n.strip_prefix('v') else { continue };
            let Some((pid, tail)) = rest.split_once('x') else { continue };
            if pid.is_empty() || !pid.chars().all(|c| c.is_ascii_digit()) || !tail.chars().next().map(|c| c.is_ascii_digit()).unwrap_or(false) {
                continue;
            }
            if !std::path::Path::new(&format!("/proc/{pid}")).exists() {
                let _ = std::fs::remove_file(e.path());
            }
        }
    }
}
